(* C18: construction is exact and the text form round-trips.

   The repo's own logic (lstrip / split(' ',1) / strip / symbol lookup / class
   dispatch / explicit-unit conversion / quantisation) is proved for ALL
   inputs.  The dependency's numeric printer and parser are Section variables
   constrained by [num_contract]; after the Section every theorem carries the
   contract as an explicit premise, and a concrete decimal printer/parser pair
   ([toy_show], [toy_parse]) is proved to satisfy it (non-vacuity). *)
From Coq Require Import ZArith QArith Qabs List Bool Lia Lqa.
From Coq Require Import DecimalPos DecimalZ DecimalFacts.
From QV Require Import Model.Num Model.Rounding Gen.RoundingImpl Model.Quantity
     Model.Text Proofs.RoundingQ Proofs.QuantityProofs Proofs.C13Proofs
     Proofs.C01Proofs Proofs.C05Proofs.
Open Scope Q_scope.

(* ------------------------------------------------------------------ strings *)
Lemma str_eqb_eq a : forall b, str_eqb a b = true <-> a = b.
Proof.
  induction a as [|x r IH]; intros [|y s]; simpl; split; intros H;
    try reflexivity; try discriminate.
  - apply andb_true_iff in H. destruct H as [H1 H2].
    apply N.eqb_eq in H1. apply IH in H2. subst. reflexivity.
  - injection H as -> ->. rewrite N.eqb_refl. simpl. apply IH. reflexivity.
Qed.

Lemma str_eqb_refl a : str_eqb a a = true.
Proof. apply str_eqb_eq. reflexivity. Qed.

Lemma str_eqb_neq a b : a <> b -> str_eqb a b = false.
Proof.
  intros H. destruct (str_eqb a b) eqn:E; [|reflexivity].
  apply str_eqb_eq in E. contradiction.
Qed.

Definition all_space (s : str) : Prop := Forall (fun c => is_space c = true) s.

(* no leading and no trailing (Unicode) whitespace *)
Definition edge_clean (s : str) : Prop := lstrip s = s /\ lstrip (rev s) = rev s.

Lemma lstrip_spaces ws s : all_space ws -> lstrip (ws ++ s) = lstrip s.
Proof. induction 1 as [|c r Hc _ IH]; simpl; [reflexivity | rewrite Hc; exact IH]. Qed.

Lemma lstrip_all_space ws : all_space ws -> lstrip ws = [].
Proof. intros H. rewrite <- (app_nil_r ws). rewrite lstrip_spaces by exact H. reflexivity. Qed.

Lemma lstrip_head c r : is_space c = false -> lstrip (c :: r) = c :: r.
Proof. intros H. simpl. rewrite H. reflexivity. Qed.

Lemma strip_clean s : edge_clean s -> strip s = s.
Proof.
  intros [H1 H2]. unfold strip, rstrip. rewrite H1, H2. apply rev_involutive.
Qed.

Lemma all_space_rev ws : all_space ws -> all_space (rev ws).
Proof. intros H. apply Forall_forall. intros x Hx. apply in_rev in Hx.
  exact (proj1 (Forall_forall _ _) H x Hx). Qed.

(* padding around an edge-clean symbol is removed by strip *)
Lemma strip_padded ws1 s ws2 : all_space ws1 -> all_space ws2 -> edge_clean s ->
  strip (ws1 ++ s ++ ws2) = s.
Proof.
  intros H1 H2 [L R]. unfold strip, rstrip.
  rewrite lstrip_spaces by exact H1.
  destruct s as [|c r].
  - simpl. rewrite (lstrip_all_space ws2 H2). reflexivity.
  - assert (Hc : is_space c = false).
    { simpl in L. destruct (is_space c) eqn:E; [|reflexivity]. exfalso.
      assert (Hlen : forall t, (length (lstrip t) <= length t)%nat).
      { induction t as [|x t IH]; simpl; [lia|]. destruct (is_space x); simpl; lia. }
      specialize (Hlen r). rewrite L in Hlen. simpl in Hlen. lia. }
    change ((c :: r) ++ ws2) with (c :: (r ++ ws2)).
    rewrite lstrip_head by exact Hc.
    change (c :: r ++ ws2) with ((c :: r) ++ ws2).
    rewrite rev_app_distr. rewrite lstrip_spaces by (apply all_space_rev; exact H2).
    rewrite R. apply rev_involutive.
Qed.

Lemma split_no_blank a r : ~ In blank a ->
  split_first_blank (a ++ blank :: r) = (a, Some r).
Proof.
  induction a as [|c a IH]; intros H; simpl.
  - reflexivity.
  - destruct (N.eqb_spec c blank) as [E|E].
    + exfalso. apply H. left. exact E.
    + rewrite IH; [reflexivity|]. intros Hin. apply H. right. exact Hin.
Qed.

Lemma split_no_blank_end a : ~ In blank a -> split_first_blank a = (a, None).
Proof.
  induction a as [|c a IH]; intros H; simpl.
  - reflexivity.
  - destruct (N.eqb_spec c blank) as [E|E].
    + exfalso. apply H. left. exact E.
    + rewrite IH; [reflexivity|]. intros Hin. apply H. right. exact Hin.
Qed.

(* ---------------------------------------------------------------- directory *)
(* symbols are unique and identities are unique: each unit's symbol maps back
   to that unit (what _make_unit guarantees for _SYMBOL_UNIT_MAP) *)
Definition dir_wf (d : directory) : Prop :=
  NoDup (map fst d) /\ NoDup (map (fun e => u_id (snd e)) d).

Lemma lookup_in d : NoDup (map fst d) -> forall s u, In (s, u) d -> lookup_sym d s = Some u.
Proof.
  induction d as [|[t v] r IH]; intros ND s u Hin; simpl in *; [contradiction|].
  inversion ND as [|x l Hnot ND']; subst.
  destruct Hin as [E|Hin].
  - injection E as -> ->. rewrite str_eqb_refl. reflexivity.
  - rewrite str_eqb_neq.
    + apply IH; assumption.
    + intros ->. apply Hnot. apply (in_map fst) in Hin. exact Hin.
Qed.

Lemma symbol_in d : NoDup (map (fun e => u_id (snd e)) d) ->
  forall s u, In (s, u) d -> symbol_of d u = Some s.
Proof.
  induction d as [|[t v] r IH]; intros ND s u Hin; simpl in *; [contradiction|].
  inversion ND as [|x l Hnot ND']; subst.
  destruct Hin as [E|Hin].
  - injection E as -> ->. unfold same_unit. rewrite N.eqb_refl. reflexivity.
  - unfold same_unit. destruct (N.eqb_spec (u_id v) (u_id u)) as [E|E].
    + exfalso. apply Hnot. rewrite E.
      apply (in_map (fun e => u_id (snd e))) in Hin. exact Hin.
    + apply IH; assumption.
Qed.

Lemma lookup_none d s : ~ In s (map fst d) -> lookup_sym d s = None.
Proof.
  induction d as [|[t v] r IH]; intros H; simpl in *; [reflexivity|].
  rewrite str_eqb_neq.
  - apply IH. intros Hin. apply H. right. exact Hin.
  - intros ->. apply H. left. reflexivity.
Qed.

(* ------------------------------------------------------------- constructor *)
(* the caller is the generic factory or the unit's own class *)
Definition accepts (c : caller) (u : unit) : Prop :=
  c_cls c = None \/ c_cls c = Some (u_cls u).

(* a quantity as the constructor stores it: on the grid of its unit's quantum *)
Definition stored (q : qty) : Prop :=
  match u_quantum (q_unit q) with
  | None => True
  | Some qu => ~ qu == 0 /\ on_grid (q_amt q) qu
  end.

Lemma finish_accepts dm c a u : accepts c u -> finish dm c a (UUnit u) = Ok (mk_qty dm a u).
Proof.
  intros [H|H]; unfold finish; rewrite H; [reflexivity|].
  rewrite N.eqb_refl. reflexivity.
Qed.

Lemma finish_other_class dm c a u k : c_cls c = Some k -> k <> u_cls u ->
  finish dm c a (UUnit u) = Err EQuantityError.
Proof.
  intros H N. unfold finish. rewrite H.
  destruct (N.eqb_spec k (u_cls u)); [contradiction | reflexivity].
Qed.

Lemma mk_amt_stored dm a u : stored (mkQty a u) -> mk_amt dm a u == a.
Proof.
  unfold stored, mk_amt. simpl. destruct (u_quantum u) as [qu|]; [|reflexivity].
  intros [Hq Hg]. apply round_to_quantum_on_grid; assumption.
Qed.

Lemma mk_qty_stored dm a u :
  (forall qu, u_quantum u = Some qu -> ~ qu == 0) -> stored (mk_qty dm a u).
Proof.
  intros H. unfold stored. rewrite mk_qty_unit.
  destruct (u_quantum u) as [qu|] eqn:E; [|exact I].
  split; [apply H; reflexivity | apply (mk_on_grid dm a u qu E)].
Qed.

(* number inputs: the amount is exactly the given rational, rounded only when
   the unit has a quantum (by the default mode, once) *)
Theorem exact_value dm c a u : accepts c u ->
  exists r, mk_from_number dm c (NFinite a) (UUnit u) = Ok r /\ q_unit r = u /\
            q_amt r == mk_amt dm a u /\
            (u_quantum u = None -> q_amt r == a) /\
            (forall qu, u_quantum u = Some qu -> q_amt r == round_to_quantum dm a qu).
Proof.
  intros H. exists (mk_qty dm a u). simpl. rewrite finish_accepts by exact H.
  split; [reflexivity|]. split; [apply mk_qty_unit|]. split; [apply mk_qty_amt|].
  split.
  - intros E. apply mk_qty_noquantum. exact E.
  - intros qu E. rewrite mk_qty_amt. unfold mk_amt. rewrite E. reflexivity.
Qed.

(* without a unit: the called class's reference unit; the generic factory
   (and any class without reference unit) refuses; a unit of another class is
   refused; non-numbers are TypeErrors *)
Theorem number_dispatch dm a :
  (forall c r, c_ref c = Some r -> accepts c r ->
      mk_from_number dm c (NFinite a) UNone = Ok (mk_qty dm a r)) /\
  (forall c, c_ref c = None -> mk_from_number dm c (NFinite a) UNone = Err EQuantityError) /\
  mk_from_number dm generic (NFinite a) UNone = Err EQuantityError /\
  (forall c k u, c_cls c = Some k -> k <> u_cls u ->
      mk_from_number dm c (NFinite a) (UUnit u) = Err EQuantityError) /\
  (forall c ua, mk_from_number dm c NOther ua = Err ETypeError).
Proof.
  split; [|split; [|split; [|split]]].
  - intros c r Hr Ha. simpl. unfold finish. rewrite Hr.
    destruct Ha as [H|H]; rewrite H; [reflexivity|]. rewrite N.eqb_refl. reflexivity.
  - intros c Hr. simpl. unfold finish. rewrite Hr. reflexivity.
  - reflexivity.
  - intros c k u Hc Hk. simpl. apply (finish_other_class dm c a u k Hc Hk).
  - reflexivity.
Qed.

(* format without a spec is str *)
Theorem format_default show_num d q :
  qty_format show_num d [] q = qty_str show_num d q /\
  qty_format show_num d (dflt_format_spec) q = qty_str show_num d q.
Proof.
  unfold qty_format, qty_str, dflt_format_spec. simpl. rewrite app_nil_r. split; reflexivity.
Qed.

(* str(q) = amount, one blank, symbol *)
Theorem str_shape show_num d q s : symbol_of d (q_unit q) = Some s ->
  qty_str show_num d q = show_num (q_amt q) ++ blank :: s.
Proof. intros H. unfold qty_str, sym_or_empty. rewrite H. reflexivity. Qed.

(* the dependency's contract *)
Definition num_contract (show_num : Q -> str) (parse_num : str -> res Q) : Prop :=
  forall a, (exists a', parse_num (show_num a) = Ok a' /\ a' == a) /\
            ~ In blank (show_num a) /\
            (exists c r, show_num a = c :: r /\ is_space c = false).

Section NumText.
Variable show_num : Q -> str.
Variable parse_num : str -> res Q.
Hypothesis contract : num_contract show_num parse_num.

Let parse := parse_qty parse_num.

(* what the constructor does with  ws ++ str(amount) ++ ' ' ++ rest  *)
Lemma parse_text_char d ce dm c ua a ws rest : all_space ws ->
  exists a', a' == a /\
  parse d ce dm c ua (ws ++ show_num a ++ blank :: rest) =
    match lookup_sym d (strip rest) with
    | None => Err EQuantityError
    | Some us =>
      match ua with
      | UNone => finish dm c a' (UUnit us)
      | UUnit u => if same_unit u us then finish dm c a' ua
                   else convert ce dm (mk_qty dm a' us) u
      | UBad => Err ETypeError
      end
    end.
Proof.
  intros Hws. destruct (contract a) as [[a' [Hp Ha]] [Hnb [ch [r [Hs Hc]]]]].
  exists a'. split; [exact Ha|].
  unfold parse, parse_qty. rewrite lstrip_spaces by exact Hws.
  rewrite Hs. change ((ch :: r) ++ blank :: rest) with (ch :: (r ++ blank :: rest)).
  rewrite lstrip_head by exact Hc.
  change (ch :: r ++ blank :: rest) with ((ch :: r) ++ blank :: rest).
  rewrite <- Hs. rewrite split_no_blank by exact Hnb. rewrite Hp. reflexivity.
Qed.

(* parsing str(q), for ANY symbol: the outcome is decided by what the stripped
   symbol denotes in the directory *)
Lemma parse_str_char d ce dm c ua q s : symbol_of d (q_unit q) = Some s ->
  exists a', a' == q_amt q /\
  parse d ce dm c ua (qty_str show_num d q) =
    match lookup_sym d (strip s) with
    | None => Err EQuantityError
    | Some us =>
      match ua with
      | UNone => finish dm c a' (UUnit us)
      | UUnit u => if same_unit u us then finish dm c a' ua
                   else convert ce dm (mk_qty dm a' us) u
      | UBad => Err ETypeError
      end
    end.
Proof.
  intros Hs. rewrite (str_shape show_num d q s Hs).
  exact (parse_text_char d ce dm c ua (q_amt q) [] s (Forall_nil _)).
Qed.

(* ROUND TRIP, with arbitrary whitespace before the amount, further
   whitespace between amount and symbol and after the symbol *)
Theorem roundtrip_padded d ce dm c q s ws0 ws1 ws2 :
  dir_wf d -> In (s, q_unit q) d -> edge_clean s -> accepts c (q_unit q) ->
  all_space ws0 -> all_space ws1 -> all_space ws2 ->
  exists r, parse d ce dm c UNone
              (ws0 ++ show_num (q_amt q) ++ blank :: ws1 ++ s ++ ws2) = Ok r /\
            q_unit r = q_unit q /\
            q_amt r == mk_amt dm (q_amt q) (q_unit q) /\
            (stored q -> q_amt r == q_amt q).
Proof.
  intros [W1 W2] Hin Hclean Hacc H0 H1 H2.
  destruct (parse_text_char d ce dm c UNone (q_amt q) ws0 (ws1 ++ s ++ ws2) H0)
    as [a' [Ha Hp]].
  rewrite (strip_padded ws1 s ws2 H1 H2 Hclean) in Hp.
  rewrite (lookup_in d W1 s (q_unit q) Hin) in Hp.
  rewrite finish_accepts in Hp by exact Hacc.
  exists (mk_qty dm a' (q_unit q)). split; [exact Hp|].
  split; [apply mk_qty_unit|].
  assert (E : q_amt (mk_qty dm a' (q_unit q)) == mk_amt dm (q_amt q) (q_unit q)).
  { rewrite mk_qty_amt. apply mk_amt_compat. exact Ha. }
  split; [exact E|].
  intros Hst. rewrite E. destruct q as [a u]. apply mk_amt_stored. exact Hst.
Qed.

Theorem roundtrip d ce dm c q s :
  dir_wf d -> In (s, q_unit q) d -> edge_clean s -> accepts c (q_unit q) ->
  exists r, parse d ce dm c UNone (qty_str show_num d q) = Ok r /\
            q_unit r = q_unit q /\
            q_amt r == mk_amt dm (q_amt q) (q_unit q) /\
            (stored q -> q_amt r == q_amt q).
Proof.
  intros W Hin Hclean Hacc.
  rewrite (str_shape show_num d q s (symbol_in d (proj2 W) s (q_unit q) Hin)).
  destruct (roundtrip_padded d ce dm c q s [] [] [] W Hin Hclean Hacc
              (Forall_nil _) (Forall_nil _) (Forall_nil _)) as [r Hr].
  simpl in Hr. rewrite app_nil_r in Hr. exists r. exact Hr.
Qed.

(* str(q) given to ANOTHER class is refused *)
Theorem roundtrip_other_class d ce dm c k q s :
  dir_wf d -> In (s, q_unit q) d -> edge_clean s ->
  c_cls c = Some k -> k <> u_cls (q_unit q) ->
  parse d ce dm c UNone (qty_str show_num d q) = Err EQuantityError.
Proof.
  intros [W1 W2] Hin Hclean Hc Hk.
  destruct (parse_str_char d ce dm c UNone q s (symbol_in d W2 s (q_unit q) Hin))
    as [a' [Ha Hp]].
  rewrite (strip_clean s Hclean) in Hp. rewrite (lookup_in d W1 s (q_unit q) Hin) in Hp.
  rewrite Hp. apply (finish_other_class dm c a' (q_unit q) k Hc Hk).
Qed.

(* symbols with edge whitespace do NOT round-trip: the stripped symbol is
   looked up instead — unknown: QuantityError; known: silently another unit *)
Theorem edge_symbol_outcome d ce dm c q s :
  dir_wf d -> In (s, q_unit q) d ->
  (lookup_sym d (strip s) = None ->
     parse d ce dm c UNone (qty_str show_num d q) = Err EQuantityError) /\
  (forall v, lookup_sym d (strip s) = Some v -> accepts c v ->
     exists r, parse d ce dm c UNone (qty_str show_num d q) = Ok r /\ q_unit r = v).
Proof.
  intros [W1 W2] Hin.
  destruct (parse_str_char d ce dm c UNone q s (symbol_in d W2 s (q_unit q) Hin))
    as [a' [Ha Hp]].
  split.
  - intros Hn. rewrite Hn in Hp. exact Hp.
  - intros v Hv Hacc. rewrite Hv in Hp. rewrite finish_accepts in Hp by exact Hacc.
    exists (mk_qty dm a' v). split; [exact Hp | apply mk_qty_unit].
Qed.

(* ------------------------------------------------ statements about ANY text *)
(* explicit other unit = parse, then convert (whatever class was called) *)
Theorem other_unit d ce dm c u text q :
  parse d ce dm generic UNone text = Ok q ->
  same_unit u (q_unit q) = false ->
  parse d ce dm c (UUnit u) text = convert ce dm q u.
Proof.
  unfold parse, parse_qty.
  destruct (split_first_blank (lstrip text)) as [sa rest].
  destruct (parse_num sa) as [a|e]; [|destruct e; discriminate].
  destruct rest as [r|]; [|simpl; discriminate].
  destruct (lookup_sym d (strip r)) as [us|]; [|discriminate].
  simpl. intros E. injection E as <-. rewrite mk_qty_unit. intros Hs. rewrite Hs.
  reflexivity.
Qed.

(* explicit identical unit: nothing changes *)
Theorem same_unit_explicit d ce dm c text q :
  parse d ce dm generic UNone text = Ok q -> accepts c (q_unit q) ->
  parse d ce dm c (UUnit (q_unit q)) text = Ok q.
Proof.
  unfold parse, parse_qty.
  destruct (split_first_blank (lstrip text)) as [sa rest].
  destruct (parse_num sa) as [a|e]; [|destruct e; discriminate].
  destruct rest as [r|]; [|simpl; discriminate].
  destruct (lookup_sym d (strip r)) as [us|]; [|discriminate].
  simpl. intros E. injection E as <-. rewrite mk_qty_unit. intros Hacc.
  unfold same_unit. rewrite N.eqb_refl. apply finish_accepts. exact Hacc.
Qed.

Definition number_part (text : str) : str := fst (split_first_blank (lstrip text)).
Definition symbol_part (text : str) : option str :=
  match snd (split_first_blank (lstrip text)) with
  | Some r => Some (strip r)
  | None => None
  end.

Theorem malformed d ce dm text :
  (* unparsable number: whatever class, whatever unit argument *)
  (forall c ua, (parse_num (number_part text) = Err EValueError \/
                 parse_num (number_part text) = Err ETypeError \/
                 parse_num (number_part text) = Err EZeroDivision) ->
       parse d ce dm c ua text = Err EQuantityError) /\
  (* unknown symbol *)
  (forall c ua a s, parse_num (number_part text) = Ok a -> symbol_part text = Some s ->
       lookup_sym d s = None -> parse d ce dm c ua text = Err EQuantityError) /\
  (* a number only: the generic factory (any class without reference unit)
     needs a unit *)
  (forall c a, parse_num (number_part text) = Ok a -> symbol_part text = None ->
       c_ref c = None -> parse d ce dm c UNone text = Err EQuantityError) /\
  (* ... a class with reference unit supplies it *)
  (forall c a r, parse_num (number_part text) = Ok a -> symbol_part text = None ->
       c_ref c = Some r -> accepts c r -> parse d ce dm c UNone text = Ok (mk_qty dm a r)).
Proof.
  unfold number_part, symbol_part, parse, parse_qty.
  destruct (split_first_blank (lstrip text)) as [sa rest]. simpl.
  split; [|split; [|split]].
  - intros c ua [H|[H|H]]; rewrite H; reflexivity.
  - intros c ua a s Hp Hs Hl. rewrite Hp. destruct rest as [r|]; [|discriminate].
    injection Hs as <-. rewrite Hl. reflexivity.
  - intros c a Hp Hs Hr. rewrite Hp. destruct rest as [r|]; [discriminate|].
    unfold finish. rewrite Hr. reflexivity.
  - intros c a r Hp Hs Hr Hacc. rewrite Hp. destruct rest as [r0|]; [discriminate|].
    unfold finish. rewrite Hr. destruct Hacc as [H|H]; rewrite H; [reflexivity|].
    rewrite N.eqb_refl. reflexivity.
Qed.

(* any other exception of the numeric parser leaves the constructor unchanged
   (none is known to occur; ZeroDivisionError of Fraction('1/0') used to, until
   repo commit 046398b) *)
Theorem parser_exception_escapes d ce dm c ua text e :
  parse_num (number_part text) = Err e ->
  e <> EValueError -> e <> ETypeError -> e <> EZeroDivision ->
  parse d ce dm c ua text = Err e.
Proof.
  unfold number_part, parse, parse_qty.
  destruct (split_first_blank (lstrip text)) as [sa rest]. simpl.
  intros H N1 N2 N3. rewrite H. destruct e; try reflexivity; contradiction.
Qed.

(* empty and all-whitespace text *)
Theorem blank_text d ce dm c ua ws : all_space ws ->
  (parse_num [] = Err EValueError \/ parse_num [] = Err ETypeError) ->
  parse d ce dm c ua ws = Err EQuantityError.
Proof.
  intros Hws H. unfold parse, parse_qty. rewrite lstrip_all_space by exact Hws. simpl.
  destruct H as [H|H]; rewrite H; reflexivity.
Qed.

(* a tab (or any other whitespace but U+0020) does not separate amount and
   symbol: the whole text is handed to the numeric parser *)
Theorem only_blank_separates text :
  ~ In blank (lstrip text) -> number_part text = lstrip text /\ symbol_part text = None.
Proof.
  intros H. unfold number_part, symbol_part.
  rewrite (split_no_blank_end _ H). split; reflexivity.
Qed.

End NumText.

(* ------------------------------------------------------- a concrete instance
   decimal printer "n" / "n/d" and its parser over code points, built on the
   standard library's proven decimal conversions *)
Open Scope N_scope.

Fixpoint uint_cps (u : Decimal.uint) : str :=
  match u with
  | Decimal.Nil => []
  | Decimal.D0 r => 48 :: uint_cps r | Decimal.D1 r => 49 :: uint_cps r
  | Decimal.D2 r => 50 :: uint_cps r | Decimal.D3 r => 51 :: uint_cps r
  | Decimal.D4 r => 52 :: uint_cps r | Decimal.D5 r => 53 :: uint_cps r
  | Decimal.D6 r => 54 :: uint_cps r | Decimal.D7 r => 55 :: uint_cps r
  | Decimal.D8 r => 56 :: uint_cps r | Decimal.D9 r => 57 :: uint_cps r
  end.

Fixpoint cps_uint (s : str) : option Decimal.uint :=
  match s with
  | [] => Some Decimal.Nil
  | c :: r =>
    match cps_uint r with
    | None => None
    | Some t =>
      if c =? 48 then Some (Decimal.D0 t) else if c =? 49 then Some (Decimal.D1 t)
      else if c =? 50 then Some (Decimal.D2 t) else if c =? 51 then Some (Decimal.D3 t)
      else if c =? 52 then Some (Decimal.D4 t) else if c =? 53 then Some (Decimal.D5 t)
      else if c =? 54 then Some (Decimal.D6 t) else if c =? 55 then Some (Decimal.D7 t)
      else if c =? 56 then Some (Decimal.D8 t) else if c =? 57 then Some (Decimal.D9 t)
      else None
    end
  end.

Definition int_cps (i : Decimal.int) : str :=
  match i with
  | Decimal.Pos u => uint_cps u
  | Decimal.Neg u => 45 :: uint_cps u
  end.

(* at least one digit required *)
Definition cps_int (s : str) : option Decimal.int :=
  match s with
  | [] => None
  | c :: r =>
    if c =? 45 then
      match r with [] => None | _ => option_map Decimal.Neg (cps_uint r) end
    else option_map Decimal.Pos (cps_uint s)
  end.

Fixpoint split_slash (s : str) : str * option str :=
  match s with
  | [] => ([], None)
  | c :: r => if c =? 47 then ([], Some r)
              else let (a, b) := split_slash r in (c :: a, b)
  end.

Definition toy_show (a : Q) : str :=
  match Qden a with
  | xH => int_cps (Z.to_int (Qnum a))
  | d => int_cps (Z.to_int (Qnum a)) ++ 47 :: uint_cps (Pos.to_uint d)
  end.

Definition toy_den (i : Decimal.int) (ds : str) : res Q :=
  if match ds with [] => true | _ => false end then Err EValueError else
  match cps_uint ds with
  | None => Err EValueError
  | Some u => match Pos.of_uint u with
              | N0 => Err EZeroDivision        (* Fraction('1/0') *)
              | Npos p => Ok (Z.of_int i # p)
              end
  end.

Definition toy_parse (s : str) : res Q :=
  let (n, d) := split_slash s in
  match cps_int n with
  | None => Err EValueError
  | Some i =>
    match d with
    | None => Ok (Z.of_int i # 1)
    | Some ds => toy_den i ds
    end
  end.

Definition digit_b (c : N) : bool := (48 <=? c) && (c <=? 57).

Lemma uint_cps_digits u : forallb digit_b (uint_cps u) = true.
Proof. induction u; simpl; try reflexivity; exact IHu. Qed.

Lemma cps_uint_cps u : cps_uint (uint_cps u) = Some u.
Proof. induction u; simpl; try reflexivity; rewrite IHu; reflexivity. Qed.

Lemma uint_cps_nonnil u : u <> Decimal.Nil -> uint_cps u <> [].
Proof. destruct u; simpl; intros H; try discriminate. contradiction. Qed.

Lemma to_int_nonnil z : match Z.to_int z with Decimal.Pos u | Decimal.Neg u => u <> Decimal.Nil end.
Proof.
  destruct z; simpl; try discriminate; apply Unsigned.to_uint_nonnil.
Qed.

Lemma cps_int_cps i : match i with Decimal.Pos u | Decimal.Neg u => u <> Decimal.Nil end ->
  cps_int (int_cps i) = Some i.
Proof.
  destruct i as [u|u]; intros H; simpl.
  - destruct (uint_cps u) as [|c r] eqn:E; [exfalso; exact (uint_cps_nonnil u H E)|].
    unfold cps_int.
    assert (Hd : digit_b c = true).
    { pose proof (uint_cps_digits u) as F. rewrite E in F. simpl in F.
      apply andb_true_iff in F. exact (proj1 F). }
    destruct (N.eqb_spec c 45) as [->|_]; [discriminate|].
    rewrite <- E. rewrite cps_uint_cps. reflexivity.
  - destruct (uint_cps u) as [|c r] eqn:E; [exfalso; exact (uint_cps_nonnil u H E)|].
    rewrite <- E. rewrite cps_uint_cps. reflexivity.
Qed.

(* characters of a printed integer: '-' or digits *)
Definition intch_b (c : N) : bool := digit_b c || (c =? 45).

Lemma int_cps_chars i : forallb intch_b (int_cps i) = true.
Proof.
  assert (H : forall u, forallb intch_b (uint_cps u) = true).
  { intros u. pose proof (uint_cps_digits u) as F. induction (uint_cps u) as [|c r IH]; simpl in *.
    - reflexivity.
    - apply andb_true_iff in F. destruct F as [F1 F2]. unfold intch_b at 1.
      rewrite F1. simpl. apply IH. exact F2. }
  destruct i; simpl; [apply H | apply H].
Qed.

Lemma split_slash_app a r : forallb intch_b a = true ->
  split_slash (a ++ 47 :: r) = (a, Some r).
Proof.
  induction a as [|c a IH]; simpl; intros H; [reflexivity|].
  apply andb_true_iff in H. destruct H as [H1 H2].
  destruct (N.eqb_spec c 47) as [->|_]; [discriminate|].
  rewrite IH by exact H2. reflexivity.
Qed.

Lemma split_slash_none a : forallb intch_b a = true -> split_slash a = (a, None).
Proof.
  induction a as [|c a IH]; simpl; intros H; [reflexivity|].
  apply andb_true_iff in H. destruct H as [H1 H2].
  destruct (N.eqb_spec c 47) as [->|_]; [discriminate|].
  rewrite IH by exact H2. reflexivity.
Qed.

Definition showch_b (c : N) : bool := intch_b c || (c =? 47).

Lemma showch_ok c : showch_b c = true -> c <> blank /\ is_space c = false.
Proof.
  unfold showch_b, intch_b, digit_b, blank, is_space. intros H.
  repeat (apply orb_true_iff in H; destruct H as [H|H]);
    try (apply andb_true_iff in H; destruct H as [H1 H2];
         apply N.leb_le in H1; apply N.leb_le in H2);
    try (apply N.eqb_eq in H);
    (split; [lia|]);
    repeat (apply orb_false_iff; split);
    try (apply andb_false_iff);
    try (apply N.eqb_neq; lia);
    try (destruct (N.leb_spec 9 c); [right; apply N.leb_gt; lia | left; reflexivity]);
    try (destruct (N.leb_spec 28 c); [right; apply N.leb_gt; lia | left; reflexivity]);
    try (left; apply N.leb_gt; lia).
Qed.

Lemma toy_show_chars a : forallb showch_b (toy_show a) = true.
Proof.
  assert (Hi : forall i, forallb showch_b (int_cps i) = true).
  { intros i. pose proof (int_cps_chars i) as F.
    induction (int_cps i) as [|c r IH]; simpl in *; [reflexivity|].
    apply andb_true_iff in F. destruct F as [F1 F2]. unfold showch_b at 1.
    rewrite F1. simpl. apply IH. exact F2. }
  assert (Hu : forall u, forallb showch_b (uint_cps u) = true).
  { intros u. pose proof (uint_cps_digits u) as F.
    induction (uint_cps u) as [|c r IH]; simpl in *; [reflexivity|].
    apply andb_true_iff in F. destruct F as [F1 F2]. unfold showch_b, intch_b at 1.
    rewrite F1. simpl. apply IH. exact F2. }
  unfold toy_show. destruct (Qden a); try apply Hi;
    rewrite forallb_app; rewrite Hi; simpl; apply Hu.
Qed.

Lemma toy_parse_show a : toy_parse (toy_show a) = Ok a.
Proof.
  destruct a as [n d]. unfold toy_show, toy_parse. simpl Qnum. simpl Qden.
  pose proof (cps_int_cps (Z.to_int n) (to_int_nonnil n)) as Hn.
  assert (Hd : forall p, toy_den (Z.to_int n) (uint_cps (Pos.to_uint p)) = Ok (n # p)).
  { intros p. unfold toy_den. rewrite cps_uint_cps.
    destruct (uint_cps (Pos.to_uint p)) eqn:E.
    - exfalso. exact (uint_cps_nonnil _ (Unsigned.to_uint_nonnil p) E).
    - rewrite Unsigned.of_to. rewrite DecimalZ.of_to. reflexivity. }
  destruct d as [p|p|].
  - rewrite split_slash_app by apply int_cps_chars. rewrite Hn. apply Hd.
  - rewrite split_slash_app by apply int_cps_chars. rewrite Hn. apply Hd.
  - rewrite split_slash_none by apply int_cps_chars. rewrite Hn.
    rewrite DecimalZ.of_to. reflexivity.
Qed.

Theorem toy_contract : num_contract toy_show toy_parse.
Proof.
  intros a. split; [|split].
  - exists a. split; [apply toy_parse_show | reflexivity].
  - intros Hin. pose proof (toy_show_chars a) as F.
    rewrite forallb_forall in F. specialize (F _ Hin).
    apply showch_ok in F. destruct F as [F _]. apply F. reflexivity.
  - pose proof (toy_show_chars a) as F.
    destruct (toy_show a) as [|c r] eqn:E.
    + exfalso. pose proof (toy_parse_show a) as P. rewrite E in P. discriminate.
    + exists c, r. split; [reflexivity|]. simpl in F. apply andb_true_iff in F.
      destruct F as [F _]. apply showch_ok in F. exact (proj2 F).
Qed.

(* -------------------------------------------------- concrete witnesses (F9) *)
Definition ex_x   : unit := mkUnit 0 0 true (Some (1 # 1)) None.
Definition ex_bx  : unit := mkUnit 1 0 true (Some (2 # 1)) None.   (* symbol " x" *)
Definition ex_yb  : unit := mkUnit 2 0 true (Some (3 # 1)) None.   (* symbol "y " *)
Definition ex_ab  : unit := mkUnit 3 0 true (Some (5 # 1)) None.   (* symbol "a b" *)
Definition ex_dir : directory :=
  [([120], ex_x); ([32; 120], ex_bx); ([121; 32], ex_yb); ([97; 32; 98], ex_ab)].
Definition ex_dir2 : directory := [([32; 122], ex_bx); ([97; 32; 98], ex_ab)].

Lemma ex_dir_wf : dir_wf ex_dir.
Proof.
  split; simpl.
  - repeat constructor; simpl; intuition discriminate.
  - repeat constructor; simpl; intuition discriminate.
Qed.
Lemma ex_dir2_wf : dir_wf ex_dir2.
Proof.
  split; simpl.
  - repeat constructor; simpl; intuition discriminate.
  - repeat constructor; simpl; intuition discriminate.
Qed.

Definition no_conv : convenv := fun _ => [].

(* a unit whose symbol starts with a blank: str(q) is refused, or — when the
   stripped symbol is another unit's — read back as that other unit *)
Theorem edge_blank_refuted :
  (exists d q s, dir_wf d /\ In (s, q_unit q) d /\
     parse_qty toy_parse d no_conv MHEVEN generic UNone (qty_str toy_show d q)
       = Err EQuantityError) /\
  (exists d q s r, dir_wf d /\ In (s, q_unit q) d /\
     parse_qty toy_parse d no_conv MHEVEN generic UNone (qty_str toy_show d q) = Ok r /\
     same_unit (q_unit r) (q_unit q) = false).
Proof.
  split.
  - exists ex_dir2, (mkQty (1 # 3) ex_bx), [32; 122].
    split; [exact ex_dir2_wf|]. split; [left; reflexivity|]. vm_compute. reflexivity.
  - exists ex_dir, (mkQty (1 # 3) ex_bx), [32; 120], (mkQty (1 # 3) ex_x).
    split; [exact ex_dir_wf|]. split; [right; left; reflexivity|].
    split; vm_compute; reflexivity.
Qed.

(* inner blanks are harmless (only the first blank splits) *)
Lemma ex_inner_blank :
  parse_qty toy_parse ex_dir no_conv MHEVEN generic UNone
    (qty_str toy_show ex_dir (mkQty (-7 # 3) ex_ab)) = Ok (mkQty (-7 # 3) ex_ab).
Proof. vm_compute. reflexivity. Qed.

(* the text "1/0 x": the parser's ZeroDivisionError becomes QuantityError *)
Lemma ex_zero_denominator :
  toy_parse [49; 47; 48] = Err EZeroDivision /\
  parse_qty toy_parse ex_dir no_conv MHEVEN generic UNone [49; 47; 48; 32; 120]
    = Err EQuantityError.
Proof. split; vm_compute; reflexivity. Qed.
