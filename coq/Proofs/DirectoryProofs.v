(* Proofs/DirectoryProofs.v — every directory reachable by declarations is
   coherent (C15), rejected declarations leave no trace (C16), and the
   invariants that make resolution sound (C02, C17) hold in every reachable
   state. *)
From Coq Require Import ZArith QArith Qabs List Bool Lia Lqa Qpower.
From QV Require Import Model.Num Model.Rounding Model.Quantity Model.Dim Model.Registry
     Proofs.QuantityProofs Proofs.DimProofs Proofs.RegistryProofs.
Open Scope Z_scope.

(* ---------- class look-ups ---------- *)
Lemma find_cls_in_sound l id c : find_cls_in l id = Some c -> In c l /\ rc_id c = id.
Proof.
  induction l as [|x l IH]; cbn; [discriminate|].
  destruct (N.eqb (rc_id x) id) eqn:E.
  - intros H. injection H as <-. split; [left; reflexivity | apply N.eqb_eq; exact E].
  - intros H. destruct (IH H). split; [right|]; assumption.
Qed.

Lemma find_cls_in_complete l c :
  NoDup (map rc_id l) -> In c l -> find_cls_in l (rc_id c) = Some c.
Proof.
  induction l as [|x l IH]; cbn; [tauto|].
  intros ND [->|Hc].
  - rewrite N.eqb_refl. reflexivity.
  - inversion ND as [|? ? Hx ND']; subst.
    destruct (N.eqb (rc_id x) (rc_id c)) eqn:E.
    + apply N.eqb_eq in E. exfalso. apply Hx. rewrite E. apply in_map. exact Hc.
    + apply IH; assumption.
Qed.

Lemma find_cls_in_none l id : find_cls_in l id = None -> forall c, In c l -> rc_id c <> id.
Proof.
  induction l as [|x l IH]; cbn; [tauto|].
  destruct (N.eqb (rc_id x) id) eqn:E; [discriminate|].
  intros H c [<-|Hc]; [apply N.eqb_neq; exact E | apply IH; assumption].
Qed.

Lemma find_cls_in_app l l' id c :
  find_cls_in l id = Some c -> find_cls_in (l ++ l') id = Some c.
Proof.
  induction l as [|x l IH]; cbn; [discriminate|].
  destruct (N.eqb (rc_id x) id); auto.
Qed.

Lemma find_cls_in_app_none l l' id :
  find_cls_in l id = None -> find_cls_in (l ++ l') id = find_cls_in l' id.
Proof.
  induction l as [|x l IH]; cbn; [reflexivity|].
  destruct (N.eqb (rc_id x) id); [discriminate | auto].
Qed.

Lemma cls_by_dim_in_sound l d c : cls_by_dim_in l d = Some c -> In c l /\ rc_dim c = d.
Proof.
  induction l as [|x l IH]; cbn; [discriminate|].
  destruct (dv_eqb (rc_dim x) d) eqn:E.
  - intros H. injection H as <-. split; [left; reflexivity | apply dv_eqb_eq; exact E].
  - intros H. destruct (IH H). split; [right|]; assumption.
Qed.

Lemma cls_by_dim_in_none l d : cls_by_dim_in l d = None -> forall c, In c l -> rc_dim c <> d.
Proof.
  induction l as [|x l IH]; cbn; [tauto|].
  destruct (dv_eqb (rc_dim x) d) eqn:E; [discriminate|].
  intros H c [<-|Hc].
  - intros X. apply dv_eqb_eq in X. congruence.
  - apply IH; assumption.
Qed.

Lemma cls_by_dim_in_some l d c : In c l -> rc_dim c = d -> cls_by_dim_in l d <> None.
Proof. intros Hi Hd H. exact (cls_by_dim_in_none l d H c Hi Hd). Qed.

(* the unit map of a class: the units created for it, in order of creation *)
Definition units_of (l : list runit) (cid : N) : list N :=
  map ru_id (filter (fun u => N.eqb (ru_cls u) cid) l).

Lemma units_of_app l l' cid : units_of (l ++ l') cid = units_of l cid ++ units_of l' cid.
Proof. unfold units_of. rewrite filter_app, map_app. reflexivity. Qed.

Lemma units_of_none l cid : (forall u, In u l -> ru_cls u <> cid) -> units_of l cid = [].
Proof.
  unfold units_of. induction l as [|x l IH]; cbn; [reflexivity|]. intros H.
  destruct (N.eqb (ru_cls x) cid) eqn:E.
  - apply N.eqb_eq in E. exfalso. apply (H x); [left; reflexivity | exact E].
  - apply IH. intros u Hu. apply H. right. exact Hu.
Qed.

(* ---------- the class-level invariant ---------- *)
Record CInv (s : state) : Prop := {
  ci_ids : NoDup (map rc_id (st_classes s));
  ci_units : forall c, In c (st_classes s) -> rc_units c = units_of (st_units s) (rc_id c);
  ci_unit_cls : forall u, In u (st_units s) -> find_cls s (ru_cls u) <> None;
  ci_ref : forall c r, In c (st_classes s) -> rc_ref c = Some r ->
      exists ru, find_unit s r = Some ru /\ ru_cls ru = rc_id c /\ ru_equiv ru = Some 1%Q;
  ci_dim_one : forall c1 c2, In c1 (st_classes s) -> In c2 (st_classes s) ->
      rc_dim c1 = rc_dim c2 -> c1 = c2;
  ci_dim_ids : forall c i, In c (st_classes s) -> dv_get (rc_dim c) i <> 0 -> find_cls s i <> None;
  ci_dim_wf : forall c, In c (st_classes s) -> dv_wf (rc_dim c) = true
}.

(* ---------- effect of add_unit on the components ---------- *)
Definition bump (u : runit) (c : rcls) : rcls :=
  if N.eqb (rc_id c) (ru_cls u)
  then mkRC (rc_id c) (rc_base c) (rc_def c) (rc_dim c) (rc_ref c) (rc_quantum c)
            (rc_units c ++ [ru_id u]) (rc_money c)
  else c.

Lemma add_unit_classes s u : st_classes (add_unit s u) = map (bump u) (st_classes s).
Proof. reflexivity. Qed.
Lemma add_unit_units s u : st_units (add_unit s u) = st_units s ++ [u].
Proof. reflexivity. Qed.
Lemma add_unit_cache s u : st_cache (add_unit s u) = st_cache s.
Proof. reflexivity. Qed.

Lemma bump_id u c : rc_id (bump u c) = rc_id c.
Proof. unfold bump. destruct (N.eqb (rc_id c) (ru_cls u)); reflexivity. Qed.
Lemma bump_dim u c : rc_dim (bump u c) = rc_dim c.
Proof. unfold bump. destruct (N.eqb (rc_id c) (ru_cls u)); reflexivity. Qed.
Lemma bump_ref u c : rc_ref (bump u c) = rc_ref c.
Proof. unfold bump. destruct (N.eqb (rc_id c) (ru_cls u)); reflexivity. Qed.
Lemma bump_def u c : rc_def (bump u c) = rc_def c.
Proof. unfold bump. destruct (N.eqb (rc_id c) (ru_cls u)); reflexivity. Qed.
Lemma bump_base u c : rc_base (bump u c) = rc_base c.
Proof. unfold bump. destruct (N.eqb (rc_id c) (ru_cls u)); reflexivity. Qed.
Lemma bump_quantum u c : rc_quantum (bump u c) = rc_quantum c.
Proof. unfold bump. destruct (N.eqb (rc_id c) (ru_cls u)); reflexivity. Qed.

Lemma map_bump_ids u l : map rc_id (map (bump u) l) = map rc_id l.
Proof. rewrite map_map. apply map_ext. intros c. apply bump_id. Qed.

Lemma find_cls_in_bump u l id :
  find_cls_in (map (bump u) l) id = option_map (bump u) (find_cls_in l id).
Proof.
  induction l as [|x l IH]; cbn; [reflexivity|].
  rewrite bump_id. destruct (N.eqb (rc_id x) id); [reflexivity | exact IH].
Qed.

Lemma cls_by_dim_in_bump u l d :
  cls_by_dim_in (map (bump u) l) d = option_map (bump u) (cls_by_dim_in l d).
Proof.
  induction l as [|x l IH]; cbn; [reflexivity|].
  rewrite bump_dim. destruct (dv_eqb (rc_dim x) d); [reflexivity | exact IH].
Qed.

(* ---------- find_unit after adding units ---------- *)
Lemma find_unit_add_old s u id x : find_unit s id = Some x -> find_unit (add_unit s u) id = Some x.
Proof. unfold find_unit. rewrite add_unit_units. apply find_unit_in_app. Qed.

Lemma find_unit_add_new s u : find_unit s (ru_id u) = None -> find_unit (add_unit s u) (ru_id u) = Some u.
Proof.
  unfold find_unit. rewrite add_unit_units. intros H.
  rewrite (find_unit_in_app_none _ _ _ H). cbn. rewrite N.eqb_refl. reflexivity.
Qed.

Lemma find_unit_add_inv s u id x :
  find_unit (add_unit s u) id = Some x -> find_unit s id = Some x \/ (find_unit s id = None /\ x = u).
Proof.
  unfold find_unit. rewrite add_unit_units.
  destruct (find_unit_in (st_units s) id) as [y|] eqn:E.
  - rewrite (find_unit_in_app _ _ _ _ E). intros H. left. exact H.
  - rewrite (find_unit_in_app_none _ _ _ E). cbn.
    destruct (N.eqb (ru_id u) id); [|discriminate]. intros H. injection H as <-. right. auto.
Qed.

Lemma NoDup_app_single {A} (l : list A) (x : A) : NoDup l -> ~ In x l -> NoDup (l ++ [x]).
Proof.
  induction l as [|y l IH]; cbn; intros ND Hx.
  - constructor; [tauto | constructor].
  - inversion ND as [|? ? Hy ND']; subst. constructor.
    + intros H. apply in_app_iff in H. destruct H as [H|[H|[]]]; [tauto | subst; tauto].
    + apply IH; tauto.
Qed.

(* ---------- UInv is about units and the term map only ---------- *)
Definition tm_push (s : state) (u : runit) : list (nform * N) :=
  match term_lookup s (ru_nf u) with
  | Some _ => st_termmap s
  | None => st_termmap s ++ [(ru_nf u, ru_id u)]
  end.

Lemma UInv_push s s' u :
  st_units s' = st_units s ++ [u] -> st_termmap s' = tm_push s u ->
  UInv s ->
  find_unit s (ru_id u) = None ->
  nf_wf (ru_nf u) ->
  (forall e, ru_equiv u = Some e -> e == nf_num (ru_nf u)) ->
  (ru_equiv u <> None -> forall v, In v (st_units s) -> ru_cls v = ru_cls u ->
     ru_equiv v <> None -> nf_dim (ru_nf v) = nf_dim (ru_nf u)) ->
  UInv s'.
Proof.
  intros HU HT [ND WF EQ UN TM] Fresh Wu Eu Uu.
  assert (FO : forall id x, find_unit s id = Some x -> find_unit s' id = Some x).
  { intros id x H. unfold find_unit. rewrite HU. apply find_unit_in_app. exact H. }
  assert (FN : find_unit s' (ru_id u) = Some u).
  { unfold find_unit. rewrite HU. rewrite (find_unit_in_app_none _ _ _ Fresh). cbn.
    rewrite N.eqb_refl. reflexivity. }
  constructor.
  - rewrite HU, map_app. cbn. apply NoDup_app_single; [exact ND|].
    intros Hin. apply in_map_iff in Hin. destruct Hin as (x & Hx & Hi).
    exact (find_unit_in_none _ _ Fresh x Hi Hx).
  - intros x Hx. rewrite HU in Hx. apply in_app_iff in Hx. destruct Hx as [Hx|[<-|[]]]; auto.
  - intros x e Hx. rewrite HU in Hx. apply in_app_iff in Hx. destruct Hx as [Hx|[<-|[]]]; auto.
  - intros x y Hx Hy. rewrite HU in Hx, Hy. apply in_app_iff in Hx, Hy.
    destruct Hx as [Hx|[<-|[]]], Hy as [Hy|[<-|[]]]; intros Hc Ex Ey.
    + apply UN; assumption.
    + apply Uu; assumption.
    + symmetry. apply Uu; auto.
    + reflexivity.
  - intros k w Hi. rewrite HT in Hi. unfold tm_push in Hi.
    destruct (term_lookup s (ru_nf u)).
    + destruct (TM _ _ Hi) as (x & Hx & He). exists x. split; [apply FO; exact Hx | exact He].
    + apply in_app_iff in Hi. destruct Hi as [Hi|[Hi|[]]].
      * destruct (TM _ _ Hi) as (x & Hx & He). exists x. split; [apply FO; exact Hx | exact He].
      * injection Hi as <- <-. exists u. split; [exact FN | apply nf_eq_refl].
Qed.

(* ---------- CInv under add_unit (unit of an existing class) ---------- *)
Lemma in_map_bump u l c' : In c' (map (bump u) l) -> exists c, In c l /\ c' = bump u c.
Proof. intros H. apply in_map_iff in H. destruct H as (c & <- & Hc). eauto. Qed.

Lemma find_cls_add s u id : find_cls (add_unit s u) id = option_map (bump u) (find_cls s id).
Proof. unfold find_cls. rewrite add_unit_classes. apply find_cls_in_bump. Qed.

Lemma find_cls_add_some s u id : find_cls s id <> None -> find_cls (add_unit s u) id <> None.
Proof. rewrite find_cls_add. destruct (find_cls s id); cbn; congruence. Qed.

Lemma CInv_add_unit s u :
  CInv s -> find_unit s (ru_id u) = None -> find_cls s (ru_cls u) <> None -> CInv (add_unit s u).
Proof.
  intros [IDS UN UC RF D1 DI DW] Fresh Hc. constructor.
  - rewrite add_unit_classes, map_bump_ids. exact IDS.
  - intros c' Hc'. rewrite add_unit_classes in Hc'. destruct (in_map_bump _ _ _ Hc') as (c & Hi & ->).
    rewrite add_unit_units, units_of_app, bump_id. unfold bump.
    rewrite (N.eqb_sym (rc_id c) (ru_cls u)).
    unfold units_of at 2. cbn [filter].
    destruct (N.eqb (ru_cls u) (rc_id c)); cbn [rc_units map app].
    + rewrite (UN c Hi). reflexivity.
    + rewrite app_nil_r. apply UN. exact Hi.
  - intros x Hx. rewrite add_unit_units in Hx. apply in_app_iff in Hx.
    apply find_cls_add_some. destruct Hx as [Hx|[<-|[]]]; auto.
  - intros c' r Hc' Hr. rewrite add_unit_classes in Hc'. destruct (in_map_bump _ _ _ Hc') as (c & Hi & ->).
    rewrite bump_ref in Hr. rewrite bump_id. destruct (RF c r Hi Hr) as (ru & A & B & C).
    exists ru. split; [apply find_unit_add_old; exact A | auto].
  - intros c1' c2' H1 H2 Hd. rewrite add_unit_classes in H1, H2.
    destruct (in_map_bump _ _ _ H1) as (c1 & I1 & ->), (in_map_bump _ _ _ H2) as (c2 & I2 & ->).
    rewrite !bump_dim in Hd. rewrite (D1 c1 c2 I1 I2 Hd). reflexivity.
  - intros c' i Hc' Hg. rewrite add_unit_classes in Hc'. destruct (in_map_bump _ _ _ Hc') as (c & Hi & ->).
    rewrite bump_dim in Hg. apply find_cls_add_some. exact (DI c i Hi Hg).
  - intros c' Hc'. rewrite add_unit_classes in Hc'. destruct (in_map_bump _ _ _ Hc') as (c & Hi & ->).
    rewrite bump_dim. exact (DW c Hi).
Qed.

(* ---------- CInv when a class (with or without reference unit) is added ---------- *)
Definition ou_list (ou : option runit) : list runit := match ou with Some u => [u] | None => [] end.

Lemma CInv_new_class s s' c ou :
  CInv s ->
  st_classes s' = st_classes s ++ [c] ->
  st_units s' = st_units s ++ ou_list ou ->
  find_cls s (rc_id c) = None ->
  cls_by_dim s (rc_dim c) = None ->
  dv_wf (rc_dim c) = true ->
  (forall i, dv_get (rc_dim c) i <> 0 -> i = rc_id c \/ find_cls s i <> None) ->
  rc_units c = map ru_id (ou_list ou) ->
  rc_ref c = option_map ru_id ou ->
  (forall u, ou = Some u -> find_unit s (ru_id u) = None /\ ru_cls u = rc_id c /\ ru_equiv u = Some 1%Q) ->
  CInv s'.
Proof.
  intros [IDS UN UC RF D1 DI DW] HC HU Fresh FD Wd Did Hun Href Hou.
  assert (NoU : forall x, In x (st_units s) -> ru_cls x <> rc_id c).
  { intros x Hx E. apply (UC x Hx). rewrite E. exact Fresh. }
  assert (FC : forall id, find_cls s id <> None -> find_cls s' id <> None).
  { intros id H. unfold find_cls in *. rewrite HC.
    destruct (find_cls_in (st_classes s) id) as [k|] eqn:E; [|congruence].
    rewrite (find_cls_in_app _ _ _ _ E). discriminate. }
  assert (FU : forall id x, find_unit s id = Some x -> find_unit s' id = Some x).
  { intros id x H. unfold find_unit. rewrite HU. apply find_unit_in_app. exact H. }
  constructor.
  - rewrite HC, map_app. cbn. apply NoDup_app_single; [exact IDS|].
    intros Hin. apply in_map_iff in Hin. destruct Hin as (x & Hx & Hi).
    exact (find_cls_in_none _ _ Fresh x Hi Hx).
  - intros k Hk. rewrite HC in Hk. apply in_app_iff in Hk. rewrite HU, units_of_app.
    destruct Hk as [Hk|[<-|[]]].
    + rewrite (UN k Hk). destruct ou as [u|]; cbn [ou_list]; [|rewrite app_nil_r; reflexivity].
      destruct (Hou u eq_refl) as (_ & Cu & _).
      rewrite (units_of_none [u]); [rewrite app_nil_r; reflexivity|].
      intros x [<-|[]]. rewrite Cu. intros E.
      apply (find_cls_in_none _ _ Fresh k Hk). symmetry. exact E.
    + rewrite (units_of_none (st_units s)) by exact NoU. cbn [app]. rewrite Hun.
      destruct ou as [u|]; cbn [ou_list]; [|reflexivity].
      destruct (Hou u eq_refl) as (_ & Cu & _). unfold units_of. cbn [filter].
      rewrite Cu, N.eqb_refl. reflexivity.
  - intros x Hx. rewrite HU in Hx. apply in_app_iff in Hx. destruct Hx as [Hx|Hx].
    + apply FC. exact (UC x Hx).
    + destruct ou as [u|]; [|destruct Hx]. destruct Hx as [<-|[]].
      destruct (Hou u eq_refl) as (_ & Cu & _). rewrite Cu. unfold find_cls. rewrite HC.
      rewrite (find_cls_in_app_none _ _ _ Fresh). cbn. rewrite N.eqb_refl. discriminate.
  - intros k r Hk Hr. rewrite HC in Hk. apply in_app_iff in Hk. destruct Hk as [Hk|[<-|[]]].
    + destruct (RF k r Hk Hr) as (ru & A & B & C). exists ru. split; [apply FU; exact A | auto].
    + rewrite Href in Hr. destruct ou as [u|]; [|discriminate]. cbn in Hr. injection Hr as <-.
      destruct (Hou u eq_refl) as (Fu & Cu & Eu). exists u. split; [|auto].
      unfold find_unit. rewrite HU. rewrite (find_unit_in_app_none _ _ _ Fu). cbn.
      rewrite N.eqb_refl. reflexivity.
  - intros c1 c2 H1 H2 Hd. rewrite HC in H1, H2. apply in_app_iff in H1, H2.
    destruct H1 as [H1|[<-|[]]], H2 as [H2|[<-|[]]].
    + apply D1; assumption.
    + exfalso. exact (cls_by_dim_in_none _ _ FD c1 H1 Hd).
    + exfalso. exact (cls_by_dim_in_none _ _ FD c2 H2 (eq_sym Hd)).
    + reflexivity.
  - intros k i Hk Hg. rewrite HC in Hk. apply in_app_iff in Hk. destruct Hk as [Hk|[<-|[]]].
    + apply FC. exact (DI k i Hk Hg).
    + destruct (Did i Hg) as [->|H]; [|apply FC; exact H].
      unfold find_cls. rewrite HC. rewrite (find_cls_in_app_none _ _ _ Fresh). cbn.
      rewrite N.eqb_refl. discriminate.
  - intros k Hk. rewrite HC in Hk. apply in_app_iff in Hk. destruct Hk as [Hk|[<-|[]]]; auto.
Qed.

(* ---------- inversion of the declarations ---------- *)
Lemma opt_nonempty_nz o x : opt_nonempty o = Some x -> x <> 0%N.
Proof. destruct o as [[|p]|]; cbn; intros H; try discriminate. injection H as <-. discriminate. Qed.

Lemma make_unit_inv s c sym def sf s' u :
  make_unit s c sym def sf = Ok (s', u) ->
  sym <> 0%N /\ find_unit s sym = None /\ s' = add_unit s u /\
  ru_id u = sym /\ ru_cls u = rc_id c /\ ru_sf u = sf /\
  ru_nf u = match def with None => base_nf sym | Some x => x end /\
  ru_base u = match def with None => true | Some _ => false end /\
  ru_equiv u = match def, rc_ref c with
               | Some x, Some _ => Some (if qzero (nf_num x) then 1%Q else Qred (nf_num x))
               | _, _ => None
               end.
Proof.
  unfold make_unit. destruct (N.eqb sym 0) eqn:E; [discriminate|].
  destruct (find_unit s sym) eqn:F; [discriminate|].
  intros H. injection H as <- <-. apply N.eqb_neq in E. repeat split; auto.
Qed.

Lemma no_class_with_fresh_base_dim s id :
  CInv s -> find_cls s id = None -> cls_by_dim s (dv_single id 1) = None.
Proof.
  intros CI Fresh. unfold cls_by_dim.
  destruct (cls_by_dim_in (st_classes s) (dv_single id 1)) as [c|] eqn:E; [|reflexivity].
  exfalso. destruct (cls_by_dim_in_sound _ _ _ E) as [Hi Hd].
  apply (ci_dim_ids s CI c id Hi); [|exact Fresh].
  rewrite Hd, dv_single_get, N.eqb_refl. discriminate.
Qed.

Definition new_cls (id : N) (def : option cterm) (d : dvec) (ou : option runit)
           (quantum : option Q) (money : bool) : rcls :=
  mkRC id (match def with None => true | Some _ => false end)
       (match def with None => [] | Some t => t end) d (option_map ru_id ou) quantum
       (map ru_id (ou_list ou)) money.

Lemma register_cls_ok s c :
  cls_by_dim s (rc_dim c) = None ->
  register_cls s c = (mkSt (st_classes s ++ [c]) (st_units s) (st_termmap s) (st_cache s), None).
Proof. unfold register_cls. intros ->. reflexivity. Qed.

Ltac fail_case := let H := fresh in intros H; injection H as <- <-; left; split; [reflexivity | discriminate].

Lemma decl_class_cases s id def ref_sym auto quantum money s' e :
  CInv s -> decl_class s id def ref_sym auto quantum money = (s', e) ->
  (s' = s /\ e <> None) \/
  (e = None /\ exists d ou,
     find_cls s id = None /\ cls_by_dim s d = None /\ d <> [] /\
     match def with Some t => cterm_dim s t = Some d | None => d = dv_single id 1 end /\
     st_classes s' = st_classes s ++ [new_cls id def d ou quantum money] /\
     st_units s' = st_units s ++ ou_list ou /\
     st_cache s' = st_cache s /\
     match ou with
     | None => st_termmap s' = st_termmap s
     | Some u => st_termmap s' = tm_push s u /\ find_unit s (ru_id u) = None /\
                 ru_id u <> 0%N /\ ru_cls u = id /\ ru_equiv u = Some 1%Q /\ ru_sf u = None /\
                 match (match def with Some t => ref_units_nf s t | None => None end) with
                 | Some x => ru_nf u = x /\ ru_base u = false
                 | None => ru_nf u = base_nf (ru_id u) /\ ru_base u = true /\
                           opt_nonempty ref_sym = Some (ru_id u)
                 end
     end).
Proof.
  intros CI. unfold decl_class.
  destruct (find_cls s id) eqn:Fresh; [fail_case|].
  destruct def as [[|ci t]|]; [fail_case | |].
  - (* derived class *)
    set (tt := ci :: t).
    destruct (ref_units_nf s tt) as [x|] eqn:Erd.
    + (* reference units of all base types exist *)
      assert (Hsym : exists rs, match opt_nonempty ref_sym with Some y => Some y
                                | None => opt_nonempty (Some auto) end = rs /\
                                forall y, rs = Some y -> y <> 0%N).
      { eexists. split; [reflexivity|]. intros y.
        destruct (opt_nonempty ref_sym) eqn:E1.
        - intros H. injection H as <-. exact (opt_nonempty_nz _ _ E1).
        - apply opt_nonempty_nz. }
      destruct Hsym as (sym & -> & Hsym).
      destruct sym as [rs|].
      * destruct (cterm_dim s tt) as [[|p d]|] eqn:Ed; [destruct quantum; fail_case | | destruct quantum; fail_case].
        destruct (cls_by_dim s (p :: d)) eqn:Cd; [destruct quantum; fail_case|].
        destruct (find_unit s rs) eqn:Fu; [destruct quantum; fail_case|].
        destruct quantum as [qu|].
        all: rewrite register_cls_ok by exact Cd.
        all: intros H; injection H as <- <-; right; split; [reflexivity|].
        all: exists (p :: d), (Some (mkRU rs id false x (Some 1%Q) None)).
        all: cbn [ou_list option_map ru_id map new_cls st_classes st_units st_cache st_termmap
                  ru_cls ru_equiv ru_sf ru_nf ru_base].
        all: repeat split; try reflexivity; try discriminate; try assumption; try (apply Hsym; reflexivity); try (symmetry; apply app_nil_r).
      * destruct quantum as [qu|]; [fail_case|].
        destruct (cterm_dim s tt) as [[|p d]|] eqn:Ed; [fail_case | | fail_case].
        destruct (cls_by_dim s (p :: d)) eqn:Cd; [fail_case|].
        rewrite register_cls_ok by exact Cd.
        intros H; injection H as <- <-; right; split; [reflexivity|].
        exists (p :: d), None.
        cbn [ou_list option_map ru_id map new_cls st_classes st_units st_cache st_termmap].
        repeat split; try reflexivity; try discriminate; try assumption; try (symmetry; apply app_nil_r).
    + (* some base type has no reference unit *)
      destruct (opt_nonempty ref_sym) as [rs|] eqn:E1.
      * pose proof (opt_nonempty_nz _ _ E1) as Nz.
        destruct (cterm_dim s tt) as [[|p d]|] eqn:Ed; [destruct quantum; fail_case | | destruct quantum; fail_case].
        destruct (cls_by_dim s (p :: d)) eqn:Cd; [destruct quantum; fail_case|].
        destruct (find_unit s rs) eqn:Fu; [destruct quantum; fail_case|].
        destruct quantum as [qu|].
        all: rewrite register_cls_ok by exact Cd.
        all: intros H; injection H as <- <-; right; split; [reflexivity|].
        all: exists (p :: d), (Some (mkRU rs id true (base_nf rs) (Some 1%Q) None)).
        all: cbn [ou_list option_map ru_id map new_cls st_classes st_units st_cache st_termmap
                  ru_cls ru_equiv ru_sf ru_nf ru_base].
        all: repeat split; try reflexivity; try discriminate; try assumption; try (symmetry; apply app_nil_r).
      * destruct quantum as [qu|]; [fail_case|].
        destruct (cterm_dim s tt) as [[|p d]|] eqn:Ed; [fail_case | | fail_case].
        destruct (cls_by_dim s (p :: d)) eqn:Cd; [fail_case|].
        rewrite register_cls_ok by exact Cd.
        intros H; injection H as <- <-; right; split; [reflexivity|].
        exists (p :: d), None.
        cbn [ou_list option_map ru_id map new_cls st_classes st_units st_cache st_termmap].
        repeat split; try reflexivity; try discriminate; try assumption; try (symmetry; apply app_nil_r).
  - (* base class *)
    pose proof (no_class_with_fresh_base_dim s id CI Fresh) as Cd.
    assert (Ed : dv_single id 1 = [(id, 1)]) by reflexivity. rewrite Ed in *.
    destruct (opt_nonempty ref_sym) as [rs|] eqn:E1.
    + pose proof (opt_nonempty_nz _ _ E1) as Nz.
      destruct (find_unit s rs) eqn:Fu; [destruct quantum; fail_case|].
      destruct quantum as [qu|].
      all: rewrite register_cls_ok by exact Cd.
      all: intros H; injection H as <- <-; right; split; [reflexivity|].
      all: exists [(id, 1)], (Some (mkRU rs id true (base_nf rs) (Some 1%Q) None)).
      all: cbn [ou_list option_map ru_id map new_cls st_classes st_units st_cache st_termmap
                ru_cls ru_equiv ru_sf ru_nf ru_base].
      all: repeat split; try reflexivity; try discriminate; try assumption; try (symmetry; apply app_nil_r).
    + destruct quantum as [qu|]; [fail_case|].
      rewrite register_cls_ok by exact Cd.
      intros H; injection H as <- <-; right; split; [reflexivity|].
      exists [(id, 1)], None.
      cbn [ou_list option_map ru_id map new_cls st_classes st_units st_cache st_termmap].
      repeat split; try reflexivity; try discriminate; try assumption; try (symmetry; apply app_nil_r).
Qed.

(* ---------- C16 for type declarations ---------- *)
Theorem decl_class_error_noop s id def ref_sym auto quantum money s' e :
  CInv s -> decl_class s id def ref_sym auto quantum money = (s', Some e) -> s' = s.
Proof.
  intros CI H. destruct (decl_class_cases _ _ _ _ _ _ _ _ _ CI H) as [[E _]|[E _]];
    [exact E | discriminate].
Qed.

(* ---------- monotonicity: directories only grow ---------- *)
Definition cls_same (c c' : rcls) : Prop :=
  rc_id c' = rc_id c /\ rc_base c' = rc_base c /\ rc_def c' = rc_def c /\
  rc_dim c' = rc_dim c /\ rc_ref c' = rc_ref c /\ rc_quantum c' = rc_quantum c.

Lemma cls_same_refl c : cls_same c c.
Proof. repeat split. Qed.

Lemma cls_same_bump u c : cls_same c (bump u c).
Proof.
  unfold cls_same. rewrite bump_id, bump_base, bump_def, bump_dim, bump_ref, bump_quantum.
  repeat split.
Qed.

Record ext (s s' : state) : Prop := {
  ext_units : forall id x, find_unit s id = Some x -> find_unit s' id = Some x;
  ext_cls : forall id c, find_cls s id = Some c ->
            exists c', find_cls s' id = Some c' /\ cls_same c c';
  ext_tm : forall k w, In (k, w) (st_termmap s) -> In (k, w) (st_termmap s')
}.

Lemma ext_refl s : ext s s.
Proof. constructor; auto. intros id c H. exists c. split; [exact H | apply cls_same_refl]. Qed.

Lemma ext_trans s1 s2 s3 : ext s1 s2 -> ext s2 s3 -> ext s1 s3.
Proof.
  intros [U1 C1 T1] [U2 C2 T2]. constructor; auto.
  intros id c H. destruct (C1 _ _ H) as (c' & H' & S1). destruct (C2 _ _ H') as (c'' & H'' & S2).
  exists c''. split; [exact H''|]. unfold cls_same in *.
  destruct S1 as (a1 & a2 & a3 & a4 & a5 & a6), S2 as (b1 & b2 & b3 & b4 & b5 & b6).
  repeat split; congruence.
Qed.

Lemma tm_push_incl s u k w : In (k, w) (st_termmap s) -> In (k, w) (tm_push s u).
Proof. unfold tm_push. destruct (term_lookup s (ru_nf u)); [auto | intros; apply in_app_iff; auto]. Qed.

Lemma add_unit_termmap s u : st_termmap (add_unit s u) = tm_push s u.
Proof. reflexivity. Qed.

Lemma ext_add_unit s u : ext s (add_unit s u).
Proof.
  constructor.
  - intros id x. apply find_unit_add_old.
  - intros id c H. rewrite find_cls_add, H. cbn. eexists. split; [reflexivity | apply cls_same_bump].
  - intros k w. rewrite add_unit_termmap. apply tm_push_incl.
Qed.

Lemma ext_new_class s s' c ou :
  st_classes s' = st_classes s ++ [c] -> st_units s' = st_units s ++ ou_list ou ->
  (forall k w, In (k, w) (st_termmap s) -> In (k, w) (st_termmap s')) ->
  ext s s'.
Proof.
  intros HC HU HT. constructor; [| |exact HT].
  - intros id x H. unfold find_unit. rewrite HU. apply find_unit_in_app. exact H.
  - intros id k H. exists k. split; [|apply cls_same_refl].
    unfold find_cls. rewrite HC. apply find_cls_in_app. exact H.
Qed.

(* definitions evaluate to the same denotation in a larger directory *)
Lemma item_nf_ext s s' it x : ext s s' -> item_nf s it = Some x -> item_nf s' it = Some x.
Proof.
  intros E. unfold item_nf. destruct (fst it) as [q|id]; [auto|].
  destruct (find_unit s id) as [u|] eqn:F; [|discriminate].
  rewrite (ext_units _ _ E _ _ F). auto.
Qed.

Lemma term_nf_ext s s' t x : ext s s' -> term_nf s t = Some x -> term_nf s' t = Some x.
Proof.
  intros E. revert x. induction t as [|it t IH]; cbn; [auto|]. intros x.
  destruct (item_nf s it) as [a|] eqn:A; [|discriminate].
  destruct (term_nf s t) as [b|] eqn:B; [|discriminate].
  rewrite (item_nf_ext _ _ _ _ E A), (IH b eq_refl). auto.
Qed.

Lemma ref_units_nf_ext s s' t x : ext s s' -> ref_units_nf s t = Some x -> ref_units_nf s' t = Some x.
Proof.
  intros E. revert x. induction t as [|[c e] t IH]; cbn; [auto|]. intros x.
  destruct (find_cls s c) as [k|] eqn:F; [|discriminate].
  destruct (ext_cls _ _ E _ _ F) as (k' & F' & (_ & _ & _ & _ & R & _)). rewrite F', R.
  destruct (rc_ref k) as [ru|]; [|discriminate].
  destruct (find_unit s ru) as [u|] eqn:G; [|discriminate].
  rewrite (ext_units _ _ E _ _ G).
  destruct (ref_units_nf s t) as [y|] eqn:Y; [|discriminate].
  rewrite (IH y eq_refl). auto.
Qed.

(* ---------- definitions denote well-formed values ---------- *)
Definition nz_item (it : titem) : bool :=
  match fst it with TNum q => negb (qzero q) | TUnit _ => true end.
Definition nz_term (t : uterm) : bool := forallb nz_item t.

Lemma UInv_found_wf s id u : UInv s -> find_unit s id = Some u -> nf_wf (ru_nf u).
Proof. intros U H. apply (ui_wf s U). apply (find_unit_In _ _ _ H). Qed.

Lemma item_nf_wf s it x : UInv s -> nz_item it = true -> item_nf s it = Some x -> nf_wf x.
Proof.
  intros U. unfold nz_item, item_nf. destruct (fst it) as [q|id].
  - intros Hq H. injection H as <-. split; cbn [nf_num nf_dim]; [|apply dv_one_wf].
    rewrite qpow_eq. apply Qpower_nz. apply qzero_false. apply negb_true_iff. exact Hq.
  - intros _. destruct (find_unit s id) as [u|] eqn:F; [|discriminate].
    intros H. injection H as <-. apply nf_pow_wf. eapply UInv_found_wf; eassumption.
Qed.

Lemma term_nf_wf s t x : UInv s -> nz_term t = true -> term_nf s t = Some x -> nf_wf x.
Proof.
  intros U. revert x. induction t as [|it t IH]; cbn; intros x.
  - intros _ H. injection H as <-. apply nf_one_wf.
  - intros Hz. apply andb_true_iff in Hz. destruct Hz as [Hi Ht].
    destruct (item_nf s it) as [a|] eqn:A; [|discriminate].
    destruct (term_nf s t) as [b|] eqn:B; [|discriminate].
    intros H. injection H as <-. apply nf_mul_wf; [eapply item_nf_wf; eassumption | auto].
Qed.

Lemma ref_units_nf_props s t x :
  UInv s -> CInv s -> ref_units_nf s t = Some x -> nf_wf x /\ nf_num x == 1.
Proof.
  intros U CI. revert x. induction t as [|[c e] t IH]; cbn; intros x.
  - intros H. injection H as <-. split; [apply nf_one_wf | reflexivity].
  - destruct (find_cls s c) as [k|] eqn:F; [|discriminate].
    destruct (rc_ref k) as [r|] eqn:R; [|discriminate].
    destruct (find_unit s r) as [u|] eqn:G; [|discriminate].
    destruct (ref_units_nf s t) as [y|] eqn:Y; [|discriminate].
    intros H. injection H as <-. destruct (IH y eq_refl) as [Wy Ny].
    destruct (find_cls_in_sound _ _ _ F) as [Ik _].
    destruct (ci_ref s CI k r Ik R) as (u' & G' & _ & Eu). rewrite G in G'. injection G' as <-.
    pose proof (UInv_found_wf _ _ _ U G) as Wu.
    pose proof (ui_equiv s U u 1%Q (proj1 (find_unit_In _ _ _ G)) Eu) as Nu.
    split; [apply nf_mul_wf; [apply nf_pow_wf; exact Wu | exact Wy]|].
    cbn [nf_mul nf_pow nf_num]. rewrite qmul_eq, qpow_eq, <- Nu, Ny, Qpower_1. reflexivity.
Qed.

(* the reference unit of a derived type denotes the product of the reference
   units of the types of its definition *)
Definition RInv (s : state) : Prop :=
  forall id c r ru, find_cls s id = Some c -> rc_base c = false -> rc_ref c = Some r ->
  find_unit s r = Some ru ->
  exists x, ref_units_nf s (rc_def c) = Some x /\ nf_dim (ru_nf ru) = nf_dim x.

Lemma RInv_add_unit s u : RInv s -> find_unit s (ru_id u) = None -> CInv s -> RInv (add_unit s u).
Proof.
  intros R Fresh CI id c' r ru Hc Hb Hr Hu.
  rewrite find_cls_add in Hc. destruct (find_cls s id) as [c|] eqn:F; [|discriminate].
  cbn in Hc. injection Hc as <-. rewrite bump_base in Hb. rewrite bump_ref in Hr. rewrite bump_def.
  destruct (find_cls_in_sound _ _ _ F) as [Ic _].
  destruct (ci_ref s CI c r Ic Hr) as (ru0 & G0 & _).
  pose proof (find_unit_add_old s u _ _ G0) as G1. rewrite G1 in Hu. injection Hu as <-.
  destruct (R id c r ru0 F Hb Hr G0) as (x & X & D). exists x. split; [|exact D].
  eapply ref_units_nf_ext; [apply ext_add_unit | exact X].
Qed.

(* ---------- guards: what the theorems require of a declaration ---------- *)
Definition has_scale (s : state) (uid : N) : bool :=
  match find_unit s uid with
  | Some u => match ru_equiv u with Some _ => true | None => false end
  | None => true
  end.

Definition needs_scale (c : rcls) : bool := match rc_ref c with Some _ => true | None => false end.

Definition guard (dm : mode) (s : state) (d : decl) : bool :=
  match d with
  | DeclClass id def ref_sym auto quantum money =>
      (* an explicit reference symbol for a derived type presupposes reference
         units of all types of its definition *)
      match def, opt_nonempty ref_sym with
      | Some t, Some _ => match ref_units_nf s t with Some _ => true | None => false end
      | _, _ => true
      end
  | NewUnit cid sym DNone => true
  | NewUnit cid sym (DQty a uid) =>
      match find_cls s cid, find_unit s uid with
      | Some c, Some u =>
          negb (qzero (q_amt (mk_qty dm a (view s u)))) &&
          (negb (needs_scale c) || has_scale s uid)
      | _, _ => true
      end
  | NewUnit cid sym (DTerm t) =>
      nz_term t &&
      match find_cls s cid, term_nf s t with
      | Some c, Some x =>
          match resolve s x with
          | Some (_, Some w) => negb (needs_scale c) || has_scale s w
          | _ => true
          end
      | _, _ => true
      end
  | DeriveUnit cid us sym auto =>
      match find_cls s cid with
      | Some c => negb (needs_scale c) || forallb (has_scale s) us
      | None => true
      end
  | NewCurrency _ _ _ => true
  end.

(* ---------- cache entries stay valid when the directory grows ---------- *)
Lemma val_ok_ext s s' x r : ext s s' -> val_ok s x r -> val_ok s' x r.
Proof.
  intros E. unfold val_ok. destruct (snd r) as [w|]; [|auto].
  intros (u & Hu & He). exists u. split; [apply (ext_units _ _ E); exact Hu | exact He].
Qed.

Lemma Cache_ok_ext s s' : ext s s' -> st_cache s' = st_cache s -> Cache_ok s -> Cache_ok s'.
Proof.
  intros E HC C o a b r Hi. rewrite HC in Hi. destruct (C _ _ _ _ Hi) as (u & v & A & B & V).
  exists u, v. split; [apply (ext_units _ _ E); exact A|].
  split; [apply (ext_units _ _ E); exact B | eapply val_ok_ext; eassumption].
Qed.

(* ---------- a unit added to an existing class ---------- *)
Definition AllInv (s : state) : Prop := UInv s /\ CInv s /\ RInv s /\ Cache_ok s.

Lemma make_unit_all s c cid sym def sf s' u :
  AllInv s -> find_cls s cid = Some c ->
  make_unit s c sym def sf = Ok (s', u) ->
  (forall x, def = Some x -> nf_wf x) ->
  (forall x, def = Some x -> needs_scale c = true ->
     forall v, In v (st_units s) -> ru_cls v = cid -> ru_equiv v <> None ->
     nf_dim (ru_nf v) = nf_dim x) ->
  AllInv s' /\ ext s s' /\ s' = add_unit s u /\ ru_id u = sym /\ ru_cls u = cid.
Proof.
  intros (U & CI & R & C) Fc M Wd Ud.
  destruct (make_unit_inv _ _ _ _ _ _ _ M) as (Nz & Fresh & -> & Iu & Cu & Su & Nu & Bu & Eu).
  destruct (find_cls_in_sound _ _ _ Fc) as [Ic Idc].
  assert (Fresh' : find_unit s (ru_id u) = None) by (rewrite Iu; exact Fresh).
  assert (Cls : find_cls s (ru_cls u) <> None) by (rewrite Cu, Idc, Fc; discriminate).
  assert (Wu : nf_wf (ru_nf u)).
  { rewrite Nu. destruct def as [x|]; [apply Wd; reflexivity|].
    split; [cbn; discriminate | apply (dv_single_wf sym 1)]. }
  split; [|split; [apply ext_add_unit | repeat split; congruence]].
  split; [|split; [apply CInv_add_unit; assumption|split; [apply RInv_add_unit; assumption|]]].
  - apply (UInv_push s (add_unit s u) u); try assumption; try reflexivity.
    + intros e He. rewrite Eu in He. destruct def as [x|]; [|discriminate].
      destruct (rc_ref c); [|discriminate]. injection He as <-. rewrite Nu.
      destruct (Wd x eq_refl) as [Hn _]. apply qzero_false in Hn. rewrite Hn. apply Qred_correct.
    + intros He v Hv Hc Ev. rewrite Eu in He. destruct def as [x|]; [|congruence].
      rewrite Nu. apply (Ud x eq_refl); try assumption.
      * unfold needs_scale. destruct (rc_ref c); [reflexivity | congruence].
      * rewrite Hc, Cu. exact Idc.
  - apply (Cache_ok_ext s); [apply ext_add_unit | reflexivity | exact C].
Qed.

(* ---------- units of the same class with a scale share their dimension ---------- *)
Lemma uniform_found s a b u v :
  UInv s -> find_unit s a = Some u -> find_unit s b = Some v -> ru_cls u = ru_cls v ->
  ru_equiv u <> None -> ru_equiv v <> None -> nf_dim (ru_nf u) = nf_dim (ru_nf v).
Proof.
  intros U A B. apply (ui_uniform s U); [apply (find_unit_In _ _ _ A) | apply (find_unit_In _ _ _ B)].
Qed.

Lemma has_scale_found s id u : has_scale s id = true -> find_unit s id = Some u -> ru_equiv u <> None.
Proof. unfold has_scale. intros H F. rewrite F in H. destruct (ru_equiv u); [discriminate | discriminate]. Qed.

Lemma In_found s v : UInv s -> In v (st_units s) -> find_unit s (ru_id v) = Some v.
Proof. intros U H. apply find_unit_in_complete; [apply U | exact H]. Qed.

(* ---------- new_unit ---------- *)
Theorem new_unit_ok s dm cid sym d s' :
  AllInv s -> guard dm s (NewUnit cid sym d) = true ->
  new_unit s dm cid sym d = Ok s' ->
  AllInv s' /\ ext s s' /\
  exists u, s' = add_unit s u /\ ru_id u = sym /\ ru_cls u = cid /\ sym <> 0%N /\
            find_unit s sym = None.
Proof.
  intros A G. unfold new_unit.
  destruct (find_cls s cid) as [c|] eqn:Fc; [|discriminate].
  destruct (N.eqb sym 0) eqn:Es; [discriminate|].
  assert (K : forall def r, make_unit s c sym def None = Ok r ->
              (forall x, def = Some x -> nf_wf x) ->
              (forall x, def = Some x -> needs_scale c = true ->
                 forall v, In v (st_units s) -> ru_cls v = cid -> ru_equiv v <> None ->
                 nf_dim (ru_nf v) = nf_dim x) ->
              AllInv (fst r) /\ ext s (fst r) /\
              exists u, fst r = add_unit s u /\ ru_id u = sym /\ ru_cls u = cid /\ sym <> 0%N /\
                        find_unit s sym = None).
  { intros def [s1 u] M W Ud. cbn [fst].
    destruct (make_unit_all _ _ _ _ _ _ _ _ A Fc M W Ud) as (A' & E & -> & Iu & Cu).
    destruct (make_unit_inv _ _ _ _ _ _ _ M) as (Nz & Fresh & _).
    split; [exact A'|]. split; [exact E|]. exists u. repeat split; assumption. }
  destruct A as (U & CI & R & C).
  destruct d as [|a uid|t].
  - destruct (make_unit s c sym None None) as [r|e] eqn:M; cbn [bind]; [|discriminate].
    intros H. injection H as <-. apply (K None r M); intros x Hx; discriminate.
  - destruct (find_unit s uid) as [v|] eqn:Fv; [|discriminate].
    destruct (negb (N.eqb (ru_cls v) cid)) eqn:Ec; [discriminate|].
    apply negb_false_iff, N.eqb_eq in Ec.
    cbn [guard] in G. rewrite Fc, Fv in G. apply andb_true_iff in G. destruct G as [Gz Gs].
    apply negb_true_iff, qzero_false in Gz.
    destruct (make_unit s c sym _ None) as [r|e] eqn:M; cbn [bind]; [|discriminate].
    intros H. injection H as <-. apply (K _ r M).
    + intros x Hx. injection Hx as <-. apply nf_scale_wf; [exact Gz | eapply UInv_found_wf; eassumption].
    + intros x Hx Ns v' Hv' Cv' Ev'. injection Hx as <-. cbn [nf_scale nf_dim].
      rewrite Ns in Gs. cbn in Gs.
      apply (uniform_found s (ru_id v') uid); try assumption.
      * apply In_found; assumption.
      * congruence.
      * eapply has_scale_found; eassumption.
  - destruct (term_nf s t) as [x|] eqn:Tx; [|discriminate].
    destruct (resolve s x) as [[f [w|]]|] eqn:Rx; try discriminate.
    destruct (find_unit s w) as [wu|] eqn:Fw; [|discriminate].
    destruct (negb (N.eqb (ru_cls wu) cid)) eqn:Ec; [discriminate|].
    apply negb_false_iff, N.eqb_eq in Ec.
    cbn [guard] in G. rewrite Fc, Tx, Rx in G. apply andb_true_iff in G. destruct G as [Gz Gs].
    destruct (make_unit s c sym (Some x) None) as [r|e] eqn:M; cbn [bind]; [|discriminate].
    intros H. injection H as <-. apply (K _ r M).
    + intros y Hy. injection Hy as <-. eapply term_nf_wf; eassumption.
    + intros y Hy Ns v' Hv' Cv' Ev'. injection Hy as <-.
      rewrite Ns in Gs. cbn in Gs.
      pose proof (resolve_sound s x _ (ui_tm s U) Rx) as V. unfold val_ok in V. cbn [fst snd] in V.
      destruct V as (wu' & Fw' & [_ Dw]). rewrite Fw in Fw'. injection Fw' as <-.
      cbn [nf_scale nf_dim] in Dw. rewrite <- Dw.
      apply (uniform_found s (ru_id v') w); try assumption.
      * apply In_found; assumption.
      * congruence.
      * eapply has_scale_found; eassumption.
Qed.

(* ---------- derive_unit_from ---------- *)
Lemma derive_dims s : UInv s -> CInv s -> forall def us t x x0,
  derive_items s def us = Ok t -> term_nf s t = Some x -> ref_units_nf s def = Some x0 ->
  forallb (has_scale s) us = true -> nf_dim x = nf_dim x0.
Proof.
  intros U CI. induction def as [|[c e] def IH]; intros us t x x0.
  - destruct us; cbn; [|discriminate]. intros H. injection H as <-. cbn.
    intros H1 H2. injection H1 as <-. injection H2 as <-. reflexivity.
  - destruct us as [|uid us]; cbn [derive_items]; [discriminate|].
    destruct (find_unit s uid) as [u|] eqn:Fu; [|discriminate].
    destruct (negb (N.eqb (ru_cls u) c)) eqn:Ec; [discriminate|].
    apply negb_false_iff, N.eqb_eq in Ec.
    destruct (derive_items s def us) as [t'|] eqn:D; cbn [bind]; [|discriminate].
    intros H. injection H as <-. cbn [term_nf item_nf fst snd]. rewrite Fu.
    destruct (term_nf s t') as [y|] eqn:Ty; [|discriminate].
    intros H. injection H as <-. cbn [ref_units_nf].
    destruct (find_cls s c) as [k|] eqn:Fk; [|discriminate].
    destruct (rc_ref k) as [r|] eqn:Rk; [|discriminate].
    destruct (find_unit s r) as [ru|] eqn:Fr; [|discriminate].
    destruct (ref_units_nf s def) as [y0|] eqn:Y0; [|discriminate].
    intros H. injection H as <-. cbn [forallb]. intros Hs. apply andb_true_iff in Hs.
    destruct Hs as [Hs1 Hs2]. cbn [nf_mul nf_pow nf_dim].
    rewrite (IH us t' y y0 D Ty eq_refl Hs2).
    destruct (find_cls_in_sound _ _ _ Fk) as [Ik Idk].
    destruct (ci_ref s CI k r Ik Rk) as (ru' & Fr' & Cr & Er). rewrite Fr in Fr'. injection Fr' as <-.
    rewrite (uniform_found s uid r u ru U Fu Fr); try congruence.
    eapply has_scale_found; eassumption.
Qed.

Theorem derive_unit_ok s dm cid us sym auto s' :
  AllInv s -> guard dm s (DeriveUnit cid us sym auto) = true ->
  derive_unit s cid us sym auto = Ok s' ->
  AllInv s' /\ ext s s' /\
  exists u, s' = add_unit s u /\ ru_cls u = cid /\ ru_id u <> 0%N /\ find_unit s (ru_id u) = None.
Proof.
  intros A G. unfold derive_unit.
  destruct (find_cls s cid) as [c|] eqn:Fc; [|discriminate].
  destruct (rc_base c) eqn:Bc; [discriminate|].
  destruct (negb (Nat.eqb (length us) (length (rc_def c)))); [discriminate|].
  destruct (derive_items s (rc_def c) us) as [t|] eqn:D; cbn [bind]; [|discriminate].
  destruct (term_nf s t) as [x|] eqn:Tx; [|discriminate].
  cbn [guard] in G. rewrite Fc in G.
  assert (Nzt : nz_term t = true).
  { clear -D. revert us t D. induction (rc_def c) as [|[k e] def IH]; intros us t.
    - destruct us; cbn; [|discriminate]. intros H. injection H as <-. reflexivity.
    - destruct us as [|uid us]; cbn [derive_items]; [discriminate|].
      destruct (find_unit s uid); [|discriminate].
      destruct (negb (N.eqb (ru_cls r) k)); [discriminate|].
      destruct (derive_items s def us) as [t'|] eqn:D'; cbn [bind]; [|discriminate].
      intros H. injection H as <-. cbn. apply (IH us t' D'). }
  assert (K : forall sy r, make_unit s c sy (Some x) None = Ok r ->
              AllInv (fst r) /\ ext s (fst r) /\
              exists u, fst r = add_unit s u /\ ru_cls u = cid /\ ru_id u <> 0%N /\
                        find_unit s (ru_id u) = None).
  { intros sy [s1 u] M. cbn [fst]. pose proof A as (U & CI & R & C).
    assert (Ud : forall y, Some x = Some y -> needs_scale c = true ->
                 forall v, In v (st_units s) -> ru_cls v = cid -> ru_equiv v <> None ->
                 nf_dim (ru_nf v) = nf_dim y).
    { intros y Hy Ns v Hv Cv Ev. injection Hy as <-. rewrite Ns in G. cbn in G.
      unfold needs_scale in Ns. destruct (rc_ref c) as [r|] eqn:Rc; [|discriminate].
      destruct (find_cls_in_sound _ _ _ Fc) as [Ic Idc].
      destruct (ci_ref s CI c r Ic Rc) as (ru & Fr & Cr & Er).
      destruct (R cid c r ru Fc Bc Rc Fr) as (x0 & X0 & D0).
      rewrite (derive_dims s U CI _ _ _ _ _ D Tx X0 G), <- D0.
      apply (uniform_found s (ru_id v) r); try assumption; try congruence.
      apply In_found; assumption. }
    destruct (make_unit_all _ _ _ _ _ _ _ _ A Fc M
               (fun y Hy => match Hy in (_ = o) return (match o with Some z => nf_wf z | None => True end)
                            with eq_refl => term_nf_wf s t x U Nzt Tx end) Ud)
      as (A' & E & -> & Iu & Cu).
    destruct (make_unit_inv _ _ _ _ _ _ _ M) as (Nz & Fresh & _).
    split; [exact A'|]. split; [exact E|]. exists u. rewrite Iu. repeat split; assumption. }
  destruct sym as [[|p]|]; [discriminate | |].
  - destruct (make_unit s c (N.pos p) (Some x) None) as [r|] eqn:M; cbn [bind]; [|discriminate].
    intros H. injection H as <-. exact (K _ r M).
  - destruct (make_unit s c auto (Some x) None) as [r|] eqn:M; cbn [bind]; [|discriminate].
    intros H. injection H as <-. exact (K _ r M).
Qed.

(* ---------- Money.new_unit ---------- *)
Theorem new_currency_ok s cid sym sf s' :
  AllInv s -> new_currency s cid sym sf = Ok s' ->
  AllInv s' /\ ext s s' /\
  exists u, s' = add_unit s u /\ ru_id u = sym /\ ru_cls u = cid /\ sym <> 0%N /\
            find_unit s sym = None.
Proof.
  intros A. unfold new_currency.
  destruct (find_cls s cid) as [c|] eqn:Fc; [|discriminate].
  destruct sf as [f|e]; [|discriminate].
  destruct (N.eqb sym 0) eqn:Es; [discriminate|].
  destruct (make_unit s c sym None (Some f)) as [[s1 u]|] eqn:M; cbn [bind]; [|discriminate].
  intros H. injection H as <-.
  destruct (make_unit_all _ _ _ _ _ _ _ _ A Fc M) as (A' & E & -> & Iu & Cu);
    try (intros x Hx; discriminate).
  destruct (make_unit_inv _ _ _ _ _ _ _ M) as (Nz & Fresh & _).
  split; [exact A'|]. split; [exact E|]. exists u. repeat split; assumption.
Qed.

(* ---------- type declarations ---------- *)
Lemma cterm_dim_props s t d :
  CInv s -> cterm_dim s t = Some d ->
  dv_wf d = true /\ forall i, dv_get d i <> 0 -> find_cls s i <> None.
Proof.
  intros CI. revert d. induction t as [|[c e] t IH]; cbn; intros d.
  - intros H. injection H as <-. split; [reflexivity | intros i Hi; cbn in Hi; congruence].
  - destruct (find_cls s c) as [k|] eqn:F; [|discriminate].
    destruct (cterm_dim s t) as [d'|] eqn:D; [|discriminate].
    intros H. injection H as <-. destruct (IH d' eq_refl) as [W G].
    destruct (find_cls_in_sound _ _ _ F) as [Ik _].
    pose proof (ci_dim_wf s CI k Ik) as Wk.
    split; [apply dv_mul_wf; [apply dv_scale_wf; exact Wk | exact W]|].
    intros i. rewrite dv_mul_get; [|apply dv_scale_wf; exact Wk | exact W]. rewrite dv_scale_get. intros Hne.
    destruct (Z.eq_dec (dv_get (rc_dim k) i) 0) as [Z0|NZ].
    + apply G. rewrite Z0 in Hne. lia.
    + exact (ci_dim_ids s CI k i Ik NZ).
Qed.

Theorem decl_class_ok s dm id def ref_sym auto quantum money s' :
  AllInv s -> guard dm s (DeclClass id def ref_sym auto quantum money) = true ->
  decl_class s id def ref_sym auto quantum money = (s', None) ->
  AllInv s' /\ ext s s'.
Proof.
  intros (U & CI & R & C) G H.
  destruct (decl_class_cases _ _ _ _ _ _ _ _ _ CI H) as [[_ X]|[_ X]]; [congruence|].
  destruct X as (d & ou & Fresh & Cd & Dnz & Hd & HC & HU & HCa & Hou).
  set (c := new_cls id def d ou quantum money) in *.
  assert (Wd : dv_wf d = true /\ forall i, dv_get d i <> 0 -> i = id \/ find_cls s i <> None).
  { destruct def as [t|].
    - destruct (cterm_dim_props s t d CI Hd) as [W Gd]. split; [exact W | auto].
    - subst d. split; [apply (dv_single_wf id 1)|]. intros i. rewrite dv_single_get.
      destruct (N.eqb i id) eqn:E; [apply N.eqb_eq in E; auto | congruence]. }
  destruct Wd as [Wd Did].
  assert (HT : forall k w, In (k, w) (st_termmap s) -> In (k, w) (st_termmap s')).
  { intros k w Hi. destruct ou as [u|]; [destruct Hou as (-> & _); apply tm_push_incl; exact Hi|].
    rewrite Hou. exact Hi. }
  assert (E : ext s s') by (eapply ext_new_class; eassumption).
  assert (CI' : CInv s').
  { apply (CInv_new_class s s' c ou); try assumption; try reflexivity.
    intros u Hu. subst ou. destruct Hou as (_ & F & _ & Cu & Eu & _). auto. }
  split; [|exact E].
  split; [|split; [exact CI'|split]].
  - (* UInv *)
    destruct ou as [u|]; cbn [ou_list] in HU.
    + destruct Hou as (HT' & Fu & Nzu & Cu & Eu & Su & Hnf).
      apply (UInv_push s s' u); try assumption.
      * destruct (match def with Some t => ref_units_nf s t | None => None end) as [x|] eqn:Rd.
        -- destruct Hnf as [-> _]. destruct def as [t|]; [|discriminate].
           apply (ref_units_nf_props s t x U CI Rd).
        -- destruct Hnf as (-> & _). split; [cbn; discriminate | apply (dv_single_wf (ru_id u) 1)].
      * intros e He. rewrite Eu in He. injection He as <-.
        destruct (match def with Some t => ref_units_nf s t | None => None end) as [x|] eqn:Rd.
        -- destruct Hnf as [-> _]. destruct def as [t|]; [|discriminate].
           symmetry. apply (ref_units_nf_props s t x U CI Rd).
        -- destruct Hnf as (-> & _). reflexivity.
      * intros _ v Hv Cv. exfalso. apply (ci_unit_cls s CI v Hv). rewrite Cv, Cu. exact Fresh.
    + rewrite app_nil_r in HU. destruct U as [ND WF EQ UN TM]. constructor.
      * rewrite HU. exact ND.
      * intros x Hx. rewrite HU in Hx. auto.
      * intros x e Hx. rewrite HU in Hx. auto.
      * intros x y Hx Hy. rewrite HU in Hx, Hy. auto.
      * intros k w Hi. rewrite Hou in Hi. destruct (TM k w Hi) as (x & Fx & Ex).
        exists x. split; [apply (ext_units _ _ E); exact Fx | exact Ex].
  - (* RInv *)
    intros id' c' r ru Fc' Bc' Rc' Fr'.
    unfold find_cls in Fc'. rewrite HC in Fc'.
    destruct (find_cls_in (st_classes s) id') as [k|] eqn:Fk.
    + rewrite (find_cls_in_app _ _ _ _ Fk) in Fc'. injection Fc' as <-.
      destruct (find_cls_in_sound _ _ _ Fk) as [Ik _].
      destruct (ci_ref s CI k r Ik Rc') as (ru0 & F0 & _).
      rewrite (ext_units _ _ E _ _ F0) in Fr'. injection Fr' as <-.
      destruct (R id' k r ru0 Fk Bc' Rc' F0) as (x & X & D). exists x. split; [|exact D].
      eapply ref_units_nf_ext; eassumption.
    + rewrite (find_cls_in_app_none _ _ _ Fk) in Fc'. cbn in Fc'.
      destruct (N.eqb id id') eqn:Eid; [|discriminate]. injection Fc' as <-.
      cbn [new_cls rc_base rc_ref rc_def] in Bc', Rc' |- *.
      destruct def as [t|]; [|discriminate].
      destruct ou as [u|]; [|discriminate]. cbn in Rc'. injection Rc' as <-.
      destruct Hou as (_ & Fu & _ & Cu & Eu & _ & Hnf).
      assert (Fu' : find_unit s' (ru_id u) = Some u).
      { unfold find_unit. rewrite HU. rewrite (find_unit_in_app_none _ _ _ Fu). cbn.
        rewrite N.eqb_refl. reflexivity. }
      rewrite Fu' in Fr'. injection Fr' as <-.
      cbn [guard] in G.
      destruct (ref_units_nf s t) as [x|] eqn:Rd.
      * destruct Hnf as [-> _]. exists x. split; [eapply ref_units_nf_ext; eassumption | reflexivity].
      * exfalso. destruct Hnf as (_ & _ & Ers). rewrite Ers in G. discriminate.
  - apply (Cache_ok_ext s); assumption.
Qed.

(* ---------- one step; every reachable directory ---------- *)
Theorem step_ok dm s d s' e :
  AllInv s -> guard dm s d = true -> step dm s d = (s', e) ->
  AllInv s' /\ ext s s' /\ (e <> None -> s' = s).
Proof.
  intros A G. destruct d as [id def rs auto qu money | cid sym ud | cid us sym auto | cid sym sf];
    cbn [step].
  - intros H. destruct e as [e|].
    + pose proof A as (_ & CI & _). rewrite (decl_class_error_noop _ _ _ _ _ _ _ _ _ CI H).
      split; [exact A | split; [apply ext_refl | reflexivity]].
    + destruct (decl_class_ok _ dm _ _ _ _ _ _ _ A G H) as [A' E].
      split; [exact A' | split; [exact E | congruence]].
  - destruct (new_unit s dm cid sym ud) as [s1|e1] eqn:N; cbn [lift_res]; intros H; injection H as <- <-.
    + destruct (new_unit_ok _ _ _ _ _ _ A G N) as (A' & E & _).
      split; [exact A' | split; [exact E | congruence]].
    + split; [exact A | split; [apply ext_refl | reflexivity]].
  - destruct (derive_unit s cid us sym auto) as [s1|e1] eqn:N; cbn [lift_res]; intros H; injection H as <- <-.
    + destruct (derive_unit_ok _ dm _ _ _ _ _ A G N) as (A' & E & _).
      split; [exact A' | split; [exact E | congruence]].
    + split; [exact A | split; [apply ext_refl | reflexivity]].
  - destruct (new_currency s cid sym sf) as [s1|e1] eqn:N; cbn [lift_res]; intros H; injection H as <- <-.
    + destruct (new_currency_ok _ _ _ _ _ A N) as (A' & E & _).
      split; [exact A' | split; [exact E | congruence]].
    + split; [exact A | split; [apply ext_refl | reflexivity]].
Qed.

(* the guards hold along the whole history *)
Fixpoint guarded (dm : mode) (s : state) (ds : list decl) : bool :=
  match ds with
  | [] => true
  | d :: r => guard dm s d && guarded dm (fst (step dm s d)) r
  end.

Lemma AllInv_init : AllInv init.
Proof.
  split; [|split; [|split]].
  - constructor; cbn; try tauto. constructor. intros k w [].
  - constructor; cbn.
    + constructor; [tauto | constructor].
    + intros c [<-|[]]. reflexivity.
    + tauto.
    + intros c r [<-|[]]. discriminate.
    + intros c1 c2 [<-|[]] [<-|[]] _. reflexivity.
    + intros c i [<-|[]]. cbn. destruct (N.eqb i 0) eqn:E; [|congruence].
      apply N.eqb_eq in E. subst. intros _. discriminate.
    + intros c [<-|[]]. reflexivity.
  - intros id c r ru H. unfold find_cls, init in H. cbn in H. destruct id; [|discriminate].
    injection H as <-. discriminate.
  - intros o a b r [].
Qed.

Theorem run_ok dm : forall ds s, AllInv s -> guarded dm s ds = true ->
  AllInv (run dm s ds) /\ ext s (run dm s ds).
Proof.
  induction ds as [|d ds IH]; intros s A G; cbn [run fold_left].
  - split; [exact A | apply ext_refl].
  - cbn [guarded] in G. apply andb_true_iff in G. destruct G as [G1 G2].
    destruct (step dm s d) as [s1 e] eqn:S. cbn [fst] in *.
    destruct (step_ok _ _ _ _ _ A G1 S) as (A1 & E1 & _).
    destruct (IH s1 A1 G2) as [A2 E2]. split; [exact A2 | eapply ext_trans; eassumption].
Qed.

Theorem reachable_inv dm ds : guarded dm init ds = true -> AllInv (run dm init ds).
Proof. intros G. apply (run_ok dm ds init AllInv_init G). Qed.

(* ---------- C16: a rejected declaration leaves the directory as it was ---------- *)
Theorem step_error_noop dm s d s' e :
  CInv s -> step dm s d = (s', Some e) -> s' = s.
Proof.
  intros CI. destruct d as [id def rs auto qu money | cid sym ud | cid us sym auto | cid sym sf];
    cbn [step].
  - apply decl_class_error_noop. exact CI.
  - destruct (new_unit s dm cid sym ud); cbn; intros H; injection H as <-; try reflexivity; discriminate.
  - destruct (derive_unit s cid us sym auto); cbn; intros H; injection H as <-; try reflexivity; discriminate.
  - destruct (new_currency s cid sym sf); cbn; intros H; injection H as <-; try reflexivity; discriminate.
Qed.
