(* Proofs/GenOpsEq.v — the operator layer GENERATED from
   src/quantity/__init__.py on every run (Gen/OpsImpl.v: Unit.__mul__,
   __truediv__, __rtruediv__, _pow, __pow__, Quantity.__mul__, __truediv__,
   __rtruediv__, __pow__, one function per kind of the second operand) is equal,
   on all states and operands, to the directory model's unit_mul / unit_div /
   unit_pow / op_mul / op_div / op_pow that the theorems of C02, C05 and C17 are
   about.

   Python's dispatch of a binary operator (x * y calls type(x).__mul__(x, y) and,
   when that returns NotImplemented, type(y).__rmul__(y, x); numbers return
   NotImplemented for units and quantities) is the hand-written part: the
   definitions [mul_code], [div_code], [pow_code] below. *)
From Coq Require Import ZArith QArith List Bool.
From QV Require Import Model.Num Model.Rounding Model.Quantity Model.Dim Model.Registry
     Model.Rates Model.RegRates Gen.QuantityImpl Gen.OpsImpl Proofs.GenQuantityEq.
Open Scope Z_scope.

Lemma Qred_idem q : Qred (Qred q) = Qred q.
Proof. apply Qred_complete, Qred_correct. Qed.
Lemma Qred_qmul a b : Qred (qmul a b) = qmul a b.
Proof. apply Qred_idem. Qed.
Lemma Qred_qdiv a b : Qred (qdiv a b) = qdiv a b.
Proof. apply Qred_idem. Qed.

(* ---- unit level ---- *)
Theorem unit_mul_impl_eq s u v : unit_mul_impl s u v = unit_mul s u v.
Proof.
  unfold unit_mul_impl, unit_mul. destruct (cache_get s KMul (ru_id u) (ru_id v)); [reflexivity|].
  destruct (resolve s _) as [[f w]|]; reflexivity.
Qed.

Theorem unit_div_impl_eq s u v : unit_div_impl s u v = unit_div s u v.
Proof.
  unfold unit_div_impl, unit_div. destruct (cache_get s KDiv (ru_id u) (ru_id v)); [reflexivity|].
  destruct (N.eqb (ru_cls u) (ru_cls v)).
  - destruct (N.eqb (ru_id u) (ru_id v)); [reflexivity|].
    destruct (ru_equiv u), (ru_equiv v); reflexivity.
  - destruct (resolve s _) as [[f w]|]; reflexivity.
Qed.

Theorem unit_pow_impl_eq s u k : unit_pow_impl s u k = (s, unit_pow s u k).
Proof. unfold unit_pow_impl, unit_pow. destruct (resolve s _) as [[f w]|]; reflexivity. Qed.

(* the cache is no part of the directory: constructing in the state after a
   unit operation is constructing in the state before it *)
Lemma mk_result_after_mul s u v dm a w :
  mk_result (fst (unit_mul s u v)) dm a w = mk_result s dm a w.
Proof.
  unfold unit_mul. destruct (cache_get s KMul (ru_id u) (ru_id v)); [reflexivity|].
  destruct (resolve s _); reflexivity.
Qed.
Lemma mk_result_after_div s u v dm a w :
  mk_result (fst (unit_div s u v)) dm a w = mk_result s dm a w.
Proof.
  unfold unit_div. destruct (cache_get s KDiv (ru_id u) (ru_id v)); [reflexivity|].
  destruct (N.eqb (ru_cls u) (ru_cls v)).
  - destruct (N.eqb (ru_id u) (ru_id v)); [reflexivity|].
    destruct (ru_equiv u), (ru_equiv v); reflexivity.
  - destruct (resolve s _); reflexivity.
Qed.

(* ---- Python's operator dispatch over the translated methods ---- *)
Definition mul_code (s : state) (dm : mode) (ce : convenv) (x y : mopd) : state * res mres :=
  match x, y with
  | MQ a u, MQ b v => with_unit s u (fun ru => with_unit s v (fun rv => Q_mul_qty s dm ce a ru b rv))
  | MQ a u, MU v => with_unit s u (fun ru => with_unit s v (fun rv => Q_mul_unit s dm ce a ru rv))
  | MU u, MQ b v => with_unit s u (fun ru => with_unit s v (fun rv => U_mul_qty s dm ce ru b rv))
  | MU u, MU v => with_unit s u (fun ru => with_unit s v (fun rv =>
      let r := unit_mul_impl s ru rv in
      (fst r, bind (snd r) (fun fw => Ok (MPair (fst fw) (snd fw))))))
  | MQ a u, MN k => with_unit s u (fun ru => Q_mul_num s dm ce a ru k)
  | MN k, MQ a u => with_unit s u (fun ru => Q_mul_num s dm ce a ru k)   (* __rmul__ = __mul__ *)
  | MU u, MN k => with_unit s u (fun ru => U_mul_num s dm ce ru k)
  | MN k, MU u => with_unit s u (fun ru => U_mul_num s dm ce ru k)       (* __rmul__ -> __mul__ *)
  | MN a, MN b => (s, Ok (MNum (qmul a b)))
  end.

Definition div_code (s : state) (dm : mode) (ce : convenv) (x y : mopd) : state * res mres :=
  match x, y with
  | MQ a u, MQ b v => with_unit s u (fun ru => with_unit s v (fun rv => Q_div_qty s dm ce a ru b rv))
  | MQ a u, MU v => with_unit s u (fun ru => with_unit s v (fun rv => Q_div_unit s dm ce a ru rv))
  | MU u, MQ b v => with_unit s u (fun ru => with_unit s v (fun rv => U_div_qty s dm ce ru b rv))
  | MU u, MU v => with_unit s u (fun ru => with_unit s v (fun rv =>
      let r := unit_div_impl s ru rv in
      (fst r, bind (snd r) (fun fw => Ok (MPair (fst fw) (snd fw))))))
  | MQ a u, MN k => with_unit s u (fun ru => Q_div_num s dm ce a ru k)
  | MU u, MN k => with_unit s u (fun ru => U_div_num s dm ce ru k)
  | MN k, MQ a u => with_unit s u (fun ru => Q_rdiv_num s dm ce a ru k)
  | MN k, MU u => with_unit s u (fun ru => U_rdiv_num s dm ce ru k)
  | MN a, MN b => (s, if qzero b then Err EZeroDivision else Ok (MNum (qdiv a b)))
  end.

Definition pow_code (s : state) (dm : mode) (ce : convenv) (x : mopd) (k : Z) : res mres :=
  match x with
  | MQ a u => match find_unit s u with
              | None => Err EOther
              | Some ru => snd (Q_pow s dm ce a ru k)
              end
  | MU u => match find_unit s u with
            | None => Err EOther
            | Some ru => snd (U_pow s dm ce ru k)
            end
  | MN a => Ok (MNum (qpow a k))
  end.

(* ---- the model's operators are the code ---- *)
Ltac units s u v :=
  unfold with_unit; destruct (find_unit s u) as [ru|]; [|reflexivity];
  destruct (find_unit s v) as [rv|]; [|reflexivity].
Ltac unit1 s u := unfold with_unit; destruct (find_unit s u) as [ru|]; [|reflexivity].

Theorem op_mul_is_code s dm ce x y : op_mul s dm x y = mul_code s dm ce x y.
Proof.
  destruct x as [a u|u|k], y as [b v|v|k']; cbn [op_mul mul_code]; try reflexivity.
  - units s u v. unfold Q_mul_qty, lift. rewrite unit_mul_impl_eq.
    destruct (unit_mul s ru rv) as [s' [[f w]|e]] eqn:E; cbn [fst snd bind]; [|reflexivity].
    replace s' with (fst (unit_mul s ru rv)) by (rewrite E; reflexivity).
    destruct w; [rewrite mk_result_after_mul; reflexivity|].
    cbn [mk_result]. rewrite Qred_qmul. reflexivity.
  - units s u v. unfold Q_mul_unit, lift. rewrite unit_mul_impl_eq.
    destruct (unit_mul s ru rv) as [s' [[f w]|e]] eqn:E; cbn [fst snd bind]; [|reflexivity].
    replace s' with (fst (unit_mul s ru rv)) by (rewrite E; reflexivity).
    destruct w; [rewrite mk_result_after_mul; reflexivity|].
    cbn [mk_result]. rewrite Qred_qmul. reflexivity.
  - units s u v. unfold U_mul_qty, lift. rewrite unit_mul_impl_eq.
    destruct (unit_mul s ru rv) as [s' [[f w]|e]] eqn:E; cbn [fst snd bind]; [|reflexivity].
    replace s' with (fst (unit_mul s ru rv)) by (rewrite E; reflexivity).
    destruct w; [rewrite mk_result_after_mul; reflexivity|].
    cbn [mk_result]. rewrite Qred_qmul. reflexivity.
  - units s u v. rewrite unit_mul_impl_eq. reflexivity.
Qed.

Theorem op_div_is_code s dm ce x y : op_div s dm ce x y = div_code s dm ce x y.
Proof.
  destruct x as [a u|u|k], y as [b v|v|k']; cbn [op_div div_code]; try reflexivity.
  - units s u v. unfold Q_div_qty. destruct (N.eqb (ru_cls ru) (ru_cls rv)).
    + rewrite equiv_amount_impl_eq.
      destruct (equiv_amount ce _ _) as [[e|]|e]; try reflexivity.
      destruct (qzero e); reflexivity.
    + rewrite unit_div_impl_eq.
      destruct (unit_div s ru rv) as [s' [[f w]|e]] eqn:E; cbn [fst snd]; [|reflexivity].
      destruct (qzero b); [reflexivity|].
      replace s' with (fst (unit_div s ru rv)) by (rewrite E; reflexivity).
      rewrite mk_result_after_div. reflexivity.
  - units s u v. unfold Q_div_unit. destruct (N.eqb (ru_cls ru) (ru_cls rv)).
    + rewrite equiv_amount_impl_eq.
      destruct (equiv_amount ce _ _) as [[e|]|e]; reflexivity.
    + unfold lift. rewrite unit_div_impl_eq.
      destruct (unit_div s ru rv) as [s' [[f w]|e]] eqn:E; cbn [fst snd bind]; [|reflexivity].
      replace s' with (fst (unit_div s ru rv)) by (rewrite E; reflexivity).
      rewrite mk_result_after_div. reflexivity.
  - units s u v. unfold U_div_qty. rewrite unit_div_impl_eq.
    destruct (unit_div s ru rv) as [s' [[f w]|e]] eqn:E; cbn [fst snd]; [|reflexivity].
    replace s' with (fst (unit_div s ru rv)) by (rewrite E; reflexivity).
    destruct w; destruct (qzero b); try reflexivity.
    + rewrite mk_result_after_div. reflexivity.
    + cbn [mk_result]. rewrite Qred_qdiv. reflexivity.
  - units s u v. rewrite unit_div_impl_eq. reflexivity.
  - unit1 s v. unfold Q_rdiv_num. rewrite unit_pow_impl_eq. cbn [fst snd].
    destruct (unit_pow s ru (-1)) as [[f w]|e]; reflexivity.
  - unit1 s v. unfold U_rdiv_num. rewrite unit_pow_impl_eq. cbn [fst snd].
    destruct (unit_pow s ru (-1)) as [[f w]|e]; reflexivity.
Qed.

Theorem op_pow_is_code s dm ce x k : op_pow s dm x k = pow_code s dm ce x k.
Proof.
  destruct x as [a u|u|q]; cbn [op_pow pow_code]; try reflexivity.
  - destruct (find_unit s u) as [ru|]; [|reflexivity]. unfold Q_pow.
    destruct (k =? 0); [reflexivity|]. destruct (k =? 1); [reflexivity|].
    rewrite unit_pow_impl_eq. cbn [fst snd].
    destruct (unit_pow s ru k) as [[f w]|e]; cbn [bind]; [|reflexivity].
    destruct (qzero a && (k <? 0)); reflexivity.
  - destruct (find_unit s u) as [ru|]; [|reflexivity]. unfold U_pow.
    destruct (k =? 0); [reflexivity|]. destruct (k =? 1); [reflexivity|].
    rewrite unit_pow_impl_eq. cbn [fst snd].
    destruct (unit_pow s ru k) as [[f w]|e]; reflexivity.
Qed.

(* a float operand (a Real that is not a Rational) is taken at its exact value:
   the methods treat it like the Rational of the same value *)
Theorem real_operands_like_rationals s dm ce :
  (forall u k, U_mul_real s dm ce u k = U_mul_num s dm ce u k) /\
  (forall u k, U_div_real s dm ce u k = U_div_num s dm ce u k) /\
  (forall u k, U_rdiv_real s dm ce u k = U_rdiv_num s dm ce u k) /\
  (forall a u k, Q_mul_real s dm ce a u k = Q_mul_num s dm ce a u k) /\
  (forall a u k, Q_div_real s dm ce a u k = Q_div_num s dm ce a u k) /\
  (forall a u k, Q_rdiv_real s dm ce a u k = Q_rdiv_num s dm ce a u k).
Proof. repeat split; reflexivity. Qed.

(* ---- an exchange rate applied to money and to money-per-quantity values
   (money/__init__.py: ExchangeRate.__mul__ = __rmul__, __rtruediv__).  The
   dispatch on the operand (`isinstance(other, Money)`) is the model's
   [is_money]; the rate enters through its currencies, .rate and .inverse_rate *)
Definition rate_code (s : state) (dm : mode) (ce : convenv) (mul : bool) (a : Q) (uid : N)
           (r : rate) : res mres :=
  match find_unit s uid, find_unit s (r_unit r), find_unit s (r_term r) with
  | Some u, Some cu, Some ct =>
      snd (if is_money s u
           then (if mul then R_mul_money else R_rdiv_money)
                  s dm ce cu ct (rate_of r) (inverse_rate r) a u
           else (if mul then R_mul_qty else R_rdiv_qty)
                  s dm ce cu ct (rate_of r) (inverse_rate r) a u)
  | _, _, _ => Err EOther
  end.

Theorem apply_rate_is_code s dm ce mul a uid r :
  apply_rate s dm mul a uid r = rate_code s dm ce mul a uid r.
Proof.
  unfold apply_rate, rate_code.
  destruct (find_unit s uid) as [u|]; [|reflexivity].
  destruct (find_unit s (r_unit r)) as [cu|]; [|reflexivity].
  destruct (find_unit s (r_term r)) as [ct|]; [|reflexivity].
  destruct mul, (is_money s u);
    unfold R_mul_money, R_rdiv_money, R_mul_qty, R_rdiv_qty; cbn [snd].
  - destruct (N.eqb (ru_id u) (ru_id cu)); reflexivity.
  - destruct (resolve s _) as [[f w]|]; reflexivity.
  - destruct (N.eqb (ru_id u) (ru_id ct)); reflexivity.
  - destruct (resolve s _) as [[f w]|]; reflexivity.
Qed.
