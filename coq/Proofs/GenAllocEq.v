(* Proofs/GenAllocEq.v — Quantity.quantize, Quantity.__round__ and
   Quantity.allocate as GENERATED from src/quantity/__init__.py on every run
   (Gen/AllocImpl.v, translate/alloc.py) are equal, on all inputs, to the
   hand-written model functions of Model/Quantity.v and Model/Alloc.v that the
   theorems of C05, C06 and C13 are about. *)
From Coq Require Import ZArith QArith List Bool.
From QV Require Import Model.Num Model.Rounding Gen.RoundingImpl Model.Quantity
  Gen.QuantityImpl Model.Alloc Gen.AllocImpl Proofs.GenQuantityEq.
Open Scope Z_scope.

Lemma qeqb_zero a : qeqb a 0 = qzero a.
Proof.
  unfold qeqb, qzero, Qeq_bool. cbn [Qnum Qden]. rewrite Z.mul_1_r, Z.mul_0_l.
  destruct (Qnum a); reflexivity.
Qed.

Lemma same_cls_comm u v : same_cls u v = same_cls v u.
Proof. unfold same_cls. apply N.eqb_sym. Qed.

(* the constructor's quantisation (the end of Quantity.__new__): the generated
   function is the model's mk_qty, up to the model's canonical representation
   (Qred) of an amount that is not quantised *)
Theorem mk_qty_impl_eq dm a u :
  mk_qty dm a u = match u_quantum u with
                  | None => mkQty (Qred (q_amt (mk_qty_impl dm a u))) u
                  | Some _ => mk_qty_impl dm a u
                  end.
Proof.
  unfold mk_qty, mk_qty_impl, round_to_quantum, dec_round0.
  destruct (u_quantum u); reflexivity.
Qed.

Theorem mk_qty_impl_unit dm a u : q_unit (mk_qty_impl dm a u) = u.
Proof. unfold mk_qty_impl. destruct (u_quantum u); reflexivity. Qed.

Theorem mk_qty_impl_value dm a u : q_amt (mk_qty_impl dm a u) == q_amt (mk_qty dm a u).
Proof.
  rewrite mk_qty_impl_eq. destruct (u_quantum u); cbn [q_amt]; [reflexivity|].
  symmetry. apply Qred_correct.
Qed.

Theorem quantize_impl_eq ce dm is_dec p quant rm :
  quantize_impl ce dm is_dec p quant rm = quantize ce dm is_dec p quant rm.
Proof.
  unfold quantize_impl, quantize. rewrite (same_cls_comm (q_unit quant)).
  destruct (same_cls (q_unit p) (q_unit quant)); cbn [negb]; [|reflexivity].
  destruct (u_has_ref (q_unit p)); cbn [negb]; [|reflexivity].
  rewrite equiv_amount_impl_eq.
  destruct (equiv_amount ce quant (q_unit p)) as [[nq|]|e]; cbn [bind]; try reflexivity.
  rewrite qeqb_zero. destruct (qzero (q_amt p)); [reflexivity|].
  unfold dec_quantize, frac_quantize, resolve_mode.
  destruct is_dec; cbn [negb]; destruct (qzero nq); cbn [bind]; try reflexivity.
  destruct (quantize_fraction (q_amt p) nq _); reflexivity.
Qed.

Theorem qty_round_impl_eq dm is_dec p nd :
  qty_round_impl dm is_dec p nd = Ok (qty_round dm is_dec p nd).
Proof. reflexivity. Qed.

Theorem qty_unary_impl_eq dm is_dec p :
  qty_abs_impl dm is_dec p = Ok (qty_abs dm p) /\
  qty_neg_impl dm is_dec p = Ok (qty_neg dm p) /\
  qty_pos_impl dm is_dec p = Ok p.
Proof. repeat split. Qed.

Lemma qty_sum_from_impl_eq ce dm l : forall acc,
  qty_sum_from_impl ce dm acc l = qty_sum_from ce dm acc l.
Proof.
  induction l as [|x r IH]; intros acc; cbn [qty_sum_from_impl qty_sum_from]; [reflexivity|].
  rewrite qty_add_impl_eq. destruct (qty_add ce dm acc x); cbn [bind]; [apply IH|reflexivity].
Qed.

Lemma errors_from_impl_eq self ps : forall fs i,
  errors_from_impl i self ps fs = errors_from i (q_amt self) ps fs.
Proof.
  induction ps as [|p pr IH]; intros fs i; [reflexivity|].
  destruct fs as [|f fr]; [reflexivity|].
  cbn [errors_from_impl errors_from]. rewrite IH. reflexivity.
Qed.

Lemma disperse_loop_impl_eq step errs : forall ps rem,
  disperse_loop_impl step errs ps rem = disperse_loop step errs ps rem.
Proof.
  induction errs as [|[e i] r IH]; intros ps rem; [reflexivity|].
  cbn [disperse_loop_impl disperse_loop]. rewrite qeqb_zero.
  destruct (qzero (qsub rem step)); [reflexivity|apply IH].
Qed.

Theorem alloc_core_impl_eq ce dm self fs disperse :
  alloc_core_impl ce dm self fs disperse = alloc_core ce dm self fs disperse.
Proof.
  unfold alloc_core_impl, alloc_core.
  destruct (map (fun f => qty_mul_num dm self f) fs) as [|p0 pr]; [reflexivity|].
  rewrite qty_sum_from_impl_eq.
  destruct (qty_sum_from ce dm p0 pr) as [s|e]; cbn [bind]; [|reflexivity].
  rewrite qty_sub_impl_eq.
  destruct (qty_sub ce dm self s) as [remainder|e]; cbn [bind]; [|reflexivity].
  rewrite qeqb_zero. destruct (qzero (q_amt remainder)); cbn [negb]; [reflexivity|].
  destruct (u_quantum (q_unit self)) as [qu|]; [|reflexivity].
  destruct disperse; cbn [negb]; [|reflexivity].
  rewrite errors_from_impl_eq, disperse_loop_impl_eq. reflexivity.
Qed.

Theorem allocate_impl_eq ce dm self ratios disperse :
  allocate_impl ce dm self ratios disperse = allocate ce dm self ratios disperse.
Proof.
  unfold allocate_impl, allocate.
  destruct (sum_ratios ce dm ratios) as [t|e]; cbn [bind]; [|reflexivity].
  destruct (fractions_of ce ratios t) as [fs|e]; cbn [bind]; [|reflexivity].
  apply alloc_core_impl_eq.
Qed.
