(* Proofs/GenRatesEq.v — the exchange-rate arithmetic GENERATED from
   src/quantity/money/__init__.py on every run (Gen/RatesImpl.v,
   translate/rates.py) is equal, on all inputs, to the hand-written model
   functions of Model/Rates.v that the theorems of C09 are about. *)
From Coq Require Import ZArith QArith List Bool.
From QV Require Import Model.Num Model.Rounding Model.Quantity Model.Rates Gen.RatesImpl.
Open Scope Z_scope.

Theorem rate_of_impl_eq r : rate_of_impl r = rate_of r.
Proof. reflexivity. Qed.

Theorem inverse_rate_impl_eq r : inverse_rate_impl r = inverse_rate r.
Proof. reflexivity. Qed.

Theorem rate_eqb_impl_eq a b : rate_eqb_impl a b = rate_eqb a b.
Proof. reflexivity. Qed.

Lemma millionth : (1 # 1000000) = pow10 (-6).
Proof. vm_compute. reflexivity. Qed.

Theorem mk_rate_impl_eq dm u m t a : mk_rate_impl dm u m t a = mk_rate dm u m t a.
Proof.
  unfold mk_rate_impl, mk_rate, dec_round, round6. rewrite millionth.
  destruct (N.eqb u t); [reflexivity|].
  destruct (is_integral m); cbn [negb]; [|reflexivity].
  destruct (qltb m 1); [reflexivity|].
  destruct (qltb a (pow10 (-6))); [reflexivity|].
  Timeout 20 reflexivity.
Qed.

(* keep conversion from computing powers of ten and logarithms on open terms *)
Local Opaque magnitude pow10 round_to_quantum.

Theorem inverted_impl_eq dm r : inverted_impl dm r = inverted dm r.
Proof.
  unfold inverted_impl, inverted, inverse_rate_impl.
  Timeout 20 rewrite (mk_rate_impl_eq dm (r_term r) 1 (r_unit r)). Timeout 20 reflexivity.
Qed.

Theorem rate_mul_impl_eq dm a b : rate_mul_impl dm a b = rate_mul dm a b.
Proof.
  unfold rate_mul_impl, rate_mul, rate_of_impl.
  Timeout 20 rewrite (mk_rate_impl_eq dm (r_unit b) 1 (r_term a)).
  Timeout 20 rewrite (mk_rate_impl_eq dm (r_unit a) 1 (r_term b)).
  Timeout 20 reflexivity.
Qed.

Theorem rate_div_impl_eq dm a b : rate_div_impl dm a b = rate_div dm a b.
Proof.
  unfold rate_div_impl, rate_div, rate_of_impl.
  Timeout 20 rewrite (mk_rate_impl_eq dm (r_term b) 1 (r_term a)).
  Timeout 20 rewrite (mk_rate_impl_eq dm (r_unit a) 1 (r_unit b)).
  Timeout 20 reflexivity.
Qed.
