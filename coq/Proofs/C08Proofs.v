(* C08: money never mixes currencies implicitly and follows ISO 4217. *)
From Coq Require Import ZArith QArith Qabs List Bool Lia Lqa Qreduction Qpower Qcanon Permutation.
From QV Require Import Model.Num Model.Rounding Gen.RoundingImpl Model.Quantity
     Model.MoneyOps Gen.IsoTable
     Proofs.RoundingQ Proofs.QuantityProofs Proofs.C13Proofs Proofs.C01Proofs
     Proofs.C03C04Proofs Proofs.C05Proofs.
Open Scope Q_scope.

(* ====================================================================== *)
(* 1. two different currencies, no converter                              *)
(* ====================================================================== *)

(* [c] and [d] are two different units of one class that has no reference
   unit (so: no scales), and that class has no converter registered.  This is
   what two different currencies look like to the quantity layer when no
   money converter is active. *)
Record mixed_pair (ce : convenv) (c d : unit) : Prop := mkMixed {
  mp_cls : same_cls c d = true;
  mp_ref_c : u_has_ref c = false;
  mp_ref_d : u_has_ref d = false;
  mp_scale_c : u_scale c = None;
  mp_scale_d : u_scale d = None;
  mp_distinct : same_unit c d = false;
  mp_noconv : ce (u_cls c) = []
}.

Lemma same_unit_sym u v : same_unit u v = same_unit v u.
Proof. unfold same_unit. apply N.eqb_sym. Qed.

Lemma mixed_pair_sym ce c d : mixed_pair ce c d -> mixed_pair ce d c.
Proof.
  intros [H1 H2 H3 H4 H5 H6 H7]. split; try assumption.
  - rewrite same_cls_sym. exact H1.
  - rewrite same_unit_sym. exact H6.
  - unfold same_cls in H1. apply N.eqb_eq in H1. rewrite <- H1. exact H7.
Qed.

(* the amount of a [d] quantity has no equivalent in [c] *)
Lemma mixed_equiv_none ce c d a : mixed_pair ce c d ->
  equiv_amount ce (mkQty a d) c = Ok None.
Proof.
  intros M. destruct (mixed_pair_sym ce c d M) as [H1 H2 H3 H4 H5 H6 H7].
  unfold equiv_amount, unit_eq, get_factor. cbn [q_unit q_amt].
  rewrite H1, H4, H5, H6, H2, H7. reflexivity.
Qed.

Lemma mixed_unit_eq ce c d : mixed_pair ce c d -> unit_eq c d = Ok false.
Proof.
  intros [H1 H2 H3 H4 H5 H6 H7]. unfold unit_eq. rewrite H1, H4, H5, H6. reflexivity.
Qed.

Theorem mixed_addsub ce dm c d : mixed_pair ce c d -> forall sub a b,
  qty_addsub sub ce dm (mkQty a c) (mkQty b d) = Err EUnitConversion.
Proof.
  intros M sub a b. unfold qty_addsub. cbn [q_unit q_amt].
  rewrite (mp_cls _ _ _ M), (mixed_unit_eq ce c d M). cbn [bind].
  rewrite (mixed_equiv_none ce c d b M). reflexivity.
Qed.

Theorem mixed_cmp ce c d : mixed_pair ce c d -> forall op a b,
  qty_cmp ce op (mkQty a c) (mkQty b d) = Err EUnitConversion.
Proof.
  intros M op a b. unfold qty_cmp. cbn [q_unit q_amt].
  rewrite (mp_cls _ _ _ M), (mp_distinct _ _ _ M), (mixed_equiv_none ce c d b M). reflexivity.
Qed.

Theorem mixed_eq ce c d : mixed_pair ce c d -> forall a b,
  qty_eq ce (mkQty a c) (mkQty b d) = Ok false.
Proof.
  intros M a b. unfold qty_eq. cbn [q_unit q_amt].
  rewrite (mp_cls _ _ _ M), (mp_distinct _ _ _ M), (mixed_equiv_none ce c d b M). reflexivity.
Qed.

Theorem mixed_convert ce dm c d : mixed_pair ce c d -> forall a,
  convert ce dm (mkQty a c) d = Err EUnitConversion.
Proof.
  intros M a. unfold convert.
  rewrite (mixed_equiv_none ce d c a (mixed_pair_sym ce c d M)). reflexivity.
Qed.

Theorem mixed_div ce te dm c d : mixed_pair ce c d -> forall a b,
  qty_div_qty ce te dm (mkQty a c) (mkQty b d) = Err EUnitConversion.
Proof.
  intros M a b. unfold qty_div_qty. cbn [q_unit q_amt].
  rewrite (mp_cls _ _ _ M), (mixed_equiv_none ce c d b M). reflexivity.
Qed.

(* money * money.  Hypothesis, stated explicitly: the directory of declared
   units holds no unit for the product term of the two money units — true of
   every state in which no quantity type defined as Money**2 was declared
   (the term of two money units can only be the definition of a unit of such
   a type).  Then the product is undefined — for two different currencies and
   for one and the same currency alike. *)
Theorem money_mul_undefined te dm p q :
  te false (q_unit p) (q_unit q) = None ->
  qty_mul_qty te dm p q = Err EUndefinedResult.
Proof. intros H. unfold qty_mul_qty. rewrite H. reflexivity. Qed.

(* all of it, for both orders of the operands *)
Theorem mixed_all ce te dm c d : mixed_pair ce c d ->
  forall a b,
  qty_add ce dm (mkQty a c) (mkQty b d) = Err EUnitConversion /\
  qty_sub ce dm (mkQty a c) (mkQty b d) = Err EUnitConversion /\
  qty_div_qty ce te dm (mkQty a c) (mkQty b d) = Err EUnitConversion /\
  (forall op, qty_cmp ce op (mkQty a c) (mkQty b d) = Err EUnitConversion) /\
  convert ce dm (mkQty a c) d = Err EUnitConversion /\
  qty_eq ce (mkQty a c) (mkQty b d) = Ok false /\
  (te false c d = None -> qty_mul_qty te dm (mkQty a c) (mkQty b d) = Err EUndefinedResult).
Proof.
  intros M a b. repeat split.
  - apply (mixed_addsub ce dm c d M false).
  - apply (mixed_addsub ce dm c d M true).
  - apply (mixed_div ce te dm c d M).
  - intros op. apply (mixed_cmp ce c d M).
  - apply (mixed_convert ce dm c d M).
  - apply (mixed_eq ce c d M).
  - intros H. apply money_mul_undefined. exact H.
Qed.

(* ====================================================================== *)
(* 2. one currency: operations stay in it, on its grid                     *)
(* ====================================================================== *)

(* a currency as the quantity layer sees it *)
Definition currency_view (c : unit) (sf : Q) : Prop :=
  u_has_ref c = false /\ u_scale c = None /\ u_quantum c = Some sf.

Lemma cur_unit_view mc c : currency_view (cur_unit mc c) (c_sf c).
Proof. repeat split. Qed.

(* result [r] is an amount of currency [c] (hence of c's class) on c's grid *)
Definition in_currency (c : unit) (sf : Q) (r : qty) : Prop :=
  q_unit r = c /\ on_grid (q_amt r) sf.

Lemma mk_in_currency dm a c sf : u_quantum c = Some sf -> in_currency c sf (mk_qty dm a c).
Proof. intros H. split; [apply mk_qty_unit | apply (mk_on_grid dm a c sf H)]. Qed.

Lemma currency_unit_eq c sf : currency_view c sf -> unit_eq c c = Ok true.
Proof.
  intros (_ & Hs & _). unfold unit_eq, same_cls, same_unit.
  rewrite N.eqb_refl, Hs, N.eqb_refl. reflexivity.
Qed.

Lemma currency_equiv_self ce c sf a : currency_view c sf ->
  equiv_amount ce (mkQty a c) c = Ok (Some a).
Proof.
  intros V. unfold equiv_amount. cbn [q_unit q_amt].
  rewrite (currency_unit_eq c sf V). reflexivity.
Qed.

Theorem same_currency_closed ce te dm c sf : currency_view c sf -> forall a b,
  (forall sub, exists r, qty_addsub sub ce dm (mkQty a c) (mkQty b c) = Ok r /\
       r = mk_qty dm (if sub then qsub a b else qadd a b) c /\ in_currency c sf r) /\
  in_currency c sf (qty_neg dm (mkQty a c)) /\
  in_currency c sf (qty_abs dm (mkQty a c)) /\
  (forall k, in_currency c sf (qty_mul_num dm (mkQty a c) k)) /\
  (forall k, ~ k == 0 -> exists r, qty_div_num dm (mkQty a c) k = Ok r /\ in_currency c sf r) /\
  (exists r, convert ce dm (mkQty a c) c = Ok r /\ r = mk_qty dm a c /\ in_currency c sf r) /\
  (* the quotient of two amounts of one currency is a plain number *)
  (~ b == 0 -> qty_div_qty ce te dm (mkQty a c) (mkQty b c) = Ok (RNum (qdiv a b))) /\
  (b == 0 -> qty_div_qty ce te dm (mkQty a c) (mkQty b c) = Err EZeroDivision) /\
  (* comparisons are comparisons of the amounts *)
  qty_eq ce (mkQty a c) (mkQty b c) = Ok (qeqb a b) /\
  (forall op, qty_cmp ce op (mkQty a c) (mkQty b c) = Ok (cmp_q op a b)).
Proof.
  intros V a b. pose proof V as (Hr & Hs & Hq).
  assert (Sc : same_cls c c = true) by (unfold same_cls; apply N.eqb_refl).
  assert (Su : same_unit c c = true) by (unfold same_unit; apply N.eqb_refl).
  split.
  { intros sub. unfold qty_addsub. cbn [q_unit q_amt].
    rewrite Sc, (currency_unit_eq c sf V). cbn [bind].
    eexists. split; [reflexivity|]. split; [destruct sub; reflexivity|].
    apply mk_in_currency. exact Hq. }
  split; [apply mk_in_currency; exact Hq|].
  split; [apply mk_in_currency; exact Hq|].
  split; [intros k; apply mk_in_currency; exact Hq|].
  split.
  { intros k Hk. unfold qty_div_num. apply qzero_false in Hk. rewrite Hk.
    eexists. split; [reflexivity|]. apply mk_in_currency. exact Hq. }
  split.
  { unfold convert. rewrite (currency_equiv_self ce c sf a V). cbn [bind].
    eexists. split; [reflexivity|]. split; [reflexivity|]. apply mk_in_currency. exact Hq. }
  split.
  { intros Hb. unfold qty_div_qty. cbn [q_unit q_amt].
    rewrite Sc, (currency_equiv_self ce c sf b V). cbn [bind].
    apply qzero_false in Hb. rewrite Hb. reflexivity. }
  split.
  { intros Hb. unfold qty_div_qty. cbn [q_unit q_amt].
    rewrite Sc, (currency_equiv_self ce c sf b V). cbn [bind].
    apply qzero_iff in Hb. rewrite Hb. reflexivity. }
  split.
  { unfold qty_eq. cbn [q_unit q_amt]. rewrite Sc, Su. reflexivity. }
  intros op. unfold qty_cmp. cbn [q_unit q_amt]. rewrite Sc, Su. reflexivity.
Qed.

(* sums, differences, negations and absolute values of amounts that are on
   the currency's grid are exact: nothing is rounded away *)
Lemma on_grid_pm (sub : bool) a b sf : on_grid a sf -> on_grid b sf ->
  on_grid (if sub then qsub a b else qadd a b) sf.
Proof.
  intros [k Hk] [l Hl]. destruct sub.
  - exists (k + - l)%Z. rewrite qsub_ok, Hk, Hl, inject_Z_plus, inject_Z_opp. ring.
  - exists (k + l)%Z. rewrite qadd_ok, Hk, Hl, inject_Z_plus. ring.
Qed.

Theorem same_currency_exact ce dm c sf : currency_view c sf -> ~ sf == 0 ->
  forall a b, on_grid a sf -> on_grid b sf ->
  (forall sub, exists r, qty_addsub sub ce dm (mkQty a c) (mkQty b c) = Ok r /\
       q_unit r = c /\ q_amt r == (if sub then a - b else a + b)) /\
  q_amt (qty_neg dm (mkQty a c)) == - a /\
  q_amt (qty_abs dm (mkQty a c)) == Qabs a.
Proof.
  intros V Hz a b Ga Gb. pose proof V as (Hr & Hs & Hq).
  split.
  { intros sub.
    destruct (same_currency_closed ce (fun _ _ _ => None) dm c sf V a b) as (H & _).
    destruct (H sub) as (r & Hres & Heq & Hin). exists r. split; [exact Hres|].
    split; [apply Hin|]. rewrite Heq, (mk_qty_quantized dm _ c sf Hq). cbn [q_amt].
    rewrite (round_to_quantum_on_grid dm _ sf Hz (on_grid_pm sub a b sf Ga Gb)).
    destruct sub; [apply qsub_ok | apply qadd_ok]. }
  split.
  - unfold qty_neg. cbn [q_unit q_amt]. rewrite (mk_qty_quantized dm _ c sf Hq). cbn [q_amt].
    apply round_to_quantum_on_grid; [exact Hz|].
    destruct Ga as [k Hk]. exists (- k)%Z. unfold qneg. rewrite Hk, inject_Z_opp. ring.
  - unfold qty_abs. cbn [q_unit q_amt]. rewrite (mk_qty_quantized dm _ c sf Hq). cbn [q_amt].
    apply round_to_quantum_on_grid; [exact Hz|].
    destruct Ga as [k Hk]. unfold qabs.
    destruct (Qlt_le_dec a 0) as [Hn | Hp].
    + exists (- k)%Z. rewrite (Qabs_neg a (Qlt_le_weak _ _ Hn)), Hk, inject_Z_opp. ring.
    + exists k. rewrite (Qabs_pos a Hp). exact Hk.
Qed.

(* ====================================================================== *)
(* 3. every amount is rounded to the smallest fraction                     *)
(* ====================================================================== *)

Theorem rounded_to_fraction dm a c sf : u_quantum c = Some sf ->
  let r := q_amt (mk_qty dm a c) in
  on_grid r sf /\
  (0 < sf ->
     Qabs (r - a) < sf /\
     (half_mode dm = true -> Qabs (r - a) <= (1 # 2) * sf) /\
     (dm = MFLOOR -> r <= a) /\ (dm = MCEIL -> a <= r) /\
     (dm = MDOWN -> Qabs r <= Qabs a) /\ (dm = MUP -> Qabs a <= Qabs r)).
Proof.
  intros Hq r. split; [apply (mk_on_grid dm a c sf Hq)|].
  intros Hp. subst r. rewrite (mk_qty_quantized dm a c sf Hq). cbn [q_amt].
  split; [apply round_error_lt; exact Hp|].
  split; [intros Hm; apply round_error_half; assumption|].
  split; [intros ->; apply round_floor_side; exact Hp|].
  split; [intros ->; apply round_ceiling_side; exact Hp|].
  split; [intros ->; apply round_down_side; exact Hp|].
  intros ->; apply round_up_side; exact Hp.
Qed.

(* the guarded constructor: fails exactly for a zero smallest fraction *)
Theorem money_new_ok dm a c sf : u_quantum c = Some sf ->
  (~ sf == 0 -> money_new dm a c = Ok (mk_qty dm a c)) /\
  (sf == 0 -> money_new dm a c = Err EZeroDivision).
Proof.
  intros Hq. unfold money_new. rewrite Hq. split; intros H.
  - apply qzero_false in H. rewrite H. reflexivity.
  - apply qzero_iff in H. rewrite H. reflexivity.
Qed.

(* ====================================================================== *)
(* 4. the registration machine                                             *)
(* ====================================================================== *)
Open Scope Z_scope.

Lemma str_eqb_eq a b : str_eqb a b = true <-> a = b.
Proof.
  revert b. induction a as [|x a IH]; intros [|y b]; cbn [str_eqb]; split; intros H;
    try reflexivity; try discriminate.
  - apply andb_true_iff in H. destruct H as [H1 H2]. apply N.eqb_eq in H1.
    apply IH in H2. subst. reflexivity.
  - injection H as -> ->. rewrite N.eqb_refl. apply IH. reflexivity.
Qed.

Lemma str_eqb_refl a : str_eqb a a = true.
Proof. apply str_eqb_eq. reflexivity. Qed.

Lemma str_eqb_neq a b : str_eqb a b = false <-> a <> b.
Proof.
  split.
  - intros H E. apply str_eqb_eq in E. rewrite E in H. discriminate.
  - intros H. destruct (str_eqb a b) eqn:E; [|reflexivity]. apply str_eqb_eq in E. contradiction.
Qed.

Lemma find_cur_some l s c : find_cur l s = Some c -> In c l /\ c_sym c = s.
Proof.
  induction l as [|x l IH]; cbn [find_cur]; [discriminate|].
  destruct (str_eqb (c_sym x) s) eqn:E.
  - intros H. injection H as <-. split; [left; reflexivity | apply str_eqb_eq; exact E].
  - intros H. destruct (IH H) as [H1 H2]. split; [right; exact H1 | exact H2].
Qed.

Lemma find_cur_none l s : find_cur l s = None -> forall c, In c l -> c_sym c <> s.
Proof.
  induction l as [|x l IH]; cbn [find_cur]; [intros _ c []|].
  destruct (str_eqb (c_sym x) s) eqn:E; [discriminate|].
  intros H c [<- | Hc]; [apply str_eqb_neq; exact E | apply IH; assumption].
Qed.

Lemma find_cur_nodup l c : NoDup (map c_sym l) -> In c l -> find_cur l (c_sym c) = Some c.
Proof.
  induction l as [|x l IH]; cbn [map find_cur]; [intros _ []|].
  intros N [-> | Hc].
  - rewrite str_eqb_refl. reflexivity.
  - inversion N as [|? ? Hx Nl]; subst.
    destruct (str_eqb (c_sym x) (c_sym c)) eqn:E.
    + apply str_eqb_eq in E. exfalso. apply Hx. rewrite E. apply in_map. exact Hc.
    + apply IH; assumption.
Qed.

Lemma find_cur_app l c s :
  find_cur (l ++ [c]) s =
  match find_cur l s with
  | Some x => Some x
  | None => if str_eqb (c_sym c) s then Some c else None
  end.
Proof.
  induction l as [|x l IH]; cbn [app find_cur]; [reflexivity|].
  destruct (str_eqb (c_sym x) s); [reflexivity | exact IH].
Qed.

Lemma map_inj_in {A B} (f : A -> B) l a b :
  NoDup (map f l) -> In a l -> In b l -> f a = f b -> a = b.
Proof.
  induction l as [|x l IH]; cbn [map]; [intros _ []|].
  intros N Ha Hb E. inversion N as [|? ? Hx Nl]; subst.
  destruct Ha as [-> | Ha], Hb as [-> | Hb].
  - reflexivity.
  - exfalso. apply Hx. rewrite E. apply in_map. exact Hb.
  - exfalso. apply Hx. rewrite <- E. apply in_map. exact Ha.
  - apply IH; assumption.
Qed.

Lemma NoDup_snoc {A} (l : list A) x : NoDup l -> ~ In x l -> NoDup (l ++ [x]).
Proof.
  intros N H. apply (Permutation_NoDup (l := x :: l)).
  - apply Permutation_cons_append.
  - constructor; assumption.
Qed.

(* well-formed registries: one unit per symbol, one identity per unit, fresh
   identities are fresh, money symbols are not symbols of other classes *)
Record wf (st : mstate) : Prop := mkWf {
  wf_syms : NoDup (map c_sym (st_units st));
  wf_ids : forall c, In c (st_units st) -> (c_uid c < st_next st)%N;
  wf_uids : NoDup (map c_uid (st_units st));
  wf_foreign : forall c, In c (st_units st) -> ~ In (c_sym c) (st_foreign st)
}.

Lemma wf_init fg : wf (st_init fg).
Proof. split; cbn; try constructor; intros c []. Qed.

Lemma sym_taken_false st s : sym_taken st s = false ->
  find_unit st s = None /\ ~ In s (st_foreign st).
Proof.
  unfold sym_taken. intros H. apply orb_false_iff in H. destruct H as [H1 H2]. split.
  - destruct (find_unit st s); [discriminate | reflexivity].
  - intros Hin. assert (X : existsb (str_eqb s) (st_foreign st) = true).
    { apply existsb_exists. exists s. split; [exact Hin | apply str_eqb_refl]. }
    rewrite X in H1. discriminate.
Qed.

Lemma sym_taken_true st s : sym_taken st s = true ->
  (exists c, find_unit st s = Some c) \/ In s (st_foreign st).
Proof.
  unfold sym_taken. intros H. apply orb_true_iff in H. destruct H as [H | H].
  - right. apply existsb_exists in H. destruct H as (x & Hx & E).
    apply str_eqb_eq in E. subst. exact Hx.
  - left. destruct (find_unit st s) as [c|]; [exists c; reflexivity | discriminate].
Qed.

(* the state after a successful creation *)
Definition st_add (st : mstate) (c : currency) : mstate :=
  mkSt (st_units st ++ [c]) (st_foreign st) (N.succ (st_next st)).

(* MoneyMeta.new_unit succeeds exactly when ... *)
Lemma new_unit_ok_iff st sym name mu sf c st' :
  new_unit st sym name mu sf = Ok (c, st') <->
  exists s f, sym = SymStr s /\ s <> [] /\ sym_taken st s = false /\
              resolve_fraction mu sf = Ok f /\
              c = mkCur s name f (st_next st) /\ st' = st_add st c.
Proof.
  unfold new_unit. split.
  - destruct (resolve_fraction mu sf) as [f|e]; cbn [bind]; [|discriminate].
    destruct sym as [[|x s]|]; try discriminate.
    destruct (sym_taken st (x :: s)) eqn:T; [discriminate|].
    intros H. injection H as <- <-. exists (x :: s), f.
    repeat split; try reflexivity; try assumption. discriminate.
  - intros (s & f & -> & Hs & T & R & -> & ->). rewrite R. cbn [bind].
    destruct s as [|x s]; [contradiction|]. rewrite T. reflexivity.
Qed.

Lemma wf_add st s name f : wf st -> sym_taken st s = false ->
  wf (st_add st (mkCur s name f (st_next st))).
Proof.
  intros [W1 W2 W3 W4] T. destruct (sym_taken_false st s T) as [Hf Hfg].
  pose proof (find_cur_none _ _ Hf) as Hn.
  split; cbn [st_add st_units st_next st_foreign].
  - rewrite map_app. cbn [map c_sym]. apply NoDup_snoc; [exact W1|].
    intros Hin. apply in_map_iff in Hin. destruct Hin as (c & E & Hc). exact (Hn c Hc E).
  - intros c Hc. apply in_app_or in Hc. destruct Hc as [Hc | [<- | []]].
    + pose proof (W2 c Hc). lia.
    + cbn [c_uid]. lia.
  - rewrite map_app. cbn [map c_uid]. apply NoDup_snoc; [exact W3|].
    intros Hin. apply in_map_iff in Hin. destruct Hin as (c & E & Hc).
    pose proof (W2 c Hc). lia.
  - intros c Hc. apply in_app_or in Hc. destruct Hc as [Hc | [<- | []]].
    + apply W4. exact Hc.
    + cbn [c_sym]. exact Hfg.
Qed.

(* MoneyMeta.register_currency succeeds exactly when ... *)
Lemma register_ok_iff t st code c st' :
  register_currency t st code = Ok (c, st') <->
  exists s, code = CodeStr s /\
    ((find_unit st s = Some c /\ st' = st) \/
     (find_unit st s = None /\ exists name minor, iso_lookup t s = Some (name, minor) /\
        new_unit st (SymStr s) (Some name) (MinInt minor) SfNone = Ok (c, st'))).
Proof.
  unfold register_currency. split.
  - destruct code as [s|]; [|discriminate]. destruct (find_unit st s) as [x|] eqn:F.
    + intros H. injection H as <- <-. exists s. split; [reflexivity|]. left. split; [exact F | reflexivity].
    + destruct (iso_lookup t s) as [[name minor]|] eqn:L; [|discriminate].
      intros H. exists s. split; [reflexivity|]. right. split; [exact F|].
      exists name, minor. split; [exact L | exact H].
  - intros (s & -> & [[F ->] | (F & name & minor & L & H)]); rewrite F; [reflexivity|].
    rewrite L. exact H.
Qed.

(* one step: units are only ever appended, well-formedness is kept *)
Lemma run_op_spec t st op : wf st ->
  wf (snd (run_op t st op)) /\
  exists extra, st_units (snd (run_op t st op)) = st_units st ++ extra.
Proof.
  intros W. destruct op as [code | sym name mu sf | s]; cbn [run_op].
  - destruct (register_currency t st code) as [[c st']|e] eqn:R; cbn [snd];
      [|split; [exact W | exists []; symmetry; apply app_nil_r]].
    apply register_ok_iff in R. destruct R as (s & -> & [[F ->] | (F & name & minor & L & H)]).
    + split; [exact W | exists []; symmetry; apply app_nil_r].
    + apply new_unit_ok_iff in H. destruct H as (s' & f & E & Hs & T & R & -> & ->).
      injection E as <-. split; [apply wf_add; assumption | exists [mkCur s (Some name) f (st_next st)]; reflexivity].
  - destruct (new_unit st sym name mu sf) as [[c st']|e] eqn:R; cbn [snd];
      [|split; [exact W | exists []; symmetry; apply app_nil_r]].
    apply new_unit_ok_iff in R. destruct R as (s' & f & E & Hs & T & R & -> & ->).
    split; [apply wf_add; assumption | exists [mkCur s' name f (st_next st)]; reflexivity].
  - destruct s as [|x s]; cbn [snd]; [split; [exact W | exists []; symmetry; apply app_nil_r]|].
    destruct (sym_taken st (x :: s)) eqn:T; cbn [snd];
      [split; [exact W | exists []; symmetry; apply app_nil_r]|].
    split; [|exists []; symmetry; apply app_nil_r].
    destruct W as [W1 W2 W3 W4]. destruct (sym_taken_false st _ T) as [Hf Hfg].
    split; cbn [st_units st_next st_foreign]; try assumption.
    intros c Hc [E | Hin]; [|exact (W4 c Hc Hin)].
    exact (find_cur_none _ _ Hf c Hc (eq_sym E)).
Qed.

Lemma run_spec t ops : forall st, wf st ->
  wf (run t st ops) /\ exists extra, st_units (run t st ops) = st_units st ++ extra.
Proof.
  induction ops as [|op ops IH]; intros st W; cbn [run fold_left].
  - split; [exact W | exists []; symmetry; apply app_nil_r].
  - destruct (run_op_spec t st op W) as (W' & ex1 & E1).
    destruct (IH (step t st op) W') as (W'' & ex2 & E2). split; [exact W''|].
    exists (ex1 ++ ex2). unfold run in E2. rewrite E2. unfold step. rewrite E1.
    symmetry. apply app_assoc.
Qed.

(* states reachable from a fresh interpreter by any history of registrations,
   user-defined currencies and declarations of other classes *)
Definition reachable (t : list isorow) (st : mstate) : Prop :=
  exists fg ops, st = run t (st_init fg) ops.

Lemma reachable_wf t st : reachable t st -> wf st.
Proof. intros (fg & ops & ->). apply run_spec. apply wf_init. Qed.

Lemma reachable_run t st ops : reachable t st -> reachable t (run t st ops).
Proof.
  intros (fg & ops0 & ->). exists fg, (ops0 ++ ops). unfold run. symmetry. apply fold_left_app.
Qed.

(* --- idempotence --- *)

(* registering the symbol of a registered currency returns that very object
   and changes nothing *)
Theorem register_registered t st c : wf st -> In c (st_units st) ->
  register_currency t st (CodeStr (c_sym c)) = Ok (c, st).
Proof.
  intros W Hc. unfold register_currency, find_unit.
  rewrite (find_cur_nodup _ c (wf_syms st W) Hc). reflexivity.
Qed.

Lemma register_result_in t st code c st' : wf st ->
  register_currency t st code = Ok (c, st') ->
  wf st' /\ In c (st_units st') /\ code = CodeStr (c_sym c).
Proof.
  intros W R. apply register_ok_iff in R.
  destruct R as (s & -> & [[F ->] | (F & name & minor & L & H)]).
  - destruct (find_cur_some _ _ _ F) as [Hin <-]. split; [exact W | split; [exact Hin | reflexivity]].
  - apply new_unit_ok_iff in H. destruct H as (s' & f & E & Hs & T & R & -> & ->).
    injection E as <-. split; [apply wf_add; assumption|]. split; [|reflexivity].
    cbn [st_add st_units]. apply in_or_app. right. left. reflexivity.
Qed.

(* second registration: the identical unit, the state unchanged — and the same
   after any further history *)
Theorem register_idempotent t st code c st1 : wf st ->
  register_currency t st code = Ok (c, st1) ->
  register_currency t st1 code = Ok (c, st1) /\
  forall ops, register_currency t (run t st1 ops) code = Ok (c, run t st1 ops).
Proof.
  intros W R. destruct (register_result_in t st code c st1 W R) as (W1 & Hin & ->).
  split; [apply register_registered; assumption|].
  intros ops. destruct (run_spec t ops st1 W1) as (W2 & extra & E).
  apply register_registered; [exact W2|]. rewrite E. apply in_or_app. left. exact Hin.
Qed.

(* two different registered currencies differ in symbol and in identity *)
Theorem registered_distinct st c d : wf st ->
  In c (st_units st) -> In d (st_units st) -> c <> d ->
  c_sym c <> c_sym d /\ c_uid c <> c_uid d.
Proof.
  intros W Hc Hd Hne. split; intros E; apply Hne.
  - exact (map_inj_in c_sym _ c d (wf_syms st W) Hc Hd E).
  - exact (map_inj_in c_uid _ c d (wf_uids st W) Hc Hd E).
Qed.

Lemma registered_by_symbol st c d : wf st ->
  In c (st_units st) -> In d (st_units st) -> c_sym c = c_sym d -> c = d.
Proof. intros W Hc Hd E. exact (map_inj_in c_sym _ c d (wf_syms st W) Hc Hd E). Qed.

(* hence the views of two different registered currencies form a mixed pair
   whenever Money has no converter *)
Theorem registered_mixed_pair ce mc st c d : wf st ->
  In c (st_units st) -> In d (st_units st) -> c_sym c <> c_sym d -> ce mc = [] ->
  mixed_pair ce (cur_unit mc c) (cur_unit mc d).
Proof.
  intros W Hc Hd Hs Hce.
  assert (Hne : c <> d) by (intros ->; apply Hs; reflexivity).
  destruct (registered_distinct st c d W Hc Hd Hne) as [_ Hu].
  split; cbn [cur_unit u_cls u_has_ref u_scale u_id]; try reflexivity.
  - unfold same_cls. cbn. apply N.eqb_refl.
  - unfold same_unit. cbn. apply N.eqb_neq. exact Hu.
  - exact Hce.
Qed.

(* ====================================================================== *)
(* 5. the ISO 4217 table                                                   *)
(* ====================================================================== *)

Lemma pow10_value k : (pow10 k == (10 # 1) ^ k)%Q.
Proof. unfold pow10. apply qpow_ok. Qed.

Lemma pow10_pos k : (0 < pow10 k)%Q.
Proof. rewrite pow10_value. apply Qpower_0_lt. reflexivity. Qed.

Lemma usable_minor (r : isorow) : row_usable r = true -> exists m, row_minor r = Some m.
Proof.
  destruct r as ((((n, c), nm), ok), [m|]); cbn [row_usable row_minor]; intros H.
  - exists m. reflexivity.
  - rewrite andb_false_r in H. discriminate.
Qed.

Lemma iso_lookup_some t s n m : iso_lookup t s = Some (n, m) ->
  exists r, In r t /\ row_usable r = true /\ row_code r = s /\ row_name r = n /\ row_minor r = Some m.
Proof.
  induction t as [|r t IH]; cbn [iso_lookup]; [discriminate|].
  destruct (row_usable r && str_eqb (row_code r) s) eqn:E.
  - apply andb_true_iff in E. destruct E as [U C]. apply str_eqb_eq in C.
    destruct (usable_minor r U) as [m' Hm]. rewrite Hm. intros H. injection H as <- <-.
    exists r. repeat split; try assumption. left. reflexivity.
  - intros H. destruct (IH H) as (r' & Hin & X). exists r'. split; [right; exact Hin | exact X].
Qed.

(* get_currency_info raises ValueError exactly for codes without usable row *)
Lemma iso_lookup_none_iff t s :
  iso_lookup t s = None <-> forall r, In r t -> row_usable r = true -> row_code r <> s.
Proof.
  induction t as [|r t IH]; cbn [iso_lookup].
  - split; [intros _ r [] | reflexivity].
  - destruct (row_usable r && str_eqb (row_code r) s) eqn:E.
    + apply andb_true_iff in E. destruct E as [U C]. apply str_eqb_eq in C.
      destruct (usable_minor r U) as [m' Hm]. rewrite Hm. split; [discriminate|].
      intros H. exfalso. exact (H r (or_introl eq_refl) U C).
    + rewrite IH. split.
      * intros H r' [<- | Hin] U; [|apply H; assumption].
        rewrite U in E. cbn [andb] in E. apply str_eqb_neq. exact E.
      * intros H r' Hin. apply H. right. exact Hin.
Qed.

Lemma resolve_minor_only z : 0 <= z -> resolve_fraction (MinInt z) SfNone = Ok (pow10 (- z)).
Proof.
  intros H. unfold resolve_fraction. destruct (z <? 0) eqn:E; [apply Z.ltb_lt in E; lia | reflexivity].
Qed.

(* first registration of a code of the database, in ANY state where the
   symbol is still free *)
Theorem register_fresh t st s name minor :
  iso_lookup t s = Some (name, minor) -> sym_taken st s = false -> s <> [] -> 0 <= minor ->
  let c := mkCur s (Some name) (pow10 (- minor)) (st_next st) in
  register_currency t st (CodeStr s) = Ok (c, st_add st c).
Proof.
  intros L T Hs Hm c. apply register_ok_iff. exists s. split; [reflexivity|]. right.
  split; [apply (sym_taken_false st s T)|]. exists name, minor. split; [exact L|].
  apply new_unit_ok_iff. exists s, (pow10 (- minor)).
  repeat split; try assumption. apply resolve_minor_only. exact Hm.
Qed.

(* unknown codes: ValueError, nothing changes *)
Theorem unknown_rejected t st :
  (forall s, iso_lookup t s = None -> find_unit st s = None ->
     register_currency t st (CodeStr s) = Err EValueError /\
     step t st (OpRegister (CodeStr s)) = st) /\
  register_currency t st CodeOther = Err EValueError /\
  step t st (OpRegister CodeOther) = st.
Proof.
  split; [|split; reflexivity].
  intros s L F. unfold step, run_op, register_currency. rewrite F, L. split; reflexivity.
Qed.

(* a failing step never changes the registry *)
Theorem failed_step_unchanged t st op e :
  fst (run_op t st op) = Err e -> snd (run_op t st op) = st.
Proof.
  destruct op as [code | sym name mu sf | s]; cbn [run_op].
  - destruct (register_currency t st code) as [[c st']|e']; cbn [fst snd]; [discriminate | reflexivity].
  - destruct (new_unit st sym name mu sf) as [[c st']|e']; cbn [fst snd]; [discriminate | reflexivity].
  - destruct s as [|x s]; cbn [fst snd]; [reflexivity|].
    destruct (sym_taken st (x :: s)); cbn [fst snd]; [reflexivity | discriminate].
Qed.

(* --- the generated table, row by row (finite, complete: vm_compute) --- *)
Definition row_ok (t : list isorow) (r : isorow) : bool :=
  if row_usable r then
    match row_minor r, iso_lookup t (row_code r) with
    | Some m, Some (n, m') =>
        str_eqb n (row_name r) && (m' =? m) && (0 <=? m)
        && negb (str_eqb (row_code r) []) && negb (str_eqb (row_name r) [])
    | _, _ => false
    end
  else match iso_lookup t (row_code r) with None => true | Some _ => false end.

Lemma iso_table_ok : forallb (row_ok iso_table) iso_table = true.
Proof. vm_compute. reflexivity. Qed.

Lemma sym_taken_init_nil s : sym_taken (st_init []) s = false.
Proof. reflexivity. Qed.

Theorem iso_table_registration : forall r, In r iso_table -> row_usable r = true ->
  exists m, row_minor r = Some m /\ 0 <= m /\
  forall st, sym_taken st (row_code r) = false ->
  exists c, register_currency iso_table st (CodeStr (row_code r)) = Ok (c, st_add st c) /\
            c_sym c = row_code r /\ c_name c = Some (row_name r) /\ cur_name c = row_name r /\
            (c_sf c == (10 # 1) ^ (- m))%Q /\ (0 < c_sf c)%Q /\ c_uid c = st_next st.
Proof.
  intros r Hin U. pose proof (proj1 (forallb_forall _ _) iso_table_ok r Hin) as K.
  unfold row_ok in K. rewrite U in K. destruct (row_minor r) as [m|]; [|discriminate].
  destruct (iso_lookup iso_table (row_code r)) as [[n m']|] eqn:L; [|discriminate].
  repeat (apply andb_true_iff in K; destruct K as [K ?]).
  apply str_eqb_eq in K. apply Z.eqb_eq in H2. apply Z.leb_le in H1. subst n m'.
  exists m. split; [reflexivity|]. split; [exact H1|]. intros st T.
  assert (Hs : row_code r <> []).
  { intros E. rewrite E in H0. cbn in H0. discriminate. }
  eexists. split; [apply (register_fresh iso_table st (row_code r) (row_name r) m L T Hs H1)|].
  cbn [c_sym c_name c_sf c_uid]. repeat split.
  - unfold cur_name. cbn [c_name c_sym]. destruct (row_name r); [cbn in H; discriminate | reflexivity].
  - apply pow10_value.
  - apply pow10_pos.
Qed.

Theorem iso_table_rejection : forall r, In r iso_table -> row_usable r = false ->
  forall st, find_unit st (row_code r) = None ->
  register_currency iso_table st (CodeStr (row_code r)) = Err EValueError.
Proof.
  intros r Hin U st F. pose proof (proj1 (forallb_forall _ _) iso_table_ok r Hin) as K.
  unfold row_ok in K. rewrite U in K.
  destruct (iso_lookup iso_table (row_code r)) eqn:L; [discriminate|].
  apply (unknown_rejected iso_table st); assumption.
Qed.

(* ====================================================================== *)
(* 6. user-defined currencies                                              *)
(* ====================================================================== *)

(* which smallest fraction a new currency gets — the rules as the code has
   them.  Note the last case: with minor_unit given, any value with that many
   fractional digits is accepted. *)
Theorem resolve_fraction_ok_iff mu sf f :
  resolve_fraction mu sf = Ok f <->
  (mu = MinNone /\ sf = SfNone /\ f = (1 # 100)%Q) \/
  (exists z, mu = MinInt z /\ 0 <= z /\ sf = SfNone /\ f = pow10 (- z)) \/
  (exists v p, mu = MinNone /\ sf = SfDec v p /\ f = v /\ (0 < v)%Q /\
               exists k, 1 < k /\ (v * inject_Z k == 1)%Q) \/
  (exists z v p, mu = MinInt z /\ 0 <= z /\ sf = SfDec v p /\ z = p /\ f = v).
Proof.
  split.
  - destruct mu as [|z|]; cbn [resolve_fraction]; [| |discriminate].
    + destruct sf as [|v p|e]; [| |discriminate].
      * intros H. injection H as <-. left. repeat split.
      * destruct (qleb v 0) eqn:Lv; [discriminate|].
        destruct ((Z.pos (Qden (qdiv 1 v)) =? 1) && (1 <? Qnum (qdiv 1 v))) eqn:C; [|discriminate].
        intros H. injection H as <-. right. right. left. exists v, p.
        assert (Hv : (0 < v)%Q).
        { apply Qnot_le_lt. intros X. apply qleb_iff in X. rewrite X in Lv. discriminate. }
        repeat split; try exact Hv.
        apply andb_true_iff in C. destruct C as [C1 C2].
        apply Z.eqb_eq in C1. apply Z.ltb_lt in C2.
        exists (Qnum (qdiv 1 v)). split; [exact C2|].
        assert (E : (inject_Z (Qnum (qdiv 1 v)) == 1 / v)%Q).
        { rewrite <- (qdiv_ok 1 v). destruct (qdiv 1 v) as [n d]. cbn [Qnum Qden] in *.
          injection C1 as ->. reflexivity. }
        rewrite E. field. intros Z0. rewrite Z0 in Hv. exact (Qlt_irrefl _ Hv).
    + destruct (z <? 0) eqn:Lz; [discriminate|]. apply Z.ltb_ge in Lz.
      destruct sf as [|v p|e]; [| |discriminate].
      * intros H. injection H as <-. right. left. exists z. repeat split. exact Lz.
      * destruct (z =? p) eqn:E; [|discriminate]. apply Z.eqb_eq in E.
        intros H. injection H as <-. right. right. right. exists z, v, p. repeat split; assumption.
  - intros [(-> & -> & ->) | [(z & -> & Hz & -> & ->) | [(v & p & -> & -> & -> & Hv & k & Hk & E)
                                                       | (z & v & p & -> & Hz & -> & Hp & ->)]]].
    + reflexivity.
    + apply resolve_minor_only. exact Hz.
    + cbn [resolve_fraction].
      assert (Lv : qleb v 0 = false).
      { destruct (qleb v 0) eqn:X; [|reflexivity]. apply qleb_iff in X.
        exfalso. exact (Qlt_irrefl _ (Qlt_le_trans _ _ _ Hv X)). }
      rewrite Lv.
      assert (Nv : ~ (v == 0)%Q) by (intros Z0; rewrite Z0 in Hv; exact (Qlt_irrefl _ Hv)).
      assert (E1 : (1 / v == inject_Z k)%Q).
      { assert (X : (inject_Z k == (v * inject_Z k) / v)%Q) by (field; exact Nv).
        rewrite X, E. reflexivity. }
      assert (E2 : qdiv 1 v = inject_Z k).
      { unfold qdiv. rewrite (Qred_complete _ _ E1). apply Qred_identity.
        cbn. apply Z.gcd_1_r. }
      rewrite E2. cbn [inject_Z Qnum Qden].
      replace (1 <? k) with true by (symmetry; apply Z.ltb_lt; exact Hk). reflexivity.
    + cbn [resolve_fraction]. destruct (z <? 0) eqn:Lz; [apply Z.ltb_lt in Lz; lia|].
      subst p. rewrite Z.eqb_refl. reflexivity.
Qed.

(* consequences for the three validated ways to create a currency: the
   fraction is positive and 1 is an integral multiple (> 1, or = 1 for
   minor_unit 0) of it *)
Theorem new_currency_valid st sym name mu sf c st' :
  new_unit st sym name mu sf = Ok (c, st') ->
  (exists s, sym = SymStr s /\ s <> [] /\ sym_taken st s = false /\ c_sym c = s) /\
  c_name c = name /\ c_uid c = st_next st /\ st' = st_add st c /\
  resolve_fraction mu sf = Ok (c_sf c) /\
  (sf = SfNone \/ mu = MinNone ->
     (0 < c_sf c)%Q /\ exists k, 1 <= k /\ (c_sf c * inject_Z k == 1)%Q).
Proof.
  intros H. apply new_unit_ok_iff in H. destruct H as (s & f & -> & Hs & T & R & -> & ->).
  cbn [c_sym c_name c_uid c_sf]. split; [exists s; repeat split; assumption|].
  repeat split; try assumption.
  - apply resolve_fraction_ok_iff in R.
    destruct R as [(_ & _ & ->) | [(z & _ & Hz & _ & ->) | [(v & p & _ & _ & -> & Hv & _)
                                                       | (z & v & p & -> & _ & -> & _)]]].
    + reflexivity.
    + apply pow10_pos.
    + exact Hv.
    + destruct H as [H | H]; discriminate.
  - apply resolve_fraction_ok_iff in R.
    destruct R as [(_ & _ & ->) | [(z & _ & Hz & _ & ->) | [(v & p & _ & _ & -> & Hv & k & Hk & E)
                                                       | (z & v & p & -> & _ & -> & _)]]].
    + exists 100. split; [lia | reflexivity].
    + exists (10 ^ z). split; [pose proof (Z.pow_pos_nonneg 10 z); lia|].
      rewrite pow10_value, Qpower_opp.
      assert (X : (inject_Z (10 ^ z) == (10 # 1) ^ z)%Q).
      { change (10 # 1)%Q with (inject_Z 10). apply Zpower_Qpower. exact Hz. }
      rewrite X. field. apply Qpower_not_0. discriminate.
    + exists k. split; [lia | exact E].
    + destruct H as [H | H]; discriminate.
Qed.

(* ====================================================================== *)
(* 7. the statements over reachable states                                 *)
(* ====================================================================== *)

Theorem register_registered_reachable t st c : reachable t st -> In c (st_units st) ->
  register_currency t st (CodeStr (c_sym c)) = Ok (c, st) /\
  step t st (OpRegister (CodeStr (c_sym c))) = st.
Proof.
  intros R Hc. pose proof (register_registered t st c (reachable_wf t st R) Hc) as H.
  split; [exact H|]. unfold step, run_op. rewrite H. reflexivity.
Qed.

Theorem register_idempotent_reachable t st code c st1 : reachable t st ->
  register_currency t st code = Ok (c, st1) ->
  register_currency t st1 code = Ok (c, st1) /\
  forall ops, register_currency t (run t st1 ops) code = Ok (c, run t st1 ops).
Proof. intros R. apply register_idempotent. apply (reachable_wf t st R). Qed.

Theorem registered_mixed_reachable t ce mc st c d : reachable t st ->
  In c (st_units st) -> In d (st_units st) -> c_sym c <> c_sym d -> ce mc = [] ->
  mixed_pair ce (cur_unit mc c) (cur_unit mc d).
Proof. intros R. apply registered_mixed_pair. apply (reachable_wf t st R). Qed.

(* one unit per symbol and one identity per unit, in every reachable state *)
Theorem reachable_distinct t st c d : reachable t st ->
  In c (st_units st) -> In d (st_units st) ->
  (c_sym c = c_sym d -> c = d) /\ (c_uid c = c_uid d -> c = d).
Proof.
  intros R Hc Hd. pose proof (reachable_wf t st R) as W. split; intros E.
  - exact (map_inj_in c_sym _ c d (wf_syms st W) Hc Hd E).
  - exact (map_inj_in c_uid _ c d (wf_uids st W) Hc Hd E).
Qed.
