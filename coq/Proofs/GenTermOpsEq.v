(* Proofs/GenTermOpsEq.v — the operator layer of Term GENERATED from
   src/quantity/term.py on every run (Gen/TermOpsImpl.v, translate/termops.py) is
   equal, on all inputs, to the operations of Model/Term.v that the group theorems
   of C07 are about. *)
From Coq Require Import ZArith QArith List Bool.
From QV Require Import Model.Num Model.Dim Model.Term Gen.TermOpsImpl.
Import ListNotations.
Open Scope Z_scope.

Theorem recip_items_impl_eq l : recip_items_impl l = recip_items l.
Proof. reflexivity. Qed.

Theorem term_ops_impl_eq (E : env) (s t : term) (q : Q) (k : Z) :
  term_mul_impl E s t = Some (mul E s t) /\
  term_mul_num_impl E s q = Some (mul_num E s q) /\
  term_div_impl E s t = Some (div E s t) /\
  term_div_num_impl E s q = Some (div_num E s q) /\
  term_rdiv_num_impl E s q = Some (rdiv_num E q s) /\
  term_pow_impl E s k = Some (pow E s k) /\
  term_reciprocal_impl E s = Some (reciprocal s).
Proof. repeat split. Qed.
