From Coq Require Import ZArith List Bool Lia ZifyBool QArith.
From QV Require Import Model.Num Model.Rounding Gen.RoundingImpl Proofs.RoundingCommon Proofs.RoundingImplSpec Proofs.RoundingRef Proofs.RoundingUnique.
Ltac Zify.zify_post_hook ::= Z.to_euclidean_division_equations.
Open Scope Z_scope.

(* ---------- hence: generated implementation = reference ---------------- *)
Theorem floordiv_rounded_eq_ref : forall m x y, 0 < y ->
  floordiv_rounded x y m = Some (rnd_ref_z m x y).
Proof.
  intros m x y Hy.
  destruct (floordiv_rounded_spec m x y Hy) as (n & Hn & Hs).
  rewrite Hn. f_equal.
  exact (RoundsTo_unique m x y n _ Hy Hs (rnd_ref_z_spec m x y Hy)).
Qed.

Theorem quantize_fraction_eq_ref : forall m a quant,
  quantize_fraction a quant m = Some (round_to_quantum m a quant).
Proof.
  intros m a quant. unfold quantize_fraction, round_to_quantum, rnd_ref.
  cbv zeta. rewrite floordiv_rounded_eq_ref by reflexivity. reflexivity.
Qed.
