(* Proofs/GenQuantityEq.v — the quantity-layer functions GENERATED from
   src/quantity/__init__.py on every run (Gen/QuantityImpl.v) are equal, on all
   inputs, to the hand-written model functions of Model/Quantity.v that the
   theorems of C01, C03, C04, C05, C13, C14, C19 are about. *)
From Coq Require Import ZArith QArith List Bool.
From QV Require Import Model.Num Model.Rounding Model.Quantity Gen.QuantityImpl.
Open Scope Z_scope.

Theorem unit_eq_impl_eq u v : unit_eq_impl u v = unit_eq u v.
Proof.
  unfold unit_eq_impl, unit_eq. destruct (same_cls u v); [|reflexivity].
  destruct (u_scale u), (u_scale v); reflexivity.
Qed.

Theorem get_factor_impl_eq u v : get_factor_impl u v = get_factor u v.
Proof.
  unfold get_factor_impl, get_factor. destruct (same_cls u v); [|reflexivity].
  destruct (u_has_ref u); cbn [negb]; [|reflexivity].
  destruct (u_scale u), (u_scale v); reflexivity.
Qed.

(* converter.py: the translated Converter.__call__ / TableConverter._get_factor
   are the model's table_conv whenever the unit belongs to the quantity's type
   (the only way equiv_amount calls a converter); another type's unit raises
   IncompatibleUnitsError *)
Theorem table_call_impl_eq t q to : same_cls (q_unit q) to = true ->
  table_call_impl t q to = Ok (table_conv t q to).
Proof.
  intros C. unfold table_call_impl, table_factor_impl, table_conv. rewrite C.
  destruct (same_unit (q_unit q) to); [reflexivity|].
  destruct (table_get t (u_id (q_unit q)) (u_id to)) as [[f o]|]; [reflexivity|].
  destruct (table_get t (u_id to) (u_id (q_unit q))) as [[f o]|]; reflexivity.
Qed.

Theorem table_call_impl_other_type t q to : same_cls (q_unit q) to = false ->
  same_unit (q_unit q) to = false -> table_call_impl t q to = Err EIncompatibleUnits.
Proof. intros C U. unfold table_call_impl. rewrite C, U. reflexivity. Qed.

Lemma first_answer_eq cs q to : same_cls (q_unit q) to = true ->
  first_answer accept_not_none cs q to = Ok (try_convs cs q to).
Proof.
  intros C. induction cs as [|t r IH]; cbn [first_answer try_convs]; [reflexivity|].
  rewrite (table_call_impl_eq t q to C). cbn [bind].
  destruct (table_conv t q to); cbn [accept_not_none]; [reflexivity | exact IH].
Qed.

Theorem equiv_amount_impl_eq ce q to : equiv_amount_impl ce q to = equiv_amount ce q to.
Proof.
  unfold equiv_amount_impl, equiv_amount. rewrite unit_eq_impl_eq, get_factor_impl_eq.
  destruct (unit_eq (q_unit q) to) as [[|]|e]; cbn [bind]; try reflexivity.
  destruct (get_factor (q_unit q) to) as [[f|]|e] eqn:G; try reflexivity.
  assert (C : same_cls (q_unit q) to = true).
  { unfold get_factor in G. destruct (same_cls (q_unit q) to); [reflexivity|discriminate]. }
  rewrite (first_answer_eq _ q to C). cbn [bind]. destruct (try_convs _ q to); reflexivity.
Qed.

Theorem convert_impl_eq ce dm q to : convert_impl ce dm q to = convert ce dm q to.
Proof.
  unfold convert_impl, convert. rewrite equiv_amount_impl_eq.
  destruct (equiv_amount ce q to) as [[a|]|e]; reflexivity.
Qed.

Theorem qty_eq_impl_eq ce p q : qty_eq_impl ce p q = qty_eq ce p q.
Proof.
  unfold qty_eq_impl, qty_eq. destruct (same_cls (q_unit p) (q_unit q)); [|reflexivity].
  destruct (same_unit (q_unit p) (q_unit q)); [reflexivity|].
  rewrite equiv_amount_impl_eq. destruct (equiv_amount ce q (q_unit p)) as [[a|]|e]; reflexivity.
Qed.

Theorem qty_cmp_impl_eq ce p q op : qty_cmp_impl ce p q op = qty_cmp ce op p q.
Proof.
  unfold qty_cmp_impl, qty_cmp. destruct (same_cls (q_unit p) (q_unit q)); [|reflexivity].
  destruct (same_unit (q_unit p) (q_unit q)); [reflexivity|].
  rewrite equiv_amount_impl_eq. destruct (equiv_amount ce q (q_unit p)) as [[a|]|e]; reflexivity.
Qed.

Theorem unit_cmp_impl_eq u v op : unit_cmp_impl u v op = unit_cmp op u v.
Proof.
  unfold unit_cmp_impl, unit_cmp. rewrite get_factor_impl_eq. unfold get_factor.
  destruct (same_cls u v); [|reflexivity].
  destruct (u_has_ref u); [|reflexivity].
  destruct (u_scale u), (u_scale v); reflexivity.
Qed.

Theorem qty_add_impl_eq ce dm p q : qty_add_impl ce dm p q = qty_add ce dm p q.
Proof.
  unfold qty_add_impl, qty_add, qty_addsub. destruct (same_cls (q_unit p) (q_unit q)); [|reflexivity].
  rewrite unit_eq_impl_eq. destruct (unit_eq (q_unit p) (q_unit q)) as [[|]|e]; cbn [bind]; try reflexivity.
  rewrite equiv_amount_impl_eq. destruct (equiv_amount ce q (q_unit p)) as [[a|]|e]; reflexivity.
Qed.

Theorem qty_sub_impl_eq ce dm p q : qty_sub_impl ce dm p q = qty_sub ce dm p q.
Proof.
  unfold qty_sub_impl, qty_sub, qty_addsub. destruct (same_cls (q_unit p) (q_unit q)); [|reflexivity].
  rewrite unit_eq_impl_eq. destruct (unit_eq (q_unit p) (q_unit q)) as [[|]|e]; cbn [bind]; try reflexivity.
  rewrite equiv_amount_impl_eq. destruct (equiv_amount ce q (q_unit p)) as [[a|]|e]; reflexivity.
Qed.
