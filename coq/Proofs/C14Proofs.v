(* C14: table (affine) converters are exact, invertible and mutually
   consistent. *)
From Coq Require Import ZArith QArith Qabs List Bool Lia Lqa Qreduction.
From QV Require Import Model.Num Model.Rounding Gen.RoundingImpl Model.Quantity
     Model.Table Gen.TempTable Proofs.QuantityProofs.
Open Scope Q_scope.

(* ---------------- units of table-converted types ------------------------- *)
Lemma tunit_spec u : tunit u = true ->
  u_has_ref u = false /\ u_scale u = None /\ u_quantum u = None.
Proof.
  unfold tunit. destruct (u_has_ref u); simpl; [discriminate|].
  destruct (u_scale u); simpl; [discriminate|].
  destruct (u_quantum u); simpl; [discriminate|]. auto.
Qed.

(* neither direction of the pair is tabulated: the converter answers None *)
Definition silent (t : table) (u v : unit) : Prop :=
  table_get t (u_id u) (u_id v) = None /\ table_get t (u_id v) (u_id u) = None.

Lemma table_conv_silent t q v : same_unit (q_unit q) v = false ->
  silent t (q_unit q) v -> table_conv t q v = None.
Proof. intros Hs [H1 H2]. unfold table_conv. rewrite Hs, H1, H2. reflexivity. Qed.

Lemma try_convs_silent pre rest q v : same_unit (q_unit q) v = false ->
  Forall (fun t => silent t (q_unit q) v) pre ->
  try_convs (pre ++ rest) q v = try_convs rest q v.
Proof.
  intros Hs H. induction H as [|t pre Ht _ IH]; [reflexivity|].
  simpl. rewrite (table_conv_silent t q v Hs Ht). exact IH.
Qed.

(* equiv_amount between units of a table-converted type *)
Lemma equiv_amount_tab ce q v :
  tunit (q_unit q) = true -> tunit v = true -> same_cls (q_unit q) v = true ->
  equiv_amount ce q v =
  Ok (if same_unit (q_unit q) v then Some (q_amt q)
      else try_convs (ce (u_cls (q_unit q))) q v).
Proof.
  intros Hu Hv Hc. destruct (tunit_spec _ Hu) as (Ru & Su & _), (tunit_spec _ Hv) as (_ & Sv & _).
  unfold equiv_amount, unit_eq, get_factor. rewrite Hc, Su, Sv, Ru. cbn [bind].
  destruct (same_unit (q_unit q) v); reflexivity.
Qed.

Lemma convert_tab ce dm q v o :
  tunit (q_unit q) = true -> tunit v = true -> same_cls (q_unit q) v = true ->
  (if same_unit (q_unit q) v then Some (q_amt q)
   else try_convs (ce (u_cls (q_unit q))) q v) = o ->
  convert ce dm q v = match o with Some a => Ok (mk_qty dm a v) | None => Err EUnitConversion end.
Proof.
  intros Hu Hv Hc E. unfold convert. rewrite (equiv_amount_tab ce q v Hu Hv Hc), E. reflexivity.
Qed.

Lemma mk_qty_tab dm a v : tunit v = true ->
  q_unit (mk_qty dm a v) = v /\ q_amt (mk_qty dm a v) == a.
Proof.
  intros Hv. destruct (tunit_spec _ Hv) as (_ & _ & Qv). split.
  - apply mk_qty_unit.
  - apply mk_qty_noquantum. exact Qv.
Qed.

(* ---------------- forward and reverse formula ---------------------------- *)
(* several stacked converters: most recently registered first; the first one
   that tabulates the pair (in either direction) decides, whatever follows *)
Theorem conv_forward ce dm a u v pre t post f o :
  tunit u = true -> tunit v = true -> same_cls u v = true -> same_unit u v = false ->
  ce (u_cls u) = pre ++ t :: post ->
  Forall (fun t' => silent t' u v) pre ->
  table_get t (u_id u) (u_id v) = Some (f, o) ->
  exists r, convert ce dm (mkQty a u) v = Ok r /\ q_unit r = v /\
            q_amt r == a * f + o.
Proof.
  intros Hu Hv Hc Hs Hce Hpre Hg.
  eexists. split.
  - apply (convert_tab ce dm (mkQty a u) v (Some (qadd (qmul f a) o))); auto.
    cbn [q_unit q_amt]. rewrite Hs, Hce.
    rewrite (try_convs_silent pre (t :: post) (mkQty a u) v Hs Hpre).
    cbn [try_convs]. unfold table_conv. cbn [q_unit q_amt]. rewrite Hs, Hg. reflexivity.
  - destruct (mk_qty_tab dm (qadd (qmul f a) o) v Hv) as [E1 E2]. split; [exact E1|].
    rewrite E2, qadd_ok, qmul_ok. ring.
Qed.

Theorem conv_reverse ce dm a u v pre t post f o :
  tunit u = true -> tunit v = true -> same_cls u v = true -> same_unit u v = false ->
  ce (u_cls u) = pre ++ t :: post ->
  Forall (fun t' => silent t' u v) pre ->
  table_get t (u_id u) (u_id v) = None ->
  table_get t (u_id v) (u_id u) = Some (f, o) -> ~ f == 0 ->
  exists r, convert ce dm (mkQty a u) v = Ok r /\ q_unit r = v /\
            q_amt r == (a - o) / f /\ q_amt r * f + o == a.
Proof.
  intros Hu Hv Hc Hs Hce Hpre Hg1 Hg2 Hf.
  eexists. split.
  - apply (convert_tab ce dm (mkQty a u) v (Some (qdiv (qsub a o) f))); auto.
    cbn [q_unit q_amt]. rewrite Hs, Hce.
    rewrite (try_convs_silent pre (t :: post) (mkQty a u) v Hs Hpre).
    cbn [try_convs]. unfold table_conv. cbn [q_unit q_amt]. rewrite Hs, Hg1, Hg2. reflexivity.
  - destruct (mk_qty_tab dm (qdiv (qsub a o) f) v Hv) as [E1 E2]. split; [exact E1|].
    assert (E : q_amt (mk_qty dm (qdiv (qsub a o) f) v) == (a - o) / f).
    { rewrite E2, qdiv_ok, qsub_ok. reflexivity. }
    split; [exact E|]. rewrite E. field. exact Hf.
Qed.

Lemma same_unit_sym u v : same_unit u v = same_unit v u.
Proof. unfold same_unit. apply N.eqb_sym. Qed.
Lemma same_cls_sym u v : same_cls u v = same_cls v u.
Proof. unfold same_cls. apply N.eqb_sym. Qed.
Lemma same_cls_id u v : same_cls u v = true -> u_cls u = u_cls v.
Proof. unfold same_cls. apply N.eqb_eq. Qed.

Lemma silent_sym t u v : silent t u v -> silent t v u.
Proof. intros [A B]. split; assumption. Qed.

(* only the opposite direction tabulated: converting there (reverse formula)
   and back (forward formula, the tabulated row) returns the amount *)
Theorem conv_reverse_roundtrip ce dm a u v pre t post f o :
  tunit u = true -> tunit v = true -> same_cls u v = true -> same_unit u v = false ->
  ce (u_cls u) = pre ++ t :: post ->
  Forall (fun t' => silent t' u v) pre ->
  table_get t (u_id u) (u_id v) = None ->
  table_get t (u_id v) (u_id u) = Some (f, o) -> ~ f == 0 ->
  exists r r', convert ce dm (mkQty a u) v = Ok r /\ convert ce dm r u = Ok r' /\
               q_unit r' = u /\ q_amt r' == a.
Proof.
  intros Hu Hv Hc Hs Hce Hpre Hg1 Hg2 Hf.
  destruct (conv_reverse ce dm a u v pre t post f o Hu Hv Hc Hs Hce Hpre Hg1 Hg2 Hf)
    as (r & Hr & Ur & _ & Ar).
  destruct r as [ra ru]. cbn [q_unit q_amt] in *. subst ru.
  assert (Hc' : same_cls v u = true) by (rewrite same_cls_sym; exact Hc).
  assert (Hs' : same_unit v u = false) by (rewrite same_unit_sym; exact Hs).
  assert (Hce' : ce (u_cls v) = pre ++ t :: post) by (rewrite <- (same_cls_id u v Hc); exact Hce).
  assert (Hpre' : Forall (fun t' => silent t' v u) pre).
  { eapply Forall_impl; [|exact Hpre]. intros t'. apply silent_sym. }
  destruct (conv_forward ce dm ra v u pre t post f o Hv Hu Hc' Hs' Hce' Hpre' Hg2)
    as (r' & Hr' & Ur' & Ar').
  exists (mkQty ra v), r'. repeat split; try assumption.
  rewrite Ar'. exact Ar.
Qed.

(* ---------------- no applicable converter -------------------------------- *)
Lemma try_convs_all_silent cs q v : same_unit (q_unit q) v = false ->
  Forall (fun t => silent t (q_unit q) v) cs -> try_convs cs q v = None.
Proof.
  intros Hs H. rewrite <- (app_nil_r cs). rewrite (try_convs_silent cs [] q v Hs H). reflexivity.
Qed.

Theorem conv_none ce dm op a u b v :
  tunit u = true -> tunit v = true -> same_cls u v = true -> same_unit u v = false ->
  Forall (fun t => silent t u v) (ce (u_cls u)) ->
  convert ce dm (mkQty a u) v = Err EUnitConversion /\
  qty_eq ce (mkQty b v) (mkQty a u) = Ok false /\
  qty_cmp ce op (mkQty b v) (mkQty a u) = Err EUnitConversion.
Proof.
  intros Hu Hv Hc Hs Hall.
  assert (E : equiv_amount ce (mkQty a u) v = Ok None).
  { rewrite (equiv_amount_tab ce (mkQty a u) v Hu Hv Hc). cbn [q_unit q_amt]. rewrite Hs.
    rewrite (try_convs_all_silent _ (mkQty a u) v Hs Hall). reflexivity. }
  unfold convert, qty_eq, qty_cmp. cbn [q_unit q_amt].
  rewrite (same_cls_sym v u), Hc, (same_unit_sym v u), Hs, E. cbn [bind]. auto.
Qed.

(* ---------------- equality and ordering ---------------------------------- *)
Lemma cmp_q_compat op a b b' : b == b' -> cmp_q op a b = cmp_q op a b'.
Proof.
  intros E. destruct op; cbn [cmp_q].
  - destruct (qltb a b) eqn:X, (qltb a b') eqn:Y; try reflexivity.
    + apply qltb_iff in X. rewrite E in X. apply qltb_iff in X. congruence.
    + apply qltb_iff in Y. rewrite <- E in Y. apply qltb_iff in Y. congruence.
  - destruct (qleb a b) eqn:X, (qleb a b') eqn:Y; try reflexivity.
    + apply qleb_iff in X. rewrite E in X. apply qleb_iff in X. congruence.
    + apply qleb_iff in Y. rewrite <- E in Y. apply qleb_iff in Y. congruence.
  - destruct (qltb b a) eqn:X, (qltb b' a) eqn:Y; try reflexivity.
    + apply qltb_iff in X. rewrite E in X. apply qltb_iff in X. congruence.
    + apply qltb_iff in Y. rewrite <- E in Y. apply qltb_iff in Y. congruence.
  - destruct (qleb b a) eqn:X, (qleb b' a) eqn:Y; try reflexivity.
    + apply qleb_iff in X. rewrite E in X. apply qleb_iff in X. congruence.
    + apply qleb_iff in Y. rewrite <- E in Y. apply qleb_iff in Y. congruence.
Qed.

(* p == q, p < q ... : the RIGHT operand is converted to the LEFT operand's
   unit, then the amounts are compared *)
Theorem eq_order_converted ce dm p q r :
  tunit (q_unit p) = true -> tunit (q_unit q) = true ->
  same_cls (q_unit p) (q_unit q) = true ->
  convert ce dm q (q_unit p) = Ok r ->
  qty_eq ce p q = Ok (qeqb (q_amt p) (q_amt r)) /\
  forall op, qty_cmp ce op p q = Ok (cmp_q op (q_amt p) (q_amt r)).
Proof.
  intros Hp Hq Hc Hr.
  assert (Hc' : same_cls (q_unit q) (q_unit p) = true) by (rewrite same_cls_sym; exact Hc).
  unfold convert in Hr. rewrite (equiv_amount_tab ce q (q_unit p) Hq Hp Hc') in Hr.
  unfold qty_eq, qty_cmp. rewrite Hc, (equiv_amount_tab ce q (q_unit p) Hq Hp Hc').
  rewrite (same_unit_sym (q_unit p) (q_unit q)). cbn [bind] in *.
  destruct (same_unit (q_unit q) (q_unit p)).
  - injection Hr as Hr. subst r.
    destruct (mk_qty_tab dm (q_amt q) (q_unit p) Hp) as [_ E]. split.
    + rewrite E. reflexivity.
    + intros op. rewrite (cmp_q_compat op _ _ _ E). reflexivity.
  - destruct (try_convs (ce (u_cls (q_unit q))) q (q_unit p)) as [e|]; [|discriminate].
    injection Hr as Hr. subst r.
    destruct (mk_qty_tab dm e (q_unit p) Hp) as [_ E]. split.
    + rewrite E. reflexivity.
    + intros op. rewrite (cmp_q_compat op _ _ _ E). reflexivity.
Qed.

(* ---------------- the affine map of a table is what convert applies ------- *)
Lemma aff_sound ce dm q v t rest f o :
  tunit (q_unit q) = true -> tunit v = true -> same_cls (q_unit q) v = true ->
  ce (u_cls (q_unit q)) = t :: rest ->
  aff t (u_id (q_unit q)) (u_id v) = Some (f, o) ->
  exists r, convert ce dm q v = Ok r /\ q_unit r = v /\ q_amt r == q_amt q * f + o.
Proof.
  intros Hu Hv Hc Hce Ha. unfold aff in Ha.
  assert (Hsu : same_unit (q_unit q) v = N.eqb (u_id (q_unit q)) (u_id v)) by reflexivity.
  destruct (N.eqb (u_id (q_unit q)) (u_id v)) eqn:Eid.
  - injection Ha as Hf Ho. subst f o.
    eexists. split.
    + apply (convert_tab ce dm q v (Some (q_amt q))); auto. rewrite Hsu. reflexivity.
    + destruct (mk_qty_tab dm (q_amt q) v Hv) as [E1 E2]. split; [exact E1|]. rewrite E2. ring.
  - destruct (table_get t (u_id (q_unit q)) (u_id v)) as [[f1 o1]|] eqn:G1.
    + injection Ha as Hf Ho. subst f1 o1.
      eexists. split.
      * apply (convert_tab ce dm q v (Some (qadd (qmul f (q_amt q)) o))); auto.
        rewrite Hsu, Hce. cbn [try_convs]. unfold table_conv. rewrite Hsu, G1. reflexivity.
      * destruct (mk_qty_tab dm (qadd (qmul f (q_amt q)) o) v Hv) as [E1 E2].
        split; [exact E1|]. rewrite E2, qadd_ok, qmul_ok. ring.
    + destruct (table_get t (u_id v) (u_id (q_unit q))) as [[f2 o2]|] eqn:G2; [|discriminate].
      destruct (qzero f2) eqn:Z; [discriminate|]. apply qzero_false in Z.
      injection Ha as Hf Ho. subst f o.
      eexists. split.
      * apply (convert_tab ce dm q v (Some (qdiv (qsub (q_amt q) o2) f2))); auto.
        rewrite Hsu, Hce. cbn [try_convs]. unfold table_conv. rewrite Hsu, G1, G2. reflexivity.
      * destruct (mk_qty_tab dm (qdiv (qsub (q_amt q) o2) f2) v Hv) as [E1 E2].
        split; [exact E1|]. rewrite E2. rewrite !qdiv_ok, qsub_ok. unfold qneg. field. exact Z.
Qed.

(* ---------------- consistency => round trip and triangle ----------------- *)
Lemma aff_eqb_spec m1 m2 : aff_eqb m1 m2 = true -> fst m1 == fst m2 /\ snd m1 == snd m2.
Proof.
  unfold aff_eqb. intros H. apply andb_true_iff in H. destruct H as [A B].
  apply qeqb_iff in A. apply qeqb_iff in B. auto.
Qed.

Lemma aff_comp_spec f1 o1 f2 o2 :
  fst (aff_comp (f1, o1) (f2, o2)) == f1 * f2 /\
  snd (aff_comp (f1, o1) (f2, o2)) == o1 * f2 + o2.
Proof. unfold aff_comp. cbn [fst snd]. rewrite qadd_ok, !qmul_ok. split; reflexivity. Qed.

Lemma units_ok_spec us u v : units_ok us = true -> In u us -> In v us ->
  tunit u = true /\ tunit v = true /\ same_cls u v = true.
Proof.
  unfold units_ok. intros H Iu Iv. apply andb_true_iff in H. destruct H as [A B].
  rewrite forallb_forall in A, B. repeat split; try (apply A; assumption).
  specialize (B u Iu). rewrite forallb_forall in B. apply B. exact Iv.
Qed.

(* what the predicate says for one pair / one triple *)
Lemma consistent_pair t us u v : table_consistent t us = true -> In u us -> In v us ->
  exists f o f' o', aff t (u_id u) (u_id v) = Some (f, o) /\
                    aff t (u_id v) (u_id u) = Some (f', o') /\
                    f * f' == 1 /\ o * f' + o' == 0.
Proof.
  unfold table_consistent. intros H Iu Iv. rewrite forallb_forall in H.
  specialize (H u Iu). rewrite forallb_forall in H. specialize (H v Iv).
  unfold pair_consistent in H.
  destruct (aff t (u_id u) (u_id v)) as [[f o]|]; [|discriminate].
  destruct (aff t (u_id v) (u_id u)) as [[f' o']|]; [|discriminate].
  apply andb_true_iff in H. destruct H as [H _].
  apply aff_eqb_spec in H. destruct H as [A B].
  destruct (aff_comp_spec f o f' o') as [C D]. rewrite C in A. rewrite D in B.
  exists f, o, f', o'. cbn [fst snd aff_id] in A, B. auto.
Qed.

Lemma consistent_triple t us u w v : table_consistent t us = true ->
  In u us -> In w us -> In v us ->
  exists f o f1 o1 f2 o2, aff t (u_id u) (u_id v) = Some (f, o) /\
     aff t (u_id u) (u_id w) = Some (f1, o1) /\ aff t (u_id w) (u_id v) = Some (f2, o2) /\
     f1 * f2 == f /\ o1 * f2 + o2 == o.
Proof.
  unfold table_consistent. intros H Iu Iw Iv. rewrite forallb_forall in H.
  specialize (H u Iu). rewrite forallb_forall in H. specialize (H v Iv).
  unfold pair_consistent in H.
  destruct (aff t (u_id u) (u_id v)) as [[f o]|]; [|discriminate].
  destruct (aff t (u_id v) (u_id u)) as [[f' o']|]; [|discriminate].
  apply andb_true_iff in H. destruct H as [_ H]. rewrite forallb_forall in H.
  specialize (H w Iw).
  destruct (aff t (u_id u) (u_id w)) as [[f1 o1]|]; [|discriminate].
  destruct (aff t (u_id w) (u_id v)) as [[f2 o2]|]; [|discriminate].
  apply aff_eqb_spec in H. destruct H as [A B].
  destruct (aff_comp_spec f1 o1 f2 o2) as [C D]. rewrite C in A. rewrite D in B.
  exists f, o, f1, o1, f2, o2. cbn [fst snd] in A, B. auto.
Qed.

(* the consistent table answers for every pair, so converters registered
   earlier (rest) are never consulted *)
Theorem consistent_convert ce dm t rest us a u v :
  units_ok us = true -> table_consistent t us = true -> In u us -> In v us ->
  ce (u_cls u) = t :: rest ->
  exists f o r, aff t (u_id u) (u_id v) = Some (f, o) /\
                convert ce dm (mkQty a u) v = Ok r /\ q_unit r = v /\ q_amt r == a * f + o.
Proof.
  intros Hus Hcons Iu Iv Hce.
  destruct (units_ok_spec us u v Hus Iu Iv) as (Hu & Hv & Hc).
  destruct (consistent_pair t us u v Hcons Iu Iv) as (f & o & f' & o' & A & _).
  destruct (aff_sound ce dm (mkQty a u) v t rest f o Hu Hv Hc Hce A) as (r & R1 & R2 & R3).
  exists f, o, r. auto.
Qed.

Theorem consistent_roundtrip ce dm t rest us a u v :
  units_ok us = true -> table_consistent t us = true -> In u us -> In v us ->
  ce (u_cls u) = t :: rest ->
  exists r r', convert ce dm (mkQty a u) v = Ok r /\ convert ce dm r u = Ok r' /\
               q_unit r = v /\ q_unit r' = u /\ q_amt r' == a.
Proof.
  intros Hus Hcons Iu Iv Hce.
  destruct (units_ok_spec us u v Hus Iu Iv) as (Hu & Hv & Hc).
  destruct (consistent_pair t us u v Hcons Iu Iv) as (f & o & f' & o' & A & A' & E1 & E2).
  destruct (aff_sound ce dm (mkQty a u) v t rest f o Hu Hv Hc Hce A) as (r & R1 & R2 & R3).
  destruct r as [ra ru]. cbn [q_unit q_amt] in *. subst ru.
  assert (Hc' : same_cls v u = true) by (rewrite same_cls_sym; exact Hc).
  assert (Hce' : ce (u_cls v) = t :: rest) by (rewrite <- (same_cls_id u v Hc); exact Hce).
  destruct (aff_sound ce dm (mkQty ra v) u t rest f' o' Hv Hu Hc' Hce' A') as (r' & S1 & S2 & S3).
  exists (mkQty ra v), r'. repeat split; try assumption.
  cbn [q_amt] in S3. rewrite S3, R3.
  transitivity (a * (f * f') + (o * f' + o')); [ring|]. rewrite E1, E2. ring.
Qed.

Theorem consistent_via ce dm t rest us a u w v :
  units_ok us = true -> table_consistent t us = true ->
  In u us -> In w us -> In v us ->
  ce (u_cls u) = t :: rest ->
  exists r1 r2 r, convert ce dm (mkQty a u) w = Ok r1 /\ convert ce dm r1 v = Ok r2 /\
                  convert ce dm (mkQty a u) v = Ok r /\
                  q_unit r2 = v /\ q_unit r = v /\ q_amt r2 == q_amt r.
Proof.
  intros Hus Hcons Iu Iw Iv Hce.
  destruct (units_ok_spec us u v Hus Iu Iv) as (Hu & Hv & Hc).
  destruct (units_ok_spec us u w Hus Iu Iw) as (_ & Hw & Hcw).
  destruct (units_ok_spec us w v Hus Iw Iv) as (_ & _ & Hwv).
  destruct (consistent_triple t us u w v Hcons Iu Iw Iv)
    as (f & o & f1 & o1 & f2 & o2 & A & A1 & A2 & E1 & E2).
  destruct (aff_sound ce dm (mkQty a u) w t rest f1 o1 Hu Hw Hcw Hce A1) as (r1 & R1 & R2 & R3).
  destruct r1 as [ra ru]. cbn [q_unit q_amt] in *. subst ru.
  assert (Hce' : ce (u_cls w) = t :: rest) by (rewrite <- (same_cls_id u w Hcw); exact Hce).
  destruct (aff_sound ce dm (mkQty ra w) v t rest f2 o2 Hw Hv Hwv Hce' A2) as (r2 & S1 & S2 & S3).
  destruct (aff_sound ce dm (mkQty a u) v t rest f o Hu Hv Hc Hce A) as (r & T1 & T2 & T3).
  exists (mkQty ra w), r2, r. repeat split; try assumption.
  cbn [q_amt] in S3, T3. rewrite S3, T3, R3, <- E1, <- E2. ring.
Qed.

(* equality / ordering across units = comparison of both operands converted
   to ANY common unit (ordering: when the maps are increasing) *)
Lemma increasing_pair t us u v : table_increasing t us = true -> In u us -> In v us ->
  forall f o, aff t (u_id u) (u_id v) = Some (f, o) -> 0 < f.
Proof.
  unfold table_increasing. intros H Iu Iv f o A. rewrite forallb_forall in H.
  specialize (H u Iu). rewrite forallb_forall in H. specialize (H v Iv).
  rewrite A in H. cbn [fst] in H. apply qltb_iff in H. exact H.
Qed.

Lemma qeqb_affine a x f o : ~ f == 0 -> qeqb a x = qeqb (a * f + o) (x * f + o).
Proof.
  intros Hf. destruct (qeqb a x) eqn:X, (qeqb (a * f + o) (x * f + o)) eqn:Y; try reflexivity.
  - apply qeqb_iff in X. apply qeqb_false in Y. exfalso. apply Y. rewrite X. reflexivity.
  - apply qeqb_false in X. apply qeqb_iff in Y. exfalso. apply X.
    assert (E : a * f == x * f) by lra.
    apply (Qmult_inj_r a x f Hf). exact E.
Qed.

Lemma cmp_q_affine op a x f o : 0 < f -> cmp_q op a x = cmp_q op (a * f + o) (x * f + o).
Proof.
  intros Hf.
  assert (L : forall p q, p < q <-> p * f + o < q * f + o).
  { intros p q. split; intros H; nra. }
  assert (M : forall p q, p <= q <-> p * f + o <= q * f + o).
  { intros p q. split; intros H; nra. }
  destruct op; cbn [cmp_q].
  - destruct (qltb a x) eqn:X, (qltb (a * f + o) (x * f + o)) eqn:Y; try reflexivity.
    + apply qltb_iff in X. apply L in X. apply qltb_iff in X. congruence.
    + apply qltb_iff in Y. apply L in Y. apply qltb_iff in Y. congruence.
  - destruct (qleb a x) eqn:X, (qleb (a * f + o) (x * f + o)) eqn:Y; try reflexivity.
    + apply qleb_iff in X. apply M in X. apply qleb_iff in X. congruence.
    + apply qleb_iff in Y. apply M in Y. apply qleb_iff in Y. congruence.
  - destruct (qltb x a) eqn:X, (qltb (x * f + o) (a * f + o)) eqn:Y; try reflexivity.
    + apply qltb_iff in X. apply L in X. apply qltb_iff in X. congruence.
    + apply qltb_iff in Y. apply L in Y. apply qltb_iff in Y. congruence.
  - destruct (qleb x a) eqn:X, (qleb (x * f + o) (a * f + o)) eqn:Y; try reflexivity.
    + apply qleb_iff in X. apply M in X. apply qleb_iff in X. congruence.
    + apply qleb_iff in Y. apply M in Y. apply qleb_iff in Y. congruence.
Qed.

Lemma cmp_q_compat_l op a a' b : a == a' -> cmp_q op a b = cmp_q op a' b.
Proof.
  intros E.
  assert (S : forall o x y, cmp_q o x y = cmp_q (match o with CLt => CGt | CLe => CGe | CGt => CLt | CGe => CLe end) y x).
  { intros o x y. destruct o; reflexivity. }
  rewrite (S op a b), (S op a' b). apply cmp_q_compat. exact E.
Qed.

Theorem consistent_eq_order ce dm t rest us a u b v w :
  units_ok us = true -> table_consistent t us = true ->
  In u us -> In v us -> In w us ->
  ce (u_cls u) = t :: rest ->
  exists ra rb, convert ce dm (mkQty a u) w = Ok ra /\ convert ce dm (mkQty b v) w = Ok rb /\
    qty_eq ce (mkQty a u) (mkQty b v) = Ok (qeqb (q_amt ra) (q_amt rb)) /\
    (table_increasing t us = true ->
     forall op, qty_cmp ce op (mkQty a u) (mkQty b v) = Ok (cmp_q op (q_amt ra) (q_amt rb))).
Proof.
  intros Hus Hcons Iu Iv Iw Hce.
  destruct (units_ok_spec us u v Hus Iu Iv) as (Hu & Hv & Hc).
  destruct (units_ok_spec us u w Hus Iu Iw) as (_ & Hw & Hcw).
  destruct (units_ok_spec us v w Hus Iv Iw) as (_ & _ & Hvw).
  destruct (units_ok_spec us v u Hus Iv Iu) as (_ & _ & Hvu).
  assert (Hce' : ce (u_cls v) = t :: rest) by (rewrite <- (same_cls_id u v Hc); exact Hce).
  (* v -> u -> w versus v -> w *)
  destruct (consistent_triple t us v u w Hcons Iv Iu Iw)
    as (f & o & f1 & o1 & f2 & o2 & A & A1 & A2 & E1 & E2).
  destruct (consistent_pair t us u w Hcons Iu Iw) as (g & og & g' & og' & B & _ & G1 & _).
  rewrite B in A2. injection A2 as Hg Hog. subst g og.
  destruct (aff_sound ce dm (mkQty a u) w t rest f2 o2 Hu Hw Hcw Hce B) as (ra & Ra1 & _ & Ra3).
  destruct (aff_sound ce dm (mkQty b v) w t rest f o Hv Hw Hvw Hce' A) as (rb & Rb1 & _ & Rb3).
  destruct (aff_sound ce dm (mkQty b v) u t rest f1 o1 Hv Hu Hvu Hce' A1) as (rc & Rc1 & _ & Rc3).
  destruct (eq_order_converted ce dm (mkQty a u) (mkQty b v) rc Hu Hv Hc Rc1) as [Q1 Q2].
  cbn [q_amt q_unit] in *.
  assert (Hf2 : ~ f2 == 0).
  { intros Z. rewrite Z in G1. lra. }
  assert (Eb : q_amt rb == q_amt rc * f2 + o2).
  { rewrite Rb3, Rc3, <- E1, <- E2. ring. }
  exists ra, rb. split; [exact Ra1|]. split; [exact Rb1|]. split.
  - rewrite Q1. f_equal. rewrite Ra3, Eb. apply qeqb_affine. exact Hf2.
  - intros Hinc op. rewrite Q2. f_equal.
    rewrite (cmp_q_compat op _ _ _ Eb), (cmp_q_compat_l op _ _ _ Ra3).
    apply cmp_q_affine. apply (increasing_pair t us u w Hinc Iu Iw f2 o2 B).
Qed.

(* ---------------- the generated temperature table ------------------------ *)
Theorem temp_units_ok : units_ok temp_units = true.
Proof. vm_compute. reflexivity. Qed.
Theorem temp_table_consistent : table_consistent temp_table temp_units = true.
Proof. vm_compute. reflexivity. Qed.
Theorem temp_table_increasing : table_increasing temp_table temp_units = true.
Proof. vm_compute. reflexivity. Qed.

Lemma temp_env_cls u : In u temp_units -> temp_env (u_cls u) = temp_table :: [].
Proof.
  intros H. cbn [temp_units In] in H.
  destruct H as [H|[H|[H|[]]]]; subst u; reflexivity.
Qed.

Theorem temp_roundtrip dm a u v : In u temp_units -> In v temp_units ->
  exists r r', convert temp_env dm (mkQty a u) v = Ok r /\ convert temp_env dm r u = Ok r' /\
               q_unit r = v /\ q_unit r' = u /\ q_amt r' == a.
Proof.
  intros Iu Iv.
  exact (consistent_roundtrip temp_env dm temp_table [] temp_units a u v
           temp_units_ok temp_table_consistent Iu Iv (temp_env_cls u Iu)).
Qed.

Theorem temp_via dm a u w v : In u temp_units -> In w temp_units -> In v temp_units ->
  exists r1 r2 r, convert temp_env dm (mkQty a u) w = Ok r1 /\ convert temp_env dm r1 v = Ok r2 /\
                  convert temp_env dm (mkQty a u) v = Ok r /\
                  q_unit r2 = v /\ q_unit r = v /\ q_amt r2 == q_amt r.
Proof.
  intros Iu Iw Iv.
  exact (consistent_via temp_env dm temp_table [] temp_units a u w v
           temp_units_ok temp_table_consistent Iu Iw Iv (temp_env_cls u Iu)).
Qed.

Theorem temp_eq_order dm a u b v w : In u temp_units -> In v temp_units -> In w temp_units ->
  exists ra rb, convert temp_env dm (mkQty a u) w = Ok ra /\
    convert temp_env dm (mkQty b v) w = Ok rb /\
    qty_eq temp_env (mkQty a u) (mkQty b v) = Ok (qeqb (q_amt ra) (q_amt rb)) /\
    forall op, qty_cmp temp_env op (mkQty a u) (mkQty b v) = Ok (cmp_q op (q_amt ra) (q_amt rb)).
Proof.
  intros Iu Iv Iw.
  destruct (consistent_eq_order temp_env dm temp_table [] temp_units a u b v w
              temp_units_ok temp_table_consistent Iu Iv Iw (temp_env_cls u Iu))
    as (ra & rb & H1 & H2 & H3 & H4).
  exists ra, rb. repeat split; try assumption. apply H4. exact temp_table_increasing.
Qed.

(* defining fixed points, computed through the model's convert / qty_eq *)
Definition conv_is (dm : mode) (a : Q) (u v : unit) (b : Q) : Prop :=
  exists r, convert temp_env dm (mkQty a u) v = Ok r /\ q_unit r = v /\ q_amt r == b.

(* [amt_is r b]: r is a quantity whose amount equals b *)
Definition amt_is (r : res qty) (b : Q) : bool :=
  match r with Ok q => qeqb (q_amt q) b | Err _ => false end.

Definition t_273_15 : Q := 27315 # 100.
Definition t_m459_67 : Q := (-45967) # 100.

Theorem temp_fixed_points dm :
  (conv_is dm 0 u_celsius u_kelvin t_273_15 /\ conv_is dm t_273_15 u_kelvin u_celsius 0 /\
   conv_is dm 0 u_celsius u_fahrenheit 32 /\ conv_is dm 32 u_fahrenheit u_celsius 0 /\
   conv_is dm t_273_15 u_kelvin u_fahrenheit 32 /\ conv_is dm 32 u_fahrenheit u_kelvin t_273_15) /\
  (conv_is dm (-40) u_celsius u_fahrenheit (-40) /\ conv_is dm (-40) u_fahrenheit u_celsius (-40)) /\
  (conv_is dm 0 u_kelvin u_fahrenheit t_m459_67 /\ conv_is dm t_m459_67 u_fahrenheit u_kelvin 0) /\
  (qty_eq temp_env (mkQty 0 u_celsius) (mkQty t_273_15 u_kelvin) = Ok true /\
   qty_eq temp_env (mkQty t_273_15 u_kelvin) (mkQty 32 u_fahrenheit) = Ok true /\
   qty_eq temp_env (mkQty 32 u_fahrenheit) (mkQty 0 u_celsius) = Ok true /\
   qty_eq temp_env (mkQty (-40) u_celsius) (mkQty (-40) u_fahrenheit) = Ok true /\
   qty_eq temp_env (mkQty 0 u_kelvin) (mkQty t_m459_67 u_fahrenheit) = Ok true).
Proof.
  unfold conv_is.
  repeat split;
    try (eexists; split; [vm_compute; reflexivity | split; [reflexivity | vm_compute; reflexivity]]);
    vm_compute; reflexivity.
Qed.

(* ---------------- the refined model (ZeroDivisionError) ------------------ *)
Lemma table_get_in t x y fo : table_get t x y = Some fo -> exists k, In (k, fo) t.
Proof.
  induction t as [|[[a b] fo'] r IH]; [discriminate|]. cbn [table_get].
  destruct (N.eqb a x && N.eqb b y).
  - intros H. injection H as H. subst fo'. exists (a, b). left. reflexivity.
  - intros H. destruct (IH H) as [k Hk]. exists k. right. exact Hk.
Qed.

Lemma table_conv_r_nz t q v : table_nz t = true ->
  table_conv_r t q v = Ok (table_conv t q v).
Proof.
  intros Hnz. unfold table_conv_r, table_conv.
  destruct (same_unit (q_unit q) v); [reflexivity|].
  destruct (table_get t (u_id (q_unit q)) (u_id v)) as [[f o]|]; [reflexivity|].
  destruct (table_get t (u_id v) (u_id (q_unit q))) as [[f o]|] eqn:G; [|reflexivity].
  destruct (table_get_in _ _ _ _ G) as [k Hk].
  unfold table_nz in Hnz. rewrite forallb_forall in Hnz. specialize (Hnz _ Hk).
  cbn [fst snd] in Hnz. destruct (qzero f); [discriminate|reflexivity].
Qed.

Lemma try_convs_r_nz cs q v : convs_nz cs = true ->
  try_convs_r cs q v = Ok (try_convs cs q v).
Proof.
  induction cs as [|t r IH]; [reflexivity|]. intros H. unfold convs_nz in H.
  cbn [forallb] in H. apply andb_true_iff in H. destruct H as [Ht Hr].
  cbn [try_convs_r try_convs]. rewrite (table_conv_r_nz t q v Ht).
  destruct (table_conv t q v); [reflexivity|]. apply IH. exact Hr.
Qed.

Lemma equiv_amount_r_nz ce q v : (forall c, convs_nz (ce c) = true) ->
  equiv_amount_r ce q v = equiv_amount ce q v.
Proof.
  intros H. unfold equiv_amount_r, equiv_amount.
  destruct (unit_eq (q_unit q) v) as [[|]|e]; cbn [bind]; try reflexivity.
  destruct (get_factor (q_unit q) v) as [[f|]|e]; try reflexivity.
  apply try_convs_r_nz. apply H.
Qed.

(* without zero factors the refined model IS the shared model *)
Theorem refined_agrees ce : (forall c, convs_nz (ce c) = true) ->
  (forall dm q v, convert_r ce dm q v = convert ce dm q v) /\
  (forall p q, qty_eq_r ce p q = qty_eq ce p q) /\
  (forall op p q, qty_cmp_r ce op p q = qty_cmp ce op p q).
Proof.
  intros H. repeat split; intros.
  - unfold convert_r, convert. rewrite (equiv_amount_r_nz ce q v H). reflexivity.
  - unfold qty_eq_r, qty_eq. rewrite (equiv_amount_r_nz ce q (q_unit p) H). reflexivity.
  - unfold qty_cmp_r, qty_cmp. rewrite (equiv_amount_r_nz ce q (q_unit p) H). reflexivity.
Qed.

Theorem temp_env_nz : forall c, convs_nz (temp_env c) = true.
Proof.
  intros c. unfold temp_env. destruct (N.eqb c temp_cls); vm_compute; reflexivity.
Qed.

Lemma table_conv_r_silent t q v : same_unit (q_unit q) v = false ->
  silent t (q_unit q) v -> table_conv_r t q v = Ok None.
Proof. intros Hs [H1 H2]. unfold table_conv_r. rewrite Hs, H1, H2. reflexivity. Qed.

Lemma try_convs_r_silent pre rest q v : same_unit (q_unit q) v = false ->
  Forall (fun t => silent t (q_unit q) v) pre ->
  try_convs_r (pre ++ rest) q v = try_convs_r rest q v.
Proof.
  intros Hs H. induction H as [|t pre Ht _ IH]; [reflexivity|].
  simpl. rewrite (table_conv_r_silent t q v Hs Ht). exact IH.
Qed.

(* the guard of conv_reverse is exact: a zero factor used in reverse raises
   ZeroDivisionError out of convert, == and the ordering operators *)
Theorem reverse_zero_factor ce dm op a u b v pre t post f o :
  tunit u = true -> tunit v = true -> same_cls u v = true -> same_unit u v = false ->
  ce (u_cls u) = pre ++ t :: post ->
  Forall (fun t' => silent t' u v) pre ->
  table_get t (u_id u) (u_id v) = None ->
  table_get t (u_id v) (u_id u) = Some (f, o) -> f == 0 ->
  convert_r ce dm (mkQty a u) v = Err EZeroDivision /\
  qty_eq_r ce (mkQty b v) (mkQty a u) = Err EZeroDivision /\
  qty_cmp_r ce op (mkQty b v) (mkQty a u) = Err EZeroDivision.
Proof.
  intros Hu Hv Hc Hs Hce Hpre Hg1 Hg2 Hf.
  destruct (tunit_spec _ Hu) as (Ru & Su & _), (tunit_spec _ Hv) as (_ & Sv & _).
  assert (E : equiv_amount_r ce (mkQty a u) v = Err EZeroDivision).
  { unfold equiv_amount_r, unit_eq, get_factor. cbn [q_unit q_amt].
    rewrite Hc, Su, Sv, Ru, Hs. cbn [bind]. rewrite Hce.
    rewrite (try_convs_r_silent pre (t :: post) (mkQty a u) v Hs Hpre).
    cbn [try_convs_r]. unfold table_conv_r. cbn [q_unit q_amt]. rewrite Hs, Hg1, Hg2.
    apply qzero_iff in Hf. rewrite Hf. reflexivity. }
  unfold convert_r, qty_eq_r, qty_cmp_r. cbn [q_unit q_amt].
  rewrite (same_cls_sym v u), Hc, (same_unit_sym v u), Hs, E. cbn [bind]. auto.
Qed.
