(* Proofs/C02Dim.v — consequences of Proofs/DimInv.v for reachable directories. *)
From Coq Require Import ZArith QArith Qabs List Bool Lia.
From QV Require Import Model.Num Model.Rounding Model.Quantity Model.Dim Model.Registry
     Proofs.QuantityProofs Proofs.DimProofs Proofs.DimPush Proofs.RegistryProofs
     Proofs.DirectoryProofs Proofs.DimInv Proofs.C02Proofs.
Open Scope Z_scope.

Lemma Reach_DInv dm s : Reach dm s -> DInv s.
Proof. intros (ds & G & ->). apply reachable_DInv. exact G. Qed.

Lemma TMc_init : TMc init.
Proof. intros u []. Qed.

Lemma Reach_TMc dm s : Reach dm s -> TMc s.
Proof. intros (ds & G & ->). apply (reachable_TMc dm ds init AllInv_init TMc_init G). Qed.

(* the type of a product / quotient has exactly the combined dimension *)
Theorem R_result_type dm s (o : opk) u v r w wu cu cv cw :
  Reach dm s -> In u (st_units s) -> In v (st_units s) ->
  val_ok s (opnf o u v) r -> snd r = Some w -> find_unit s w = Some wu ->
  find_cls s (ru_cls u) = Some cu -> find_cls s (ru_cls v) = Some cv ->
  find_cls s (ru_cls wu) = Some cw ->
  rc_dim cw = match o with
              | KMul => dv_mul (rc_dim cu) (rc_dim cv)
              | KDiv => dv_mul (rc_dim cu) (dv_inv (rc_dim cv))
              end.
Proof.
  intros R. destruct (Reach_inv dm s R) as (U & CI & _).
  apply result_type_dimension; try assumption. apply (Reach_DInv dm s R).
Qed.

Theorem R_result_type_pow dm s u k r w wu cu cw :
  Reach dm s -> In u (st_units s) ->
  val_ok s (nf_pow (ru_nf u) k) r -> snd r = Some w -> find_unit s w = Some wu ->
  find_cls s (ru_cls u) = Some cu -> find_cls s (ru_cls wu) = Some cw ->
  rc_dim cw = dv_scale k (rc_dim cu).
Proof.
  intros R. destruct (Reach_inv dm s R) as (U & CI & _).
  apply result_type_dimension_pow; try assumption. apply (Reach_DInv dm s R).
Qed.

(* the definition of every unit denotes the dimension of its type *)
Theorem R_unit_dimension dm s u c :
  Reach dm s -> In u (st_units s) -> find_cls s (ru_cls u) = Some c ->
  udim s (nf_dim (ru_nf u)) = rc_dim c.
Proof. intros R. apply (di_dim s (Reach_DInv dm s R)). Qed.

(* defined whenever the declared type of that dimension has a reference unit
   with this definition *)
Theorem R_defined_if_type_declared dm s x c r ru :
  Reach dm s -> In c (st_classes s) -> rc_ref c = Some r -> find_unit s r = Some ru ->
  nf_dim x = nf_dim (ru_nf ru) -> resolve s x <> None.
Proof.
  intros R. destruct (Reach_inv dm s R) as (U & CI & _).
  apply defined_if_type_declared; try assumption. apply (Reach_TMc dm s R).
Qed.

Theorem R_defined_if_unit_declared dm s x u :
  Reach dm s -> In u (st_units s) -> nf_eq (ru_nf u) (mkNf 1 (nf_dim x)) -> resolve s x <> None.
Proof. intros R. apply defined_if_unit_declared. apply (Reach_TMc dm s R). Qed.
