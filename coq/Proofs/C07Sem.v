(* Proofs/C07Proofs.v — the term algebra of Model/Term.v is an exact
   commutative group with a canonical form (property C07). *)
From Coq Require Import ZArith QArith Qabs List Bool Lia Lqa Qpower Permutation
     Setoid Morphisms.
From QV Require Import Model.Num Model.Dim Model.Term Proofs.DimProofs.
Open Scope Z_scope.

(* ================================================================== *)
(* 1. The group G as functions: rational factor x exponent of every id *)
(* ================================================================== *)
Definition G := (Q * (N -> Z))%type.
Definition geq (g h : G) : Prop := fst g == fst h /\ forall i, snd g i = snd h i.
Definition gone : G := (1%Q, fun _ => 0).
Definition gmul (g h : G) : G := ((fst g * fst h)%Q, fun i => snd g i + snd h i).
Definition gpow (g : G) (k : Z) : G := ((fst g ^ k)%Q, fun i => k * snd g i).
Definition gnum (q : Q) : G := (q, fun _ => 0).
Definition gbase (a : N) (e : Z) : G := (1%Q, fun i => if N.eqb i a then e else 0).
Definition gnz (g : G) : Prop := ~ fst g == 0.
Definition sem_nf (x : nform) : G := (nf_num x, dv_get (nf_dim x)).

Global Instance geq_equiv : Equivalence geq.
Proof.
  split.
  - intros g; split; [reflexivity | auto].
  - intros g h [H1 H2]; split; [symmetry; auto | intros; symmetry; auto].
  - intros g h k [H1 H2] [H3 H4]; split; [rewrite H1; auto | intros; rewrite H2; auto].
Qed.
Global Instance gmul_proper : Proper (geq ==> geq ==> geq) gmul.
Proof.
  intros a b [H1 H2] c d [H3 H4]; split; cbn;
    [rewrite H1, H3; reflexivity | intros; rewrite H2, H4; auto].
Qed.
Global Instance gpow_proper : Proper (geq ==> eq ==> geq) gpow.
Proof.
  intros a b [H1 H2] x y ->; split; cbn;
    [rewrite H1; reflexivity | intros; rewrite H2; auto].
Qed.
Global Instance gnum_proper : Proper (Qeq ==> geq) gnum.
Proof. intros a b H; split; cbn; auto. Qed.

Ltac gsolve := split; cbn [fst snd gmul gone gpow gnum gbase]; [try ring | intros; try lia].

Lemma gmul_comm g h : geq (gmul g h) (gmul h g).
Proof. gsolve. Qed.
Lemma gmul_assoc g h k : geq (gmul g (gmul h k)) (gmul (gmul g h) k).
Proof. gsolve. Qed.
Lemma gmul_one_l g : geq (gmul gone g) g.
Proof. gsolve. Qed.
Lemma gmul_one_r g : geq (gmul g gone) g.
Proof. gsolve. Qed.
Lemma gmul_swap g h k : geq (gmul g (gmul h k)) (gmul h (gmul g k)).
Proof. gsolve. Qed.
Lemma gnum_mul p q : geq (gnum (p * q)) (gmul (gnum p) (gnum q)).
Proof. gsolve. Qed.
Lemma gnum_one : geq (gnum 1) gone.
Proof. gsolve. Qed.
Lemma gpow_0 g : geq (gpow g 0) gone.
Proof. gsolve. Qed.
Lemma gpow_1 g : geq (gpow g 1) g.
Proof. split; cbn; [reflexivity | intros; destruct (snd g i); reflexivity]. Qed.
Lemma gpow_add g x y : gnz g -> geq (gpow g (x + y)) (gmul (gpow g x) (gpow g y)).
Proof. intros H; split; cbn; [apply Qpower_plus; exact H | intros; lia]. Qed.
Lemma gpow_mul g h x : geq (gpow (gmul g h) x) (gmul (gpow g x) (gpow h x)).
Proof. split; cbn; [apply Qmult_power | intros; lia]. Qed.
Lemma gpow_pow g x y : geq (gpow (gpow g x) y) (gpow g (x * y)).
Proof. split; cbn; [symmetry; apply Qpower_mult | intros; lia]. Qed.
Lemma gpow_one x : geq (gpow gone x) gone.
Proof. split; cbn; [apply Qpower_1 | intros; lia]. Qed.
Lemma gpow_gnum q x : geq (gpow (gnum q) x) (gnum (q ^ x)).
Proof. gsolve; try reflexivity. Qed.
Lemma gpow_opp g x : geq (gmul (gpow g x) (gpow g (- x))) gone \/ fst g == 0.
Proof.
  destruct (Qeq_dec (fst g) 0) as [H|H]; [right; exact H | left].
  split; cbn; [| intros; lia].
  rewrite <- Qpower_plus by exact H. replace (x + - x) with 0 by lia. reflexivity.
Qed.
Lemma gnz_mul g h : gnz g -> gnz h -> gnz (gmul g h).
Proof.
  unfold gnz; cbn. intros Hg Hh H. apply Qmult_integral in H. tauto.
Qed.
Lemma gnz_pow g x : gnz g -> gnz (gpow g x).
Proof. unfold gnz; cbn. apply Qpower_nz. Qed.
Lemma gnz_one : gnz gone.
Proof. unfold gnz; cbn. discriminate. Qed.
Lemma gnz_geq g h : geq g h -> gnz g -> gnz h.
Proof. intros [H _] Hg. unfold gnz in *. rewrite <- H. exact Hg. Qed.

(* nform <-> G *)
Lemma nf_eq_geq x y :
  dv_wf (nf_dim x) = true -> dv_wf (nf_dim y) = true ->
  (nf_eq x y <-> geq (sem_nf x) (sem_nf y)).
Proof.
  intros Hx Hy. unfold nf_eq, geq, sem_nf; cbn. split; intros [H1 H2]; split; auto.
  - intros i. rewrite H2. reflexivity.
  - apply dv_ext; auto.
Qed.

Lemma sem_nf_mul x y :
  dv_wf (nf_dim x) = true -> dv_wf (nf_dim y) = true ->
  geq (sem_nf (nf_mul x y)) (gmul (sem_nf x) (sem_nf y)).
Proof.
  intros Hx Hy. split; cbn [sem_nf nf_mul nf_num nf_dim fst snd gmul].
  - apply qmul_eq.
  - intros i. apply dv_mul_get; auto.
Qed.

Lemma sem_nf_pow x k : geq (sem_nf (nf_pow x k)) (gpow (sem_nf x) k).
Proof.
  split; cbn [sem_nf nf_pow nf_num nf_dim fst snd gpow].
  - apply qpow_eq.
  - intros i. apply dv_scale_get.
Qed.

(* ================================================================== *)
(* 2. Semantics of item lists                                          *)
(* ================================================================== *)
Section Sem.
Variable E : env.

Definition sem0_item (it : item) : G :=
  match fst it with
  | Num q => gnum (q ^ snd it)
  | El a => gbase a (snd it)
  end.
Definition sem0 (l : list item) : G :=
  fold_right (fun it g => gmul (sem0_item it) g) gone l.
Definition semE (a : N) : G := sem0 (e_nf (E a)).
Definition sem_item (it : item) : G :=
  match fst it with
  | Num q => gnum (q ^ snd it)
  | El a => gpow (semE a) (snd it)
  end.
Definition sem (l : list item) : G :=
  fold_right (fun it g => gmul (sem_item it) g) gone l.

Lemma den0_sem l :
  geq (sem_nf (den0 l)) (sem0 l) /\ dv_wf (nf_dim (den0 l)) = true.
Proof.
  induction l as [|it l [IH1 IH2]]; cbn [den0 sem0 fold_right].
  - split; [gsolve; reflexivity | reflexivity].
  - assert (Hit : geq (sem_nf (den0_item it)) (sem0_item it) /\
                  dv_wf (nf_dim (den0_item it)) = true).
    { unfold den0_item, sem0_item. destruct (fst it) as [q|a]; cbn [sem_nf nf_num nf_dim].
      - split; [|reflexivity]. split; cbn; [apply qpow_eq | reflexivity].
      - split; [|apply dv_single_wf]. split; cbn; [reflexivity|].
        intros i. apply dv_single_get. }
    destruct Hit as [H1 H2]. split.
    + fold (den0 l). rewrite sem_nf_mul by auto. rewrite H1, IH1. reflexivity.
    + cbn. apply dv_mul_wf_r. exact IH2.
Qed.

Lemma den_elem_sem a : geq (sem_nf (den_elem E a)) (semE a).
Proof. apply den0_sem. Qed.
Lemma den_elem_wf a : dv_wf (nf_dim (den_elem E a)) = true.
Proof. apply den0_sem. Qed.

Lemma den_sem l :
  geq (sem_nf (den E l)) (sem l) /\ dv_wf (nf_dim (den E l)) = true.
Proof.
  induction l as [|it l [IH1 IH2]]; cbn [den sem fold_right].
  - split; [gsolve; reflexivity | reflexivity].
  - assert (Hit : geq (sem_nf (den_item E it)) (sem_item it) /\
                  dv_wf (nf_dim (den_item E it)) = true).
    { unfold den_item, sem_item. destruct (fst it) as [q|a]; cbn [sem_nf nf_num nf_dim].
      - split; [|reflexivity]. split; cbn; [apply qpow_eq | reflexivity].
      - split.
        + rewrite sem_nf_pow. rewrite den_elem_sem. reflexivity.
        + cbn. apply dv_scale_wf. apply den_elem_wf. }
    destruct Hit as [H1 H2]. split.
    + fold (den E l). rewrite sem_nf_mul by auto. rewrite H1, IH1. reflexivity.
    + cbn. apply dv_mul_wf_r. exact IH2.
Qed.

(* equality of denotations in G <-> equality of the functional semantics *)
Lemma den_eq_iff l l' : nf_eq (den E l) (den E l') <-> geq (sem l) (sem l').
Proof.
  destruct (den_sem l) as [A1 A2]. destruct (den_sem l') as [B1 B2].
  rewrite nf_eq_geq by auto. rewrite A1, B1. reflexivity.
Qed.

Lemma sem_cons it l : sem (it :: l) = gmul (sem_item it) (sem l).
Proof. reflexivity. Qed.

Lemma sem_app l1 l2 : geq (sem (l1 ++ l2)) (gmul (sem l1) (sem l2)).
Proof.
  induction l1 as [|it l1 IH]; cbn [app sem fold_right].
  - symmetry. apply gmul_one_l.
  - fold (sem (l1 ++ l2)). fold (sem l1). rewrite IH. apply gmul_assoc.
Qed.

Lemma sem_perm l l' : Permutation l l' -> geq (sem l) (sem l').
Proof.
  induction 1.
  - reflexivity.
  - rewrite !sem_cons. rewrite IHPermutation. reflexivity.
  - rewrite !sem_cons. apply gmul_swap.
  - etransitivity; eauto.
Qed.

End Sem.
