(* C13: quantize and round follow the requested rounding mode exactly. *)
From Coq Require Import ZArith QArith Qabs List Bool Lia Lqa Qreduction Qpower.
From QV Require Import Model.Num Model.Rounding Gen.RoundingImpl Model.Quantity
     Proofs.RoundingCommon Proofs.RoundingImplSpec Proofs.RoundingRef
     Proofs.RoundingUnique Proofs.RoundingProofs Proofs.RoundingQ
     Proofs.QuantityProofs.
Open Scope Q_scope.

Lemma same_cls_sym u v : same_cls u v = same_cls v u.
Proof. unfold same_cls. apply N.eqb_sym. Qed.

Lemma round_to_quantum_compat m a a' qu qu' : a == a' -> qu == qu' ->
  round_to_quantum m a qu == round_to_quantum m a' qu'.
Proof.
  intros Ea Eq. unfold round_to_quantum. rewrite !qmul_ok.
  rewrite (rnd_ref_compat m (qdiv a qu) (qdiv a' qu')).
  - rewrite Eq. reflexivity.
  - rewrite !qdiv_ok, Ea, Eq. reflexivity.
Qed.

(* the multiple selected by round_to_quantum is the one the mode prescribes *)
Lemma round_to_quantum_spec m a qu :
  exists n, round_to_quantum m a qu == inject_Z n * qu /\ RoundsToQ m (a / qu) n.
Proof.
  exists (rnd_ref m (qdiv a qu)). split.
  - unfold round_to_quantum, qz. apply qmul_ok.
  - apply (RoundsToQ_compat m (qdiv a qu) (a / qu)); [apply qdiv_ok | apply rnd_ref_spec].
Qed.

Definition eff_mode (dm : mode) (rm : option mode) : mode :=
  match rm with Some m => m | None => dm end.

(* amount of the result of mk_qty, by value *)
Definition mk_amt (dm : mode) (a : Q) (u : unit) : Q :=
  match u_quantum u with None => a | Some qu => round_to_quantum dm a qu end.

Lemma mk_qty_amt dm a u : q_amt (mk_qty dm a u) == mk_amt dm a u.
Proof. unfold mk_qty, mk_amt. destruct (u_quantum u); simpl; [reflexivity | apply Qred_correct]. Qed.

Lemma mk_amt_compat dm a a' u : a == a' -> mk_amt dm a u == mk_amt dm a' u.
Proof.
  intros E. unfold mk_amt. destruct (u_quantum u); [|exact E].
  apply round_to_quantum_compat; [exact E | reflexivity].
Qed.

Theorem quantize_spec : forall ce dm is_dec a u b v rm,
  lin u = true -> lin v = true -> same_cls u v = true ->
  ~ a == 0 -> ~ b == 0 ->
  let m := eff_mode dm rm in
  let nq := b * (scale v / scale u) in
  exists n r,
    quantize ce dm is_dec (mkQty a u) (mkQty b v) rm = Ok r /\
    RoundsToQ m (a / nq) n /\
    q_unit r = u /\
    q_amt r == mk_amt dm (inject_Z n * nq) u.
Proof.
  intros ce dm is_dec a u b v rm Hu Hv Hc Ha Hb m nq.
  destruct (lin_scale u Hu) as (Ru & Su & Nu), (lin_scale v Hv) as (Rv & Sv & Nv).
  assert (Hc' : same_cls v u = true) by (rewrite same_cls_sym; exact Hc).
  destruct (equiv_amount_lin ce b v u Hv Hu Hc') as (nq' & He & Hnq).
  fold nq in Hnq.
  assert (Nnq : ~ nq == 0).
  { unfold nq. intros E. apply Hb.
    assert (X : b == b * (scale v / scale u) * (scale u / scale v)) by (field; split; assumption).
    rewrite X, E. ring. }
  assert (Nnq' : ~ nq' == 0) by (rewrite Hnq; exact Nnq).
  destruct (round_to_quantum_spec m a nq') as (n & Hr & Hn).
  exists n.
  unfold quantize. cbn [q_unit q_amt]. rewrite Hc, Ru. cbn [negb].
  rewrite He. cbn [bind].
  apply qzero_false in Ha. rewrite Ha.
  apply qzero_false in Nnq'. rewrite Nnq'.
  fold (eff_mode dm rm). fold m.
  assert (Hsome : (if is_dec then Some (round_to_quantum m a nq')
                   else quantize_fraction a nq' m) = Some (round_to_quantum m a nq'))
    by (destruct is_dec; [reflexivity | apply quantize_fraction_eq_ref]).
  rewrite Hsome. eexists. split; [reflexivity|].
  split; [|split].
  - apply (RoundsToQ_compat m (a / nq') (a / nq)); [rewrite Hnq; reflexivity | exact Hn].
  - apply mk_qty_unit.
  - rewrite mk_qty_amt. apply mk_amt_compat. rewrite Hr, Hnq. reflexivity.
Qed.

(* the result does not depend on how the amount is held *)
Theorem quantize_repr_independent : forall ce dm p quant rm,
  quantize ce dm true p quant rm = quantize ce dm false p quant rm.
Proof.
  intros. unfold quantize.
  destruct (negb (same_cls (q_unit p) (q_unit quant))); [reflexivity|].
  destruct (negb (u_has_ref (q_unit p))); [reflexivity|].
  destruct (equiv_amount ce quant (q_unit p)) as [[nq|]|e]; cbn [bind]; try reflexivity.
  destruct (qzero (q_amt p)); [reflexivity|].
  destruct (qzero nq); [reflexivity|].
  rewrite quantize_fraction_eq_ref. reflexivity.
Qed.

(* zero is returned unchanged *)
Theorem quantize_zero : forall ce dm is_dec a u b v rm,
  lin u = true -> lin v = true -> same_cls u v = true -> a == 0 ->
  quantize ce dm is_dec (mkQty a u) (mkQty b v) rm = Ok (mkQty a u).
Proof.
  intros ce dm is_dec a u b v rm Hu Hv Hc Ha.
  destruct (lin_scale u Hu) as (Ru & _).
  assert (Hc' : same_cls v u = true) by (rewrite same_cls_sym; exact Hc).
  destruct (equiv_amount_lin ce b v u Hv Hu Hc') as (nq' & He & _).
  unfold quantize. cbn [q_unit q_amt]. rewrite Hc, Ru. cbn [negb]. rewrite He. cbn [bind].
  apply qzero_iff in Ha. rewrite Ha. reflexivity.
Qed.

(* rejected quanta *)
Theorem quantize_other_type : forall ce dm is_dec p quant rm,
  same_cls (q_unit p) (q_unit quant) = false ->
  quantize ce dm is_dec p quant rm = Err ETypeError.
Proof. intros ce dm is_dec p quant rm H. unfold quantize. rewrite H. reflexivity. Qed.

Theorem quantize_no_ref_unit : forall ce dm is_dec p quant rm,
  u_has_ref (q_unit p) = false ->
  quantize ce dm is_dec p quant rm = Err ETypeError.
Proof.
  intros ce dm is_dec p quant rm H. unfold quantize. rewrite H.
  destruct (negb (same_cls (q_unit p) (q_unit quant))); reflexivity.
Qed.

(* round(q, n): unit kept, amount = multiple of 10^-n selected by the mode
   (default mode for decimal amounts, half-even for fraction amounts) *)
Theorem round_spec : forall dm (is_dec : bool) a u nd,
  let m := if is_dec then dm else MHEVEN in
  let r := qty_round dm is_dec (mkQty a u) nd in
  exists n, RoundsToQ m (a / pow10 (- nd)) n /\
            q_unit r = u /\
            q_amt r == mk_amt dm (inject_Z n * pow10 (- nd)) u.
Proof.
  intros dm is_dec a u nd m r.
  destruct (round_to_quantum_spec m a (pow10 (- nd))) as (n & Hr & Hn).
  exists n. split; [exact Hn|]. unfold r, qty_round. cbn [q_amt q_unit]. fold m.
  split; [apply mk_qty_unit|]. rewrite mk_qty_amt. apply mk_amt_compat. exact Hr.
Qed.

Lemma pow10_ok k : pow10 k == (10 # 1) ^ k.
Proof. apply qpow_ok. Qed.
