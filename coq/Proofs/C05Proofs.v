(* C05: quantized types hold the nearest multiple of the quantum, rounded once. *)
From Coq Require Import ZArith QArith Qabs List Bool Lia Lqa Qreduction.
From QV Require Import Model.Num Model.Rounding Gen.RoundingImpl Model.Quantity
     Proofs.RoundingQ Proofs.QuantityProofs Proofs.C13Proofs Proofs.C01Proofs
     Proofs.C03C04Proofs.
Open Scope Q_scope.

Lemma mk_qty_quantized dm a u qu : u_quantum u = Some qu ->
  mk_qty dm a u = mkQty (round_to_quantum dm a qu) u.
Proof. intros H. unfold mk_qty. rewrite H. reflexivity. Qed.

Theorem mk_on_grid dm a u qu : u_quantum u = Some qu ->
  on_grid (q_amt (mk_qty dm a u)) qu.
Proof. intros H. rewrite (mk_qty_quantized dm a u qu H). apply round_to_quantum_is_on_grid. Qed.

Lemma scaled_error n a qu : 0 < qu ->
  inject_Z n * qu - a == (inject_Z n - a / qu) * qu.
Proof. intros H. field. intros E. rewrite E in H. exact (Qlt_irrefl _ H). Qed.

Lemma Qabs_scale x qu : 0 < qu -> Qabs (x * qu) == Qabs x * qu.
Proof. intros H. rewrite Qabs_Qmult. rewrite (Qabs_pos qu); [reflexivity | apply Qlt_le_weak; exact H]. Qed.

Theorem round_error_lt m a qu : 0 < qu -> Qabs (round_to_quantum m a qu - a) < qu.
Proof.
  intros H. destruct (round_to_quantum_spec m a qu) as (n & Hr & Hn).
  rewrite Hr, (scaled_error n a qu H), (Qabs_scale _ qu H).
  pose proof (RoundsToQ_lt_one m _ n Hn) as B.
  apply Qlt_le_trans with (1 * qu);
    [apply Qmult_lt_compat_r; assumption | rewrite Qmult_1_l; apply Qle_refl].
Qed.

Theorem round_error_half m a qu : 0 < qu -> half_mode m = true ->
  Qabs (round_to_quantum m a qu - a) <= (1 # 2) * qu.
Proof.
  intros H Hm. destruct (round_to_quantum_spec m a qu) as (n & Hr & Hn).
  rewrite Hr, (scaled_error n a qu H), (Qabs_scale _ qu H).
  pose proof (RoundsToQ_le_half m _ n Hm Hn) as B.
  apply Qmult_le_compat_r; [exact B | apply Qlt_le_weak; exact H].
Qed.

Theorem round_floor_side a qu : 0 < qu -> round_to_quantum MFLOOR a qu <= a.
Proof.
  intros H. destruct (round_to_quantum_spec MFLOOR a qu) as (n & Hr & Hn).
  rewrite Hr. pose proof (RoundsToQ_floor _ n Hn) as B.
  assert (X : a == (a / qu) * qu) by (field; intros E; rewrite E in H; exact (Qlt_irrefl _ H)).
  apply Qle_trans with ((a / qu) * qu); [|rewrite <- X; apply Qle_refl].
  apply Qmult_le_compat_r; [exact B | apply Qlt_le_weak; exact H].
Qed.

Theorem round_ceiling_side a qu : 0 < qu -> a <= round_to_quantum MCEIL a qu.
Proof.
  intros H. destruct (round_to_quantum_spec MCEIL a qu) as (n & Hr & Hn).
  rewrite Hr. pose proof (RoundsToQ_ceil _ n Hn) as B.
  assert (X : a == (a / qu) * qu) by (field; intros E; rewrite E in H; exact (Qlt_irrefl _ H)).
  apply Qle_trans with ((a / qu) * qu); [rewrite <- X; apply Qle_refl|].
  apply Qmult_le_compat_r; [exact B | apply Qlt_le_weak; exact H].
Qed.

Theorem round_down_side a qu : 0 < qu -> Qabs (round_to_quantum MDOWN a qu) <= Qabs a.
Proof.
  intros H. destruct (round_to_quantum_spec MDOWN a qu) as (n & Hr & Hn).
  rewrite Hr, (Qabs_scale _ qu H). pose proof (RoundsToQ_down _ n Hn) as B.
  assert (X : a == (a / qu) * qu) by (field; intros E; rewrite E in H; exact (Qlt_irrefl _ H)).
  apply Qle_trans with (Qabs (a / qu) * qu);
    [|rewrite <- (Qabs_scale _ qu H), <- X; apply Qle_refl].
  apply Qmult_le_compat_r; [exact B | apply Qlt_le_weak; exact H].
Qed.

Theorem round_up_side a qu : 0 < qu -> Qabs a <= Qabs (round_to_quantum MUP a qu).
Proof.
  intros H. destruct (round_to_quantum_spec MUP a qu) as (n & Hr & Hn).
  rewrite Hr, (Qabs_scale _ qu H). pose proof (RoundsToQ_up _ n Hn) as B.
  assert (X : a == (a / qu) * qu) by (field; intros E; rewrite E in H; exact (Qlt_irrefl _ H)).
  apply Qle_trans with (Qabs (a / qu) * qu);
    [rewrite <- (Qabs_scale _ qu H), <- X; apply Qle_refl|].
  apply Qmult_le_compat_r; [exact B | apply Qlt_le_weak; exact H].
Qed.

(* --- every producing operation of the quantity layer rounds exactly once:
   its result IS the constructor applied to the exact result on the stored
   operands --- *)
Theorem ops_round_once ce dm : forall a u,
  (* unary and scalar operations *)
  qty_neg dm (mkQty a u) = mk_qty dm (- a) u /\
  qty_abs dm (mkQty a u) = mk_qty dm (Qabs a) u /\
  (forall k, exists x, qty_mul_num dm (mkQty a u) k = mk_qty dm x u /\ x == a * k) /\
  (forall k, ~ k == 0 -> exists x, qty_div_num dm (mkQty a u) k = Ok (mk_qty dm x u) /\ x == a / k) /\
  (* conversion, addition, subtraction on linear units *)
  (forall v, lin u = true -> lin v = true -> same_cls u v = true ->
     exists x, convert ce dm (mkQty a u) v = Ok (mk_qty dm x v) /\ x == a * (scale u / scale v)) /\
  (forall sub b v, lin u = true -> lin v = true -> same_cls u v = true ->
     exists x, qty_addsub sub ce dm (mkQty a u) (mkQty b v) = Ok (mk_qty dm x u) /\
               x == pm sub a (b * (scale v / scale u))).
Proof.
  intros a u. split; [reflexivity|]. split; [reflexivity|].
  split; [intros k; eexists; split; [reflexivity | apply qmul_ok]|].
  split.
  { intros k Hk. eexists. unfold qty_div_num. apply qzero_false in Hk. rewrite Hk.
    split; [reflexivity | apply qdiv_ok]. }
  split.
  { intros v Hu Hv Hc. destruct (equiv_amount_lin ce a u v Hu Hv Hc) as (a' & He & Ha).
    exists a'. unfold convert. rewrite He. split; [reflexivity | exact Ha]. }
  intros sub b v Hu Hv Hc.
  destruct (lin_scale u Hu) as (Ru & Su & Nu), (lin_scale v Hv) as (Rv & Sv & Nv).
  unfold qty_addsub. cbn [q_unit q_amt]. rewrite Hc.
  unfold unit_eq. rewrite Hc, Su, Sv. cbn [bind].
  destruct (qeqb (scale u) (scale v)) eqn:E.
  - eexists. split; [reflexivity|]. apply qeqb_iff in E.
    destruct sub; cbn [pm]; rewrite ?qsub_ok, ?qadd_ok; rewrite E; field; exact Nv.
  - assert (Hc' : same_cls v u = true) by (rewrite same_cls_sym; exact Hc).
    destruct (equiv_amount_lin ce b v u Hv Hu Hc') as (b' & He & Hb').
    rewrite He. cbn [bind]. eexists. split; [reflexivity|].
    destruct sub; cbn [pm]; rewrite ?qsub_ok, ?qadd_ok; rewrite Hb'; reflexivity.
Qed.

(* quantities producible by the operations of the quantity layer *)
Inductive Produced (ce : convenv) (dm : mode) : qty -> Prop :=
  | P_mk a u : Produced ce dm (mk_qty dm a u)
  | P_convert p v r : Produced ce dm p -> convert ce dm p v = Ok r -> Produced ce dm r
  | P_addsub sub p q r : Produced ce dm p -> Produced ce dm q ->
      qty_addsub sub ce dm p q = Ok r -> Produced ce dm r
  | P_neg p : Produced ce dm p -> Produced ce dm (qty_neg dm p)
  | P_abs p : Produced ce dm p -> Produced ce dm (qty_abs dm p)
  | P_mul p k : Produced ce dm p -> Produced ce dm (qty_mul_num dm p k)
  | P_div p k r : Produced ce dm p -> qty_div_num dm p k = Ok r -> Produced ce dm r
  | P_quantize d p q rm r : Produced ce dm p -> Produced ce dm q ->
      quantize ce dm d p q rm = Ok r -> Produced ce dm r
  | P_round d p nd : Produced ce dm p -> Produced ce dm (qty_round dm d p nd)
  | P_sum p l r : Produced ce dm p -> Forall (Produced ce dm) l ->
      qty_sum_from ce dm p l = Ok r -> Produced ce dm r.

Definition grid_ok (q : qty) : Prop :=
  forall qu, u_quantum (q_unit q) = Some qu -> on_grid (q_amt q) qu.

Lemma mk_grid_ok dm a u : grid_ok (mk_qty dm a u).
Proof. intros qu H. rewrite mk_qty_unit in H. apply (mk_on_grid dm a u qu H). Qed.

Lemma addsub_grid_ok sub ce dm p q r : qty_addsub sub ce dm p q = Ok r -> grid_ok r.
Proof.
  unfold qty_addsub. destruct (same_cls (q_unit p) (q_unit q)); [|discriminate].
  destruct (unit_eq (q_unit p) (q_unit q)) as [[|]|e]; cbn [bind]; try discriminate.
  - intros H. injection H as <-. apply mk_grid_ok.
  - destruct (equiv_amount ce q (q_unit p)) as [[x|]|e]; cbn [bind]; try discriminate.
    intros H. injection H as <-. apply mk_grid_ok.
Qed.

Lemma sum_grid_ok ce dm : forall l p r, grid_ok p -> qty_sum_from ce dm p l = Ok r -> grid_ok r.
Proof.
  induction l as [|x l IH]; intros p r Hp; cbn [qty_sum_from].
  - intros H. injection H as <-. exact Hp.
  - destruct (qty_add ce dm p x) as [s|e] eqn:E; cbn [bind]; [|discriminate].
    apply IH. exact (addsub_grid_ok false ce dm p x s E).
Qed.

Theorem produced_on_grid ce dm q : Produced ce dm q -> grid_ok q.
Proof.
  induction 1 as [a u | p v r Hp IH Hc | sub p q r Hp IHp Hq IHq Hr | p Hp IH | p Hp IH
                  | p k Hp IH | p k r Hp IH Hr | d p q rm r Hp IHp Hq IHq Hr | d p nd Hp IH
                  | p l r Hp IHp Hl Hr].
  - apply mk_grid_ok.
  - unfold convert in Hc. destruct (equiv_amount ce p v) as [[x|]|e]; cbn [bind] in Hc; try discriminate.
    injection Hc as <-. apply mk_grid_ok.
  - exact (addsub_grid_ok sub ce dm p q r Hr).
  - apply mk_grid_ok.
  - apply mk_grid_ok.
  - apply mk_grid_ok.
  - unfold qty_div_num in Hr. destruct (qzero k); [discriminate|]. injection Hr as <-. apply mk_grid_ok.
  - unfold quantize in Hr.
    destruct (negb (same_cls (q_unit p) (q_unit q))); [discriminate|].
    destruct (negb (u_has_ref (q_unit p))); [discriminate|].
    destruct (equiv_amount ce q (q_unit p)) as [[nq|]|e]; cbn [bind] in Hr; try discriminate.
    destruct (qzero (q_amt p)); [injection Hr as <-; exact IHp|].
    destruct (qzero nq); [discriminate|].
    destruct (if d then _ else _); [|discriminate]. injection Hr as <-. apply mk_grid_ok.
  - apply mk_grid_ok.
  - exact (sum_grid_ok ce dm l p r IHp Hr).
Qed.
