(* Proofs/GenQuantumEq.v — Unit.quantum as GENERATED from src/quantity/__init__.py
   (Gen/AllocImpl.v, translate/alloc.py) is the per-unit quantum of the unit views
   the directory model hands to the quantity layer (Model/Registry.v, [view]): the
   quantum of the unit's type divided by the unit's scale.  Currencies carry their
   own smallest fraction (Currency.quantum returns it unchanged). *)
From Coq Require Import ZArith QArith List Bool.
From QV Require Import Model.Num Model.Rounding Model.Quantity Model.Registry.
From QV Require Import Gen.AllocImpl.
Open Scope Z_scope.

Theorem view_quantum_is_translated_code s u k :
  find_cls s (ru_cls u) = Some k -> ru_sf u = None ->
  match unit_quantum_impl (rc_quantum k) (view s u) with
  | Ok o => u_quantum (view s u) = o
  | Err _ => u_quantum (view s u) = None
  end.
Proof.
  intros Hc Hs. unfold unit_quantum_impl, view. rewrite Hc, Hs. cbn [u_scale u_quantum].
  destruct (rc_quantum k), (ru_equiv u); reflexivity.
Qed.
