(* Proofs/RegistryProofs.v — the directory model: what resolution of unit
   products / quotients / powers returns denotes the right value (C02), the
   operation cache is transparent (C17). *)
From Coq Require Import ZArith QArith Qabs List Bool Lia Lqa Qpower.
From QV Require Import Model.Num Model.Rounding Model.Quantity Model.Dim Model.Registry
     Proofs.QuantityProofs Proofs.DimProofs.
Open Scope Z_scope.

(* ---------- look-ups ---------- *)
Lemma find_unit_in_sound l id u : find_unit_in l id = Some u -> In u l /\ ru_id u = id.
Proof.
  induction l as [|x l IH]; cbn; [discriminate|].
  destruct (N.eqb (ru_id x) id) eqn:E.
  - intros H. injection H as <-. split; [left; reflexivity | apply N.eqb_eq; exact E].
  - intros H. destruct (IH H). split; [right|]; assumption.
Qed.

Lemma find_unit_in_app l l' id u :
  find_unit_in l id = Some u -> find_unit_in (l ++ l') id = Some u.
Proof.
  induction l as [|x l IH]; cbn; [discriminate|].
  destruct (N.eqb (ru_id x) id); auto.
Qed.

Lemma find_unit_in_app_none l l' id :
  find_unit_in l id = None -> find_unit_in (l ++ l') id = find_unit_in l' id.
Proof.
  induction l as [|x l IH]; cbn; [reflexivity|].
  destruct (N.eqb (ru_id x) id); [discriminate | auto].
Qed.

Lemma find_unit_in_none l id : find_unit_in l id = None -> forall u, In u l -> ru_id u <> id.
Proof.
  induction l as [|x l IH]; cbn; [tauto|].
  destruct (N.eqb (ru_id x) id) eqn:E; [discriminate|].
  intros H u [<-|Hu]; [apply N.eqb_neq; exact E | apply IH; assumption].
Qed.

Lemma find_unit_in_complete l u :
  NoDup (map ru_id l) -> In u l -> find_unit_in l (ru_id u) = Some u.
Proof.
  induction l as [|x l IH]; cbn; [tauto|].
  intros ND [->|Hu].
  - rewrite N.eqb_refl. reflexivity.
  - inversion ND as [|? ? Hx ND']; subst.
    destruct (N.eqb (ru_id x) (ru_id u)) eqn:E.
    + apply N.eqb_eq in E. exfalso. apply Hx. rewrite E. apply in_map. exact Hu.
    + apply IH; assumption.
Qed.

Lemma term_lookup_in_sound l k w :
  term_lookup_in l k = Some w -> exists k', In (k', w) l /\ nf_eq k' k.
Proof.
  induction l as [|[k' u] l IH]; cbn; [discriminate|].
  destruct (nf_eqb k' k) eqn:E.
  - intros H. injection H as <-. exists k'. split; [left; reflexivity | apply nf_eqb_eq; exact E].
  - intros H. destruct (IH H) as (k'' & Hi & He). exists k''. split; [right|]; assumption.
Qed.

Lemma term_lookup_in_none l k :
  term_lookup_in l k = None -> forall k' w, In (k', w) l -> ~ nf_eq k' k.
Proof.
  induction l as [|[k1 u] l IH]; cbn; [tauto|].
  destruct (nf_eqb k1 k) eqn:E; [discriminate|].
  intros H k' w [X|X].
  - injection X as <- <-. intros N. apply nf_eqb_eq in N. congruence.
  - eapply IH; eassumption.
Qed.

Lemma term_lookup_in_some l k k' w :
  In (k', w) l -> nf_eq k' k -> exists w', term_lookup_in l k = Some w'.
Proof.
  intros Hi He. destruct (term_lookup_in l k) eqn:E; [eauto|].
  exfalso. exact (term_lookup_in_none l k E k' w Hi He).
Qed.

(* ---------- what a resolution result means ---------- *)
(* [val_ok s x r]: the pair r = (factor, unit or None) denotes x *)
Definition val_ok (s : state) (x : nform) (r : Q * option N) : Prop :=
  match snd r with
  | Some w => exists u, find_unit s w = Some u /\ nf_eq (nf_scale (fst r) (ru_nf u)) x
  | None => nf_dim x = [] /\ fst r == nf_num x
  end.

Definition TM_ok (s : state) : Prop :=
  forall k w, In (k, w) (st_termmap s) ->
  exists u, find_unit s w = Some u /\ nf_eq (ru_nf u) k.

Lemma one_mul_l q : qmul 1 q == q.
Proof. rewrite qmul_eq. ring. Qed.

Theorem resolve_sound s x r : TM_ok s -> resolve s x = Some r -> val_ok s x r.
Proof.
  intros TM. unfold resolve, term_lookup.
  destruct (term_lookup_in (st_termmap s) x) as [w|] eqn:E1.
  - intros H. injection H as <-. unfold val_ok. cbn [fst snd].
    destruct (term_lookup_in_sound _ _ _ E1) as (k' & Hi & He).
    destruct (TM _ _ Hi) as (u & Hu & Hk). exists u. split; [exact Hu|].
    destruct Hk as [K1 K2], He as [E2 E3]. split; cbn [nf_scale nf_num nf_dim].
    + rewrite one_mul_l, K1. exact E2.
    + congruence.
  - destruct (nf_dim x) as [|p d] eqn:Ed.
    + intros H. injection H as <-. unfold val_ok. cbn [fst snd].
      split; [exact Ed | apply Qred_correct].
    + destruct (term_lookup_in (st_termmap s) (mkNf 1 (p :: d))) as [w|] eqn:E2; [|discriminate].
      intros H. injection H as <-. unfold val_ok. cbn [fst snd].
      destruct (term_lookup_in_sound _ _ _ E2) as (k' & Hi & He).
      destruct (TM _ _ Hi) as (u & Hu & Hk). exists u. split; [exact Hu|].
      destruct Hk as [K1 K2], He as [E3 E4]. cbn [nf_num nf_dim] in E3, E4.
      split; cbn [nf_scale nf_num nf_dim].
      * rewrite qmul_eq, Qred_correct, K1, E3. ring.
      * congruence.
Qed.

(* the result is undefined exactly when no registered definition matches:
   neither the term itself nor the term without its numeric factor *)
Theorem resolve_none_iff s x :
  resolve s x = None <->
  nf_dim x <> [] /\
  (forall k w, In (k, w) (st_termmap s) -> ~ nf_eq k x /\ ~ nf_eq k (mkNf 1 (nf_dim x))).
Proof.
  unfold resolve, term_lookup. split.
  - destruct (term_lookup_in (st_termmap s) x) eqn:E1; [discriminate|].
    destruct (nf_dim x) as [|p d] eqn:Ed; [discriminate|].
    destruct (term_lookup_in (st_termmap s) (mkNf 1 (p :: d))) eqn:E2; [discriminate|].
    intros _. split; [discriminate|]. intros k w Hi. split.
    + exact (term_lookup_in_none _ _ E1 k w Hi).
    + exact (term_lookup_in_none _ _ E2 k w Hi).
  - intros [Hd Hn].
    destruct (term_lookup_in (st_termmap s) x) as [w|] eqn:E1.
    { destruct (term_lookup_in_sound _ _ _ E1) as (k' & Hi & He). destruct (Hn _ _ Hi). tauto. }
    destruct (nf_dim x) as [|p d] eqn:Ed; [congruence|].
    destruct (term_lookup_in (st_termmap s) (mkNf 1 (p :: d))) as [w|] eqn:E2; [|reflexivity].
    destruct (term_lookup_in_sound _ _ _ E2) as (k' & Hi & He). destruct (Hn _ _ Hi). tauto.
Qed.

(* a registered unit whose definition is the term without numeric factor
   (e.g. the reference unit of the type of that dimension) makes it defined *)
Theorem resolve_defined s x k w :
  In (k, w) (st_termmap s) -> nf_eq k (mkNf 1 (nf_dim x)) -> resolve s x <> None.
Proof.
  intros Hi He H. apply resolve_none_iff in H. destruct H as [_ H].
  destruct (H _ _ Hi). tauto.
Qed.

(* ---------- invariants of the directory ---------- *)
Definition opnf (o : opk) (u v : runit) : nform :=
  match o with
  | KMul => nf_mul (ru_nf u) (ru_nf v)
  | KDiv => nf_mul (ru_nf u) (nf_inv (ru_nf v))
  end.

Definition Cache_ok (s : state) : Prop :=
  forall o a b r, In ((o, a, b), r) (st_cache s) ->
  exists u v, find_unit s a = Some u /\ find_unit s b = Some v /\ val_ok s (opnf o u v) r.

Record UInv (s : state) : Prop := {
  ui_nodup : NoDup (map ru_id (st_units s));
  ui_wf : forall u, In u (st_units s) -> nf_wf (ru_nf u);
  ui_equiv : forall u e, In u (st_units s) -> ru_equiv u = Some e -> e == nf_num (ru_nf u);
  ui_uniform : forall u v, In u (st_units s) -> In v (st_units s) -> ru_cls u = ru_cls v ->
      ru_equiv u <> None -> ru_equiv v <> None -> nf_dim (ru_nf u) = nf_dim (ru_nf v);
  ui_tm : TM_ok s
}.

Definition Inv (s : state) : Prop := UInv s /\ Cache_ok s.

Lemma find_unit_In s id u : find_unit s id = Some u -> In u (st_units s) /\ ru_id u = id.
Proof. apply find_unit_in_sound. Qed.

Lemma cache_get_in_sound l o a b r : cache_get_in l o a b = Some r -> In ((o, a, b), r) l.
Proof.
  induction l as [|[[[o' a'] b'] r'] l IH]; cbn; [discriminate|].
  destruct (opk_eqb o o' && N.eqb a a' && N.eqb b b') eqn:E.
  - intros H. injection H as <-. left.
    apply andb_true_iff in E. destruct E as [E Eb]. apply andb_true_iff in E. destruct E as [Eo Ea].
    apply N.eqb_eq in Ea, Eb. subst. destruct o, o'; try discriminate; reflexivity.
  - intros H. right. auto.
Qed.

Lemma val_ok_same_units s s' x r : st_units s' = st_units s -> val_ok s x r -> val_ok s' x r.
Proof. unfold val_ok, find_unit. intros ->. auto. Qed.

Lemma cache_add_units s o a b r : st_units (cache_add s o a b r) = st_units s.
Proof. reflexivity. Qed.

Lemma cache_add_ok s o u v r :
  Cache_ok s ->
  find_unit s (ru_id u) = Some u -> find_unit s (ru_id v) = Some v -> val_ok s (opnf o u v) r ->
  Cache_ok (cache_add s o (ru_id u) (ru_id v) r).
Proof.
  intros C Hu Hv H o' a' b' r' [X|X].
  - injection X as <- <- <- <-. exists u, v. repeat split; assumption.
  - destruct (C _ _ _ _ X) as (u' & v' & A & B & V). exists u', v'. repeat split; assumption.
Qed.

Lemma cache_found s o u v r :
  Cache_ok s -> find_unit s (ru_id u) = Some u -> find_unit s (ru_id v) = Some v ->
  In ((o, ru_id u, ru_id v), r) (st_cache s) -> val_ok s (opnf o u v) r.
Proof.
  intros C Hu Hv Hi. destruct (C _ _ _ _ Hi) as (u' & v' & A & B & V).
  rewrite Hu in A. rewrite Hv in B. injection A as <-. injection B as <-. exact V.
Qed.

Lemma UInv_cache_add s o a b r : UInv s -> UInv (cache_add s o a b r).
Proof. intros [A B C D E]. constructor; assumption. Qed.

(* ---------- unit x unit ---------- *)
Theorem unit_mul_sound s u v s' r :
  Inv s -> find_unit s (ru_id u) = Some u -> find_unit s (ru_id v) = Some v ->
  unit_mul s u v = (s', Ok r) ->
  val_ok s' (opnf KMul u v) r /\ Inv s' /\ st_units s' = st_units s /\ st_termmap s' = st_termmap s
  /\ st_classes s' = st_classes s.
Proof.
  intros [U C] Hu Hv. unfold unit_mul, cache_get.
  destruct (cache_get_in (st_cache s) KMul (ru_id u) (ru_id v)) as [r0|] eqn:E.
  - intros H. injection H as <- <-. apply cache_get_in_sound in E.
    split; [eapply cache_found; eassumption|]. split; [split; assumption|]. repeat split.
  - destruct (resolve s (nf_mul (ru_nf u) (ru_nf v))) as [r0|] eqn:R; [|discriminate].
    intros H. injection H as <- <-.
    assert (V : val_ok s (opnf KMul u v) r0) by (apply resolve_sound; [apply U | exact R]).
    split; [exact (val_ok_same_units s _ _ _ eq_refl V)|].
    split; [|repeat split].
    split; [apply UInv_cache_add; exact U|].
    apply cache_add_ok; assumption.
Qed.

Theorem unit_mul_undefined s u v s' e :
  unit_mul s u v = (s', Err e) ->
  s' = s /\ e = EUndefinedResult /\ resolve s (nf_mul (ru_nf u) (ru_nf v)) = None.
Proof.
  unfold unit_mul.
  destruct (cache_get s KMul (ru_id u) (ru_id v)); [discriminate|].
  destruct (resolve s (nf_mul (ru_nf u) (ru_nf v))); [discriminate|].
  intros H. injection H as <- <-. auto.
Qed.

(* ---------- unit / unit ---------- *)
Lemma same_found s a u v : find_unit s a = Some u -> find_unit s a = Some v -> u = v.
Proof. congruence. Qed.

Lemma div_self_ok s u : nf_wf (ru_nf u) -> val_ok s (opnf KDiv u u) (1%Q, None).
Proof.
  intros [Hn Hw]. unfold val_ok, opnf. cbn [fst snd nf_mul nf_inv nf_dim nf_num].
  split; [apply dv_mul_inv_r; exact Hw|].
  rewrite qmul_eq, Qred_correct. field. exact Hn.
Qed.

Theorem unit_div_sound s u v s' r :
  Inv s -> find_unit s (ru_id u) = Some u -> find_unit s (ru_id v) = Some v ->
  unit_div s u v = (s', Ok r) ->
  val_ok s' (opnf KDiv u v) r /\ Inv s' /\ st_units s' = st_units s /\ st_termmap s' = st_termmap s
  /\ st_classes s' = st_classes s.
Proof.
  intros [U C] Hu Hv. unfold unit_div, cache_get.
  destruct (find_unit_In _ _ _ Hu) as [Iu _], (find_unit_In _ _ _ Hv) as [Iv _].
  assert (K : forall r0, val_ok s (opnf KDiv u v) r0 ->
              val_ok (cache_add s KDiv (ru_id u) (ru_id v) r0) (opnf KDiv u v) r0 /\
              Inv (cache_add s KDiv (ru_id u) (ru_id v) r0) /\
              st_units (cache_add s KDiv (ru_id u) (ru_id v) r0) = st_units s /\
              st_termmap (cache_add s KDiv (ru_id u) (ru_id v) r0) = st_termmap s /\
              st_classes (cache_add s KDiv (ru_id u) (ru_id v) r0) = st_classes s).
  { intros r0 V. split; [exact (val_ok_same_units s _ _ _ eq_refl V)|].
    split; [|repeat split].
    split; [apply UInv_cache_add; exact U|].
    apply cache_add_ok; assumption. }
  destruct (cache_get_in (st_cache s) KDiv (ru_id u) (ru_id v)) as [r0|] eqn:E.
  - intros H. injection H as <- <-. apply cache_get_in_sound in E.
    split; [eapply cache_found; eassumption|]. split; [split; assumption|]. repeat split.
  - destruct (N.eqb (ru_cls u) (ru_cls v)) eqn:Ec.
    + destruct (N.eqb (ru_id u) (ru_id v)) eqn:Ei.
      * intros H. injection H as <- <-. apply K.
        apply N.eqb_eq in Ei. rewrite <- Ei in Hv. rewrite Hu in Hv. injection Hv as <-.
        apply div_self_ok. apply (ui_wf s U). exact Iu.
      * destruct (ru_equiv u) as [a|] eqn:Ea; [|discriminate].
        destruct (ru_equiv v) as [b|] eqn:Eb; [|discriminate].
        intros H. injection H as <- <-. apply K.
        destruct (ui_wf s U u Iu) as [Nu Wu], (ui_wf s U v Iv) as [Nv Wv].
        pose proof (ui_equiv s U u a Iu Ea) as Xa. pose proof (ui_equiv s U v b Iv Eb) as Xb.
        assert (D : nf_dim (ru_nf u) = nf_dim (ru_nf v)).
        { apply (ui_uniform s U); try assumption; try congruence. apply N.eqb_eq. exact Ec. }
        unfold val_ok, opnf. cbn [fst snd nf_mul nf_inv nf_dim nf_num]. split.
        -- rewrite D. apply dv_mul_inv_r. exact Wv.
        -- rewrite qdiv_ok, qmul_eq, Qred_correct, Xa, Xb. field. exact Nv.
    + destruct (resolve s (nf_mul (ru_nf u) (nf_inv (ru_nf v)))) as [r0|] eqn:R; [|discriminate].
      intros H. injection H as <- <-. apply K.
      apply resolve_sound; [apply U | exact R].
Qed.

(* ---------- unit ** k ---------- *)
Theorem unit_pow_sound s u k r :
  TM_ok s -> unit_pow s u k = Ok r -> val_ok s (nf_pow (ru_nf u) k) r.
Proof.
  intros TM. unfold unit_pow.
  destruct (resolve s (nf_pow (ru_nf u) k)) as [r0|] eqn:R; [|discriminate].
  intros H. injection H as <-. apply resolve_sound; assumption.
Qed.

(* ---------- C17: the cache never changes a value ---------- *)
Definition clear_cache (s : state) : state :=
  mkSt (st_classes s) (st_units s) (st_termmap s) [].

(* two results that denote the same x denote the same value *)
Definition res_value (s : state) (r : Q * option N) : option nform :=
  match snd r with
  | Some w => match find_unit s w with
              | Some u => Some (nf_scale (fst r) (ru_nf u))
              | None => None
              end
  | None => Some (mkNf (fst r) [])
  end.

Lemma val_ok_value s x r : val_ok s x r -> exists y, res_value s r = Some y /\ nf_eq y x.
Proof.
  unfold val_ok, res_value. destruct (snd r) as [w|].
  - intros (u & Hu & He). rewrite Hu. eauto.
  - intros [Hd Hn]. eexists. split; [reflexivity|]. split; cbn; [exact Hn | symmetry; exact Hd].
Qed.

Lemma Inv_clear s : Inv s -> Inv (clear_cache s).
Proof.
  intros [[A B C D E] _]. split; [constructor; assumption|].
  intros o a b r [].
Qed.

Theorem cache_transparent_mul s u v s1 r1 s2 r2 :
  Inv s -> find_unit s (ru_id u) = Some u -> find_unit s (ru_id v) = Some v ->
  unit_mul s u v = (s1, Ok r1) -> unit_mul (clear_cache s) u v = (s2, Ok r2) ->
  exists y1 y2, res_value s r1 = Some y1 /\ res_value s r2 = Some y2 /\ nf_eq y1 y2.
Proof.
  intros I Hu Hv H1 H2.
  destruct (unit_mul_sound _ _ _ _ _ I Hu Hv H1) as (V1 & _ & U1 & _).
  destruct (unit_mul_sound _ _ _ _ _ (Inv_clear s I) Hu Hv H2) as (V2 & _ & U2 & _).
  apply (val_ok_same_units s1 s) in V1; [|symmetry; exact U1].
  apply (val_ok_same_units s2 s) in V2; [|symmetry; exact U2].
  destruct (val_ok_value _ _ _ V1) as (y1 & E1 & Q1), (val_ok_value _ _ _ V2) as (y2 & E2 & Q2).
  exists y1, y2. split; [exact E1|]. split; [exact E2|].
  apply (nf_eq_trans _ _ _ Q1). apply nf_eq_sym. exact Q2.
Qed.

(* the cached and the uncached evaluation succeed or fail together *)
Lemma cache_get_in_clear o a b : cache_get_in [] o a b = None.
Proof. reflexivity. Qed.
