(* Proofs/C07Proofs.v — statements of property C07 in terms of the denotation
   den : term -> G (Model/Dim.v), and soundness of the decidable table check. *)
From Coq Require Import ZArith QArith Qabs List Bool Lia Lqa Qpower Permutation
     Setoid Morphisms.
From QV Require Import Model.Num Model.Dim Model.Term Proofs.DimProofs
     Proofs.C07Sem Proofs.C07Reduce Proofs.C07Shape Proofs.C07Canon.
Open Scope Z_scope.

(* ---------- transfer between nform and G ---------- *)
Lemma sem_nf_inv x : geq (sem_nf (nf_inv x)) (gpow (sem_nf x) (-1)).
Proof.
  split; cbn [sem_nf nf_inv nf_num nf_dim fst snd gpow].
  - rewrite Qred_correct. reflexivity.
  - intros i. rewrite dv_inv_get. lia.
Qed.

Lemma sem_nf_scale q x : geq (sem_nf (nf_scale q x)) (gmul (gnum q) (sem_nf x)).
Proof.
  split; cbn [sem_nf nf_scale nf_num nf_dim fst snd gmul gnum].
  - apply qmul_eq.
  - intros i. lia.
Qed.

Section Statements.
Variable E : env.
Hypothesis HS : env_sound E.

Lemma den_wf l : dv_wf (nf_dim (den E l)) = true.
Proof. apply den_sem. Qed.
Lemma den_sem' l : geq (sem_nf (den E l)) (sem E l).
Proof. apply den_sem. Qed.

(* every path of _reduce_items preserves the denoted value *)
Theorem reduce_den lazy n keep l :
  nf_eq (den E (reduce_items E lazy n keep l)) (den E l).
Proof. apply den_eq_iff. apply reduce_items_sem. exact HS. Qed.

Theorem mk_term_den sized reduce l : nf_eq (den E (mk_term E sized reduce l)) (den E l).
Proof. apply den_eq_iff. apply mk_term_sem. exact HS. Qed.

Theorem norm_den t : nf_eq (den E (normalized E t)) (den E t).
Proof. apply den_eq_iff. apply normalized_sem. exact HS. Qed.

Lemma to_geq x y :
  dv_wf (nf_dim x) = true -> dv_wf (nf_dim y) = true ->
  geq (sem_nf x) (sem_nf y) -> nf_eq x y.
Proof. intros. apply nf_eq_geq; auto. Qed.

Theorem ops_den s t q k :
  nf_eq (den E (mul E s t)) (nf_mul (den E s) (den E t)) /\
  nf_eq (den E (div E s t)) (nf_mul (den E s) (nf_inv (den E t))) /\
  nf_eq (den E (mul_num E s q)) (nf_scale q (den E s)) /\
  nf_eq (den E (div_num E s q)) (nf_scale (/ q) (den E s)) /\
  nf_eq (den E (rdiv_num E q s)) (nf_scale q (nf_inv (den E s))) /\
  nf_eq (den E (reciprocal s)) (nf_inv (den E s)) /\
  nf_eq (den E (pow E s k)) (nf_pow (den E s) k).
Proof.
  refine (conj _ (conj _ (conj _ (conj _ (conj _ (conj _ _)))))).
  - apply to_geq; [apply den_wf | apply dv_mul_wf_r, den_wf |].
    rewrite den_sem', sem_nf_mul by apply den_wf. rewrite !den_sem'. apply mul_sem. exact HS.
  - apply to_geq; [apply den_wf | apply dv_mul_wf_r, dv_inv_wf, den_wf |].
    rewrite den_sem', sem_nf_mul by (try apply dv_inv_wf; apply den_wf).
    rewrite sem_nf_inv, !den_sem'. apply div_sem. exact HS.
  - apply to_geq; [apply den_wf | apply den_wf |].
    rewrite den_sem', sem_nf_scale, den_sem'. apply mul_num_sem. exact HS.
  - apply to_geq; [apply den_wf | apply den_wf |].
    rewrite den_sem', sem_nf_scale, den_sem'. apply div_num_sem. exact HS.
  - apply to_geq; [apply den_wf | apply dv_inv_wf, den_wf |].
    rewrite den_sem', sem_nf_scale, sem_nf_inv, den_sem'. apply rdiv_num_sem. exact HS.
  - apply to_geq; [apply den_wf | apply dv_inv_wf, den_wf |].
    rewrite den_sem', sem_nf_inv, den_sem'. apply recip_sem.
  - apply to_geq; [apply den_wf | apply dv_scale_wf, den_wf |].
    rewrite den_sem', sem_nf_pow, den_sem'. apply pow_sem. exact HS.
Qed.

(* terms over non-zero numbers denote elements of the group Q* x Z^B *)
Lemma sem_gnz l : items_ok l = true -> gnz (sem E l).
Proof.
  induction l as [|[x e] l IH]; cbn [items_ok forallb]; intros H.
  - apply gnz_one.
  - apply andb_prop in H as [H1 H2]. rewrite sem_cons. apply gnz_mul; [|apply IH; exact H2].
    destruct x as [q|a].
    + unfold gnz. cbn. unfold item_ok in H1. cbn in H1. apply Qpower_nz.
      intros Hq. apply Qeq_bool_iff in Hq. rewrite Hq in H1. discriminate.
    + apply gnz_pow. apply semE_nz. exact HS.
Qed.

Theorem den_in_group l : items_ok l = true -> nf_wf (den E l).
Proof.
  intros H. split; [|apply den_wf].
  destruct (den_sem' l) as [H1 _]. cbn [sem_nf fst] in H1. rewrite H1.
  apply sem_gnz. exact H.
Qed.

(* normalized() yields the canonical form *)
Theorem norm_shape t : items_ok t = true -> canonical E (normalized E t) = true.
Proof. apply normalized_canonical. exact HS. Qed.

(* == decides equality of denotations *)
Theorem eq_iff_den s t :
  items_ok s = true -> items_ok t = true ->
  (term_eqb E s t = true <-> nf_eq (den E s) (den E t)).
Proof.
  intros Hs Ht. rewrite den_eq_iff. split.
  - apply term_eqb_sound. exact HS.
  - apply term_eqb_complete; auto.
Qed.

Theorem eq_hash s t :
  items_ok s = true -> term_eqb E s t = true -> hash_key E s = hash_key E t.
Proof. apply term_eqb_hash. exact HS. Qed.

Theorem norm_idem t :
  items_ok t = true -> normalized E (normalized E t) = normalized E t.
Proof. apply normalized_idem. exact HS. Qed.

End Statements.

(* exactness: a typing fact of the model — every number is a ratio of integers *)
Definition exact_item (it : item) : Prop :=
  match fst it with Num q => exists n d, q = Qmake n d | El _ => True end.
Lemma all_exact (l : list item) : Forall exact_item l.
Proof.
  induction l as [|[[q|a] e] l IH]; constructor; auto; unfold exact_item; cbn; auto.
  destruct q as [n d]. eauto.
Qed.

(* ---------- the decidable check of a finite element table is sound ---------- *)
Section Table.
Variable tbl : list (N * elem_info).
Let E := env_of_table tbl.
Let dom := table_dom tbl.

Lemma table_find_dom a i : table_find tbl a = Some i -> In a dom.
Proof.
  unfold dom, table_dom. induction tbl as [|[b j] r IH]; cbn; [discriminate|].
  destruct (N.eqb_spec a b); [intros _; left; auto | intros H; right; auto].
Qed.

Lemma dom_or_default a : In a dom \/ E a = default_info a.
Proof.
  unfold E, env_of_table. destruct (table_find tbl a) eqn:H; [left | right; reflexivity].
  eapply table_find_dom; eauto.
Qed.

Hypothesis Hok : table_ok tbl = true.

Lemma elem_ok_dom a : In a dom -> elem_ok E dom a = true.
Proof.
  intros Ha. unfold table_ok, env_ok in Hok. apply andb_prop in Hok as [H _].
  rewrite forallb_forall in H. apply H. exact Ha.
Qed.

Lemma pair_ok_dom a b : In a dom -> In b dom -> pair_ok E a b = true.
Proof.
  intros Ha Hb. unfold table_ok, env_ok in Hok. apply andb_prop in Hok as [_ H].
  rewrite forallb_forall in H. specialize (H a Ha). rewrite forallb_forall in H. apply H. exact Hb.
Qed.

Lemma scale_some_dom a s : e_scale (E a) = Some s -> In a dom.
Proof.
  intros H. destruct (dom_or_default a) as [Ha|Ha]; auto.
  rewrite Ha in H. discriminate.
Qed.

Lemma scale_nz a s : e_scale (E a) = Some s -> ~ s == 0.
Proof.
  intros H. pose proof (elem_ok_dom a (scale_some_dom a s H)) as Hk.
  unfold elem_ok in Hk. apply andb_prop in Hk as [Hk _]. apply andb_prop in Hk as [_ Hk].
  rewrite H in Hk. intros Hs. apply Qeq_bool_iff in Hs. rewrite Hs in Hk. discriminate.
Qed.

Lemma factor_sym a b : factor E b a = None -> factor E a b = None.
Proof.
  unfold factor. rewrite (N.eqb_sym (e_cls (E a))).
  destruct (N.eqb _ _); auto.
  destruct (e_scale (E b)), (e_scale (E a)); auto; discriminate.
Qed.

Theorem table_ok_sound : env_sound E.
Proof.
  constructor.
  - (* es_base *)
    intros a Hb. destruct (dom_or_default a) as [Ha|Ha].
    + pose proof (elem_ok_dom a Ha) as Hk. unfold elem_ok in Hk.
      repeat (apply andb_prop in Hk as [Hk _]). rewrite Hb in Hk.
      destruct (e_nf (E a)) as [|[[q|b] e] [|? ?]]; try discriminate.
      apply andb_prop in Hk as [K1 K2]. apply N.eqb_eq in K1. apply Z.eqb_eq in K2.
      subst. reflexivity.
    + rewrite Ha. reflexivity.
  - (* es_canon *)
    intros a. destruct (dom_or_default a) as [Ha|Ha].
    + pose proof (elem_ok_dom a Ha) as Hk. unfold elem_ok in Hk.
      do 3 (apply andb_prop in Hk as [Hk _]). apply andb_prop in Hk as [_ Hk]. exact Hk.
    + rewrite Ha. cbn [e_nf default_info canonical].
      unfold canon_elems, base_elem_item. cbn [forallb fst]. rewrite Ha. reflexivity.
  - (* es_factor *)
    intros a b c Hf. unfold factor in Hf.
    destruct (N.eqb (e_cls (E b)) (e_cls (E a))) eqn:Hc; [|discriminate].
    destruct (e_scale (E b)) as [s|] eqn:Hs; [|discriminate].
    destruct (e_scale (E a)) as [t|] eqn:Ht; [|discriminate].
    injection Hf as <-.
    pose proof (scale_nz _ _ Hs) as Hsn. pose proof (scale_nz _ _ Ht) as Htn.
    pose proof (pair_ok_dom b a (scale_some_dom _ _ Hs) (scale_some_dom _ _ Ht)) as Hp.
    unfold pair_ok in Hp. apply andb_prop in Hp as [Hp _]. apply andb_prop in Hp as [Hp _].
    rewrite Hc, Hs, Ht in Hp. apply andb_prop in Hp as [P1 P2].
    apply dv_eqb_eq in P1. apply Qeq_bool_iff in P2.
    split.
    + unfold qdiv. rewrite Qred_correct. intros H.
      apply Qmult_integral in H as [H|H]; [tauto|].
      apply Htn. rewrite <- (Qinv_involutive t), H. reflexivity.
    + split; cbn [nf_scale nf_num nf_dim]; auto.
      rewrite qmul_eq. unfold qdiv. rewrite Qred_correct.
      transitivity (nf_num (den_elem E b) * t / t)%Q; [field; exact Htn|].
      rewrite P2. field. exact Htn.
  - (* es_factor_sym *)
    intros a b. apply factor_sym.
  - (* es_names *)
    intros a b Hab Hkey Hf Hname.
    assert (Hdef : forall x y, In x dom -> E y = default_info y ->
                               e_name (E x) = e_name (E y) -> False).
    { intros x y Hx Hy Hn. pose proof (elem_ok_dom x Hx) as Hk. unfold elem_ok in Hk.
      apply andb_prop in Hk as [_ Hk]. rewrite Hn, Hy in Hk. discriminate. }
    destruct (dom_or_default a) as [Ha|Ha], (dom_or_default b) as [Hb|Hb].
    + pose proof (pair_ok_dom a b Ha Hb) as Hp. unfold pair_ok in Hp.
      apply andb_prop in Hp as [Hp _]. apply andb_prop in Hp as [_ Hp].
      apply N.eqb_neq in Hab. rewrite Hab, Hkey, Pos.eqb_refl in Hp. cbn [negb andb] in Hp.
      rewrite (factor_sym _ _ Hf) in Hp. rewrite Hname in Hp.
      unfold name_eqb in Hp. rewrite name_ltb_irrefl in Hp. discriminate.
    + eapply Hdef; eauto.
    + eapply Hdef; eauto.
    + rewrite Ha, Hb in Hname. cbn in Hname. congruence.
  - (* es_pyeq *)
    intros a b Hbase Hpy. cbn [elem_pyeq] in Hpy.
    destruct (N.eqb_spec a b) as [|Hab]; auto. cbn [orb] in Hpy.
    apply andb_prop in Hpy as [Hc Hsc].
    destruct (e_scale (E a)) as [s|] eqn:Hs; [|discriminate].
    destruct (e_scale (E b)) as [t|] eqn:Ht; [|discriminate].
    pose proof (pair_ok_dom a b (scale_some_dom _ _ Hs) (scale_some_dom _ _ Ht)) as Hp.
    unfold pair_ok in Hp. apply andb_prop in Hp as [_ Hp].
    rewrite Hbase in Hp. cbn [andb elem_pyeq] in Hp.
    rewrite Hc, Hs, Ht, Hsc in Hp. rewrite orb_true_r in Hp. apply N.eqb_eq in Hp. exact Hp.
Qed.

End Table.

Lemma exact_ops (E : env) (t : term) :
  Forall exact_item (normalized E t) /\ forall s k, Forall exact_item (pow E (mul E s t) k).
Proof. split; [apply all_exact | intros; apply all_exact]. Qed.

Lemma group_laws x y z : nf_wf x -> nf_wf y -> nf_wf z ->
  nf_eq (nf_mul x y) (nf_mul y x) /\
  nf_eq (nf_mul x (nf_mul y z)) (nf_mul (nf_mul x y) z) /\
  nf_eq (nf_mul nf_one x) x /\
  nf_eq (nf_mul x (nf_inv x)) nf_one.
Proof.
  intros Hx Hy Hz.
  exact (conj (nf_mul_comm x y Hx Hy)
        (conj (nf_mul_assoc x y z Hx Hy Hz)
        (conj (nf_mul_one_l x) (nf_mul_inv_r x Hx)))).
Qed.
