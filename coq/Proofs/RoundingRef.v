From Coq Require Import ZArith List Bool Lia ZifyBool QArith.
From QV Require Import Model.Num Model.Rounding Proofs.RoundingCommon.
Ltac Zify.zify_post_hook ::= Z.to_euclidean_division_equations.
Open Scope Z_scope.

(* ---------- the reference rounding meets the specification -------------- *)
Theorem rnd_ref_z_spec : forall m x y, 0 < y -> RoundsTo m x y (rnd_ref_z m x y).
Proof.
  intros m x y Hy. unfold rnd_ref_z. cbv zeta.
  destruct (divmod_intro x y Hy) as (q & r & Hx & Hr & Hq & Hm).
  rewrite Hq. replace (x - q * y) with r by lia.
  destruct (r =? 0) eqn:E0.
  - unfold RoundsTo. assert (r = 0) by lia. subst r. assert (x = q * y) by lia.
    destruct m; try (split; [lia|]); try (left; lia); try lia.
  - assert (Hr0 : 0 < r) by lia.
    assert (Hquot : Z.quot x y = if q <? 0 then q + 1 else q)
      by (apply (quot_of_floor x y q r); lia).
    assert (Hneg : (x <? 0) = (q <? 0)) by (destruct (q <? 0) eqn:?; nia).
    assert (Hax : Z.abs x = if q <? 0 then - x else x)
      by (destruct (q <? 0) eqn:?; nia).
    assert (Haq : Z.abs (q * y) = if q <? 0 then - (q * y) else q * y)
      by (destruct (q <? 0) eqn:?; nia).
    assert (Haq1 : Z.abs ((q + 1) * y) =
                   if q <? 0 then - ((q + 1) * y) else (q + 1) * y)
      by (destruct (q <? 0) eqn:?; nia).
    assert (Hd0 : Z.abs (x - q * y) = r) by nia.
    assert (Hd1 : Z.abs (x - (q + 1) * y) = y - r) by nia.
    rewrite Hneg. unfold RoundsTo.
    destruct m; cbv zeta; rewrite ?Hquot.
    all: destruct (q <? 0) eqn:Eq.
    all: repeat match goal with
                | |- context[if ?b then _ else _] => destruct b eqn:?
                end.
    all: rewrite ?Hax, ?Haq, ?Haq1, ?Hd0, ?Hd1; rewrite ?Eq.
    all: try (split; [lia|]).
    all: try lia.
    all: try (right; split; [lia|]); try lia.
Qed.

