From Coq Require Import ZArith List Bool Lia ZifyBool QArith.
From QV Require Import Model.Num Model.Rounding Gen.RoundingImpl Proofs.RoundingCommon.
Ltac Zify.zify_post_hook ::= Z.to_euclidean_division_equations.
Open Scope Z_scope.

(* ---------- the generated implementation meets the specification -------- *)
Theorem floordiv_rounded_spec : forall m x y, 0 < y ->
  exists n, floordiv_rounded x y m = Some n /\ RoundsTo m x y n.
Proof.
  intros m x y Hy. unfold floordiv_rounded. cbv zeta.
  destruct (divmod_intro x y Hy) as (q & r & Hx & Hr & Hq & Hm).
  rewrite Hq, Hm.
  assert (Hqy : q * y <= x < q * y + y) by lia.
  destruct (r =? 0) eqn:E0.
  - eexists; split; [reflexivity|]. unfold RoundsTo.
    assert (r = 0) by lia. subst r. assert (x = q * y) by lia.
    destruct m; try (split; [lia|]); try (left; lia); try lia.
  - assert (Hr0 : 0 < r) by lia.
    assert (Hquot : Z.quot x y = if q <? 0 then q + 1 else q)
      by (apply (quot_of_floor x y q r); lia).
    assert (Hax : Z.abs x = if q <? 0 then - x else x)
      by (destruct (q <? 0) eqn:?; nia).
    assert (Haq : Z.abs (q * y) = if q <? 0 then - (q * y) else q * y)
      by (destruct (q <? 0) eqn:?; nia).
    assert (Haq1 : Z.abs ((q + 1) * y) =
                   if q <? 0 then - ((q + 1) * y) else (q + 1) * y)
      by (destruct (q <? 0) eqn:?; nia).
    assert (Hd0 : Z.abs (x - q * y) = r) by nia.
    assert (Hd1 : Z.abs (x - (q + 1) * y) = y - r) by nia.
    destruct m; cbn [mode_eqb]; cbv zeta.
    all: repeat match goal with
                | |- context[if ?b then Some _ else Some _] => destruct b eqn:?
                end.
    all: eexists; split; [reflexivity|]; unfold RoundsTo; cbv zeta.
    all: rewrite ?Hquot, ?Hax, ?Haq, ?Haq1, ?Hd0, ?Hd1.
    all: destruct (q <? 0) eqn:Eq.
    all: repeat match goal with
                | |- context[if ?b then _ else _] => destruct b eqn:?
                end.
    all: rewrite ?Hax, ?Haq, ?Haq1, ?Hd0, ?Hd1; rewrite ?Eq.
    all: try lia.
    all: try (right; split; [lia|]); try lia.
Qed.

