(* C20: the predefined catalogue matches SI / the international yard and pound
   / IEC, its own definitions, the SI prefixes and the module documentation.

   All data theorems are finite and exhaustive: a boolean check is evaluated
   by vm_compute over EVERY element of the generated lists (Gen/Catalogue.v,
   Gen/Prefixes.v, Gen/DocTables.v — regenerated from /repo on every run) and
   lifted to a statement about every element with forallb_forall.  The
   statement about arbitrary amounts is C01 instantiated. *)
From Coq Require Import ZArith QArith Qabs List Bool Lia Lqa String Qreduction.
From QV Require Import Model.Num Model.Rounding Gen.RoundingImpl Model.Quantity
     Model.Catalogue Gen.Catalogue Gen.Prefixes Gen.DocTables Ref.SIRef
     Proofs.QuantityProofs Proofs.C13Proofs Proofs.C01Proofs.
Open Scope Q_scope.

Notation C := the_catalogue.

(* ---------- small general facts ------------------------------------------- *)
Lemma seqb_eq a b : seqb a b = true -> a = b.
Proof. apply String.eqb_eq. Qed.

Lemma mem_str_In s l : mem_str s l = true -> In s l.
Proof.
  unfold mem_str. rewrite existsb_exists. intros (x & Hx & E).
  apply seqb_eq in E. subst x. exact Hx.
Qed.

Lemma si_lookup_In {A} (l : list (string * A)) s v : si_lookup l s = Some v -> In (s, v) l.
Proof.
  induction l as [|[k w] r IH]; simpl; [discriminate|].
  destruct (String.eqb k s) eqn:E.
  - intros H. injection H as ->. apply String.eqb_eq in E. subst k. left. reflexivity.
  - intros H. right. apply IH. exact H.
Qed.

Lemma find_unit_in_In l s u : find_unit_in l s = Some u -> In u l /\ cu_sym u = s.
Proof.
  induction l as [|x r IH]; simpl; [discriminate|].
  destruct (seqb (cu_sym x) s) eqn:E.
  - intros H. injection H as ->. split; [left; reflexivity|apply seqb_eq; exact E].
  - intros H. destruct (IH H) as [I S]. split; [right; exact I|exact S].
Qed.

Lemma find_type_in_In l n t : find_type_in l n = Some t -> In t l /\ ct_name t = n.
Proof.
  induction l as [|x r IH]; simpl; [discriminate|].
  destruct (seqb (ct_name x) n) eqn:E.
  - intros H. injection H as ->. split; [left; reflexivity|apply seqb_eq; exact E].
  - intros H. destruct (IH H) as [I S]. split; [right; exact I|exact S].
Qed.

Lemma oq_eqb_some a q : oq_eqb a (Some q) = true -> exists s, a = Some s /\ s == q.
Proof.
  destruct a as [s|]; simpl; [|discriminate]. intros H. exists s. split; [reflexivity|].
  apply qeqb_iff. exact H.
Qed.

(* ---------- what the executable product means -------------------------------- *)
(* the mathematical product along a definition: numeric^exp and
   scale(component)^exp *)
Fixpoint items_product (sc : string -> Q) (l : list ditem) : Q :=
  match l with
  | [] => 1
  | DNum q e :: r => q ^ e * items_product sc r
  | DUnit s e :: r => sc s ^ e * items_product sc r
  end.

Definition oq_val (o : option Q) : Q := match o with Some x => x | None => 0 end.

Lemma prod_items_spec sc l p :
  prod_items sc l = Some p -> p == items_product (fun s => oq_val (sc s)) l.
Proof.
  revert p. induction l as [|it r IH]; intros p; simpl.
  - intros H. injection H as <-. reflexivity.
  - destruct it as [q e|s e].
    + destruct (qzero q); [discriminate|].
      destruct (prod_items sc r) as [y|]; [|discriminate].
      intros H. injection H as <-. rewrite qmul_ok, qpow_ok, (IH y eq_refl). reflexivity.
    + destruct (sc s) as [x|]; [|discriminate].
      destruct (prod_items sc r) as [y|]; [|discriminate].
      destruct (qzero x); [discriminate|].
      intros H. injection H as <-. rewrite qmul_ok, qpow_ok, (IH y eq_refl). reflexivity.
Qed.

(* the scale the model computes for a symbol (0 when there is none) *)
Definition cat_scale (s : string) : Q := oq_val (scale_sym C s).

(* symbols identify units: looking a unit's symbol up returns that unit *)
Lemma find_unit_self u : In u cat_units -> find_unit C (cu_sym u) = Some u.
Proof.
  revert u. apply Forall_forall.
  repeat (constructor; [vm_compute; reflexivity|]). constructor.
Qed.

(* ---------- scales --------------------------------------------------------- *)
(* every unit of a type with a reference unit has a scale — the fuelled
   computation never runs dry and never meets an unknown symbol — and the
   units of a type without reference unit have none *)
Definition scale_defined_check (u : cunit) : bool :=
  match find_type C (cu_cls u) with
  | Some t => Bool.eqb (is_some (ct_ref t)) (is_some (scale_of C u))
  | None => false
  end.

Lemma scales_defined_all : forallb scale_defined_check cat_units = true.
Proof. vm_compute. reflexivity. Qed.

Theorem scales_defined u : In u cat_units ->
  exists t, In t cat_types /\ ct_name t = cu_cls u /\
            (ct_ref t <> None <-> scale_of C u <> None).
Proof.
  intros I. pose proof (proj1 (forallb_forall _ _) scales_defined_all u I) as H.
  unfold scale_defined_check in H.
  destruct (find_type C (cu_cls u)) as [t|] eqn:F; [|discriminate].
  apply find_type_in_In in F. destruct F as [It Nt].
  exists t. split; [exact It|]. split; [exact Nt|].
  destruct (ct_ref t), (scale_of C u); simpl in H; try discriminate;
    split; intros X; try discriminate; try (exfalso; apply X; reflexivity).
Qed.

Definition scale_check (u : cunit) : bool :=
  match si_lookup si_ref (cu_sym u) with
  | Some (t, q) => seqb t (cu_cls u) && oq_eqb (scale_of C u) (Some q)
  | None => mem_str (cu_sym u) si_temp_units && negb (is_some (scale_of C u))
  end.

Lemma scales_all : forallb scale_check cat_units = true.
Proof. vm_compute. reflexivity. Qed.

Theorem scales_match u : In u cat_units ->
  match si_lookup si_ref (cu_sym u) with
  | Some (t, q) => t = cu_cls u /\ exists s, scale_of C u = Some s /\ s == q
  | None => In (cu_sym u) si_temp_units /\ scale_of C u = None
  end.
Proof.
  intros I. pose proof (proj1 (forallb_forall _ _) scales_all u I) as H.
  unfold scale_check in H. destruct (si_lookup si_ref (cu_sym u)) as [[t q]|].
  - apply andb_true_iff in H. destruct H as [H1 H2]. split; [apply seqb_eq; exact H1|].
    apply oq_eqb_some. exact H2.
  - apply andb_true_iff in H. destruct H as [H1 H2]. split; [apply mem_str_In; exact H1|].
    destruct (scale_of C u); [discriminate|reflexivity].
Qed.

(* the reference knows no unit the catalogue lacks; reference units agree *)
Definition ref_entry_check (e : string * (string * Q)) : bool :=
  match find_unit C (fst e) with
  | Some u => seqb (cu_cls u) (fst (snd e))
  | None => false
  end.
Definition ref_unit_check (e : string * string) : bool :=
  match find_type C (fst e) with
  | Some t => ostr_eqb (ct_ref t) (Some (snd e))
  | None => false
  end.
Definition type_ref_check (t : ctype) : bool :=
  match ct_ref t with
  | Some r => match si_lookup si_ref_unit (ct_name t) with
              | Some r' => seqb r r'
              | None => false
              end
  | None => negb (is_some (si_lookup si_ref_unit (ct_name t)))
  end
  && match ct_quantum t, si_lookup si_quantum (ct_name t) with
     | Some a, Some b => qeqb a b
     | None, None => true
     | _, _ => false
     end.

Lemma reference_all :
  forallb ref_entry_check si_ref = true /\ forallb ref_unit_check si_ref_unit = true
  /\ forallb type_ref_check cat_types = true.
Proof. vm_compute. repeat split. Qed.

Theorem reference_complete :
  (forall s t q, In (s, (t, q)) si_ref ->
     exists u, In u cat_units /\ cu_sym u = s /\ cu_cls u = t) /\
  (forall n r, In (n, r) si_ref_unit ->
     exists t, In t cat_types /\ ct_name t = n /\ ct_ref t = Some r) /\
  (forall t, In t cat_types ->
     ct_ref t = si_lookup si_ref_unit (ct_name t) /\
     match ct_quantum t, si_lookup si_quantum (ct_name t) with
     | Some a, Some b => a == b
     | None, None => True
     | _, _ => False
     end).
Proof.
  destruct reference_all as (H1 & H2 & H3). split; [|split].
  - intros s t q I. pose proof (proj1 (forallb_forall _ _) H1 _ I) as H. clear H1 H2 H3.
    unfold ref_entry_check in H. cbn [fst snd] in H.
    destruct (find_unit C s) as [u|] eqn:F; [|discriminate H].
    apply find_unit_in_In in F. destruct F as [Iu Su].
    exists u. split; [exact Iu|]. split; [exact Su|]. apply seqb_eq. exact H.
  - intros n r I. pose proof (proj1 (forallb_forall _ _) H2 _ I) as H. clear H1 H2 H3.
    unfold ref_unit_check in H. cbn [fst snd] in H.
    destruct (find_type C n) as [t|] eqn:F; [|discriminate H].
    apply find_type_in_In in F. destruct F as [It Nt].
    exists t. split; [exact It|]. split; [exact Nt|].
    unfold ostr_eqb in H. destruct (ct_ref t) as [x|]; [|discriminate H].
    apply seqb_eq in H. subst x. reflexivity.
  - intros t I. pose proof (proj1 (forallb_forall _ _) H3 _ I) as H. clear H1 H2 H3.
    unfold type_ref_check in H. apply andb_true_iff in H. destruct H as [Ha Hb]. split.
    + destruct (ct_ref t) as [r|].
      * destruct (si_lookup si_ref_unit (ct_name t)) as [r'|]; [|discriminate Ha].
        apply seqb_eq in Ha. subst r'. reflexivity.
      * destruct (si_lookup si_ref_unit (ct_name t)); [discriminate Ha|reflexivity].
    + destruct (ct_quantum t), (si_lookup si_quantum (ct_name t)); try discriminate Hb;
        [apply qeqb_iff; exact Hb|exact Logic.I].
Qed.

(* ---------- chain consistency ------------------------------------------------ *)
Definition chain_check (u : cunit) : bool :=
  match cu_def u with
  | None => true
  | Some _ => is_some (scale_of C u) && oq_eqb (scale_of C u) (def_product C u)
  end
  && (if is_ref C u then oq_eqb (scale_of C u) (Some 1) else true).

Lemma chain_all : forallb chain_check cat_units = true.
Proof. vm_compute. reflexivity. Qed.

(* for EVERY unit that has a definition — reference units included — the
   scale is the product, along the declared definition, of the numeric
   factors and of the component units' scales, each to its exponent *)
Theorem chain_consistent u items : In u cat_units -> cu_def u = Some items ->
  exists s, scale_of C u = Some s /\ s == items_product cat_scale items.
Proof.
  intros I D. pose proof (proj1 (forallb_forall _ _) chain_all u I) as H.
  unfold chain_check in H. apply andb_true_iff in H. destruct H as [H _].
  rewrite D in H. apply andb_true_iff in H. destruct H as [Hs He].
  destruct (scale_of C u) as [s|]; [|discriminate]. exists s. split; [reflexivity|].
  unfold def_product in He. rewrite D in He.
  destruct (prod_items (scale_sym C) items) as [p|] eqn:P; [|discriminate].
  simpl in He. apply qeqb_iff in He. rewrite He.
  apply (prod_items_spec (scale_sym C) items p P).
Qed.

Theorem ref_scale_one u : In u cat_units -> is_ref C u = true -> scale_of C u = Some 1.
Proof.
  intros I R. unfold scale_of. simpl. rewrite R. reflexivity.
Qed.

(* the modelled assumption, checked on the data: reference units of derived
   types are products of reference units, every defined unit has the
   dimension of its type *)
Lemma coherence_all : refs_coherent C = true /\ dims_ok C = true.
Proof. vm_compute. split; reflexivity. Qed.

Theorem coherence u : In u cat_units ->
  unit_dim_ok C u = true /\ (is_ref C u = true -> ref_def_ok C u = true).
Proof.
  intros I. destruct coherence_all as [H1 H2]. split.
  - exact (proj1 (forallb_forall _ _) H2 u I).
  - intros R. pose proof (proj1 (forallb_forall _ _) H1 u I) as H. simpl in H.
    rewrite R in H. exact H.
Qed.

(* ---------- SI prefixes ------------------------------------------------------ *)
Definition lower_first (s : string) : string :=
  match s with
  | EmptyString => EmptyString
  | String a r =>
      let n := Ascii.N_of_ascii a in
      String (if (N.leb 65 n && N.leb n 90)%bool then Ascii.ascii_of_N (n + 32) else a) r
  end.

Definition prefix_check (p : prefix) : bool :=
  match si_lookup si_prefix_ref (p_abbr p) with
  | Some (name, e) => Z.eqb e (p_exp p) && seqb (lower_first (p_name p)) name
                      && qeqb (prefix_factor prefix_base p) ((10 # 1) ^ e)
  | None => false
  end.

Lemma prefixes_all : forallb prefix_check si_prefixes = true
  /\ nodup_str (map p_abbr si_prefixes) = true.
Proof. vm_compute. split; reflexivity. Qed.

Theorem prefixes_match p : In p si_prefixes ->
  exists name e, si_lookup si_prefix_ref (p_abbr p) = Some (name, e) /\
                 e = p_exp p /\ lower_first (p_name p) = name /\
                 prefix_factor prefix_base p == (10 # 1) ^ e.
Proof.
  intros I. destruct prefixes_all as [H _].
  pose proof (proj1 (forallb_forall _ _) H p I) as K. unfold prefix_check in K.
  destruct (si_lookup si_prefix_ref (p_abbr p)) as [[name e]|]; [|discriminate].
  apply andb_true_iff in K. destruct K as [K K3]. apply andb_true_iff in K. destruct K as [K1 K2].
  exists name, e. split; [reflexivity|]. split; [apply Z.eqb_eq; exact K1|].
  split; [apply seqb_eq; exact K2|apply qeqb_iff; exact K3].
Qed.

(* the SI prefixes the library does not define: exactly the four of 2022 *)
Definition prefixes_missing : list string :=
  filter (fun s => negb (mem_str s (map p_abbr si_prefixes))) (map fst si_prefix_ref).

Theorem prefixes_coverage : prefixes_missing = ["q"; "r"; "R"; "Q"]%string
  /\ List.length si_prefixes = 20%nat.
Proof. vm_compute. split; reflexivity. Qed.

(* ---------- documentation: unit tables ---------------------------------------- *)
Lemma doc_sections_all : forallb (doc_section_ok C) doc_sections = true
  /\ doc_covers_types C doc_sections = true
  /\ doc_nonlinear_ok C doc_nonlinear_rows = true.
Proof. vm_compute. repeat split. Qed.

(* every row: the unit exists, belongs to the section's type, is not the
   reference unit, and the tabulated equivalent is the computed scale *)
Theorem doc_rows_match s r : In s doc_sections -> In r (ds_rows s) ->
  exists u x, In u cat_units /\ cu_sym u = dr_sym r /\ cu_cls u = ds_type s /\
              is_ref C u = false /\ scale_of C u = Some x /\ x == dr_equiv r.
Proof.
  intros Is Ir. destruct doc_sections_all as (H & _ & _).
  pose proof (proj1 (forallb_forall _ _) H s Is) as K. clear H. unfold doc_section_ok in K.
  destruct (find_type C (ds_type s)) as [t|]; [|discriminate K].
  apply andb_true_iff in K. destruct K as [K _]. apply andb_true_iff in K. destruct K as [K _].
  apply andb_true_iff in K. destruct K as [_ K].
  pose proof (proj1 (forallb_forall _ _) K r Ir) as R. clear K. unfold doc_row_ok in R.
  destruct (find_unit C (dr_sym r)) as [u|] eqn:F; [|discriminate R].
  apply find_unit_in_In in F. destruct F as [Iu Su].
  apply andb_true_iff in R. destruct R as [R R3]. apply andb_true_iff in R. destruct R as [R1 R2].
  apply oq_eqb_some in R3. destruct R3 as (x & Hx & Ex).
  exists u, x. split; [exact Iu|]. split; [exact Su|]. split; [apply seqb_eq; exact R1|].
  split; [destruct (is_ref C u); [discriminate R2|reflexivity]|]. split; assumption.
Qed.

(* every type has exactly one section naming its reference unit, and every
   unit that is not a reference unit is tabulated under its type: units with
   a scale in the unit tables, the others in the table of equivalents *)
Theorem doc_complete :
  (forall t, In t cat_types ->
     exists s, In s doc_sections /\ ds_type s = ct_name t) /\
  (forall s, In s doc_sections ->
     exists t, In t cat_types /\ ct_name t = ds_type s /\ ct_ref t = ds_ref s) /\
  (forall u x, In u cat_units -> is_ref C u = false -> scale_of C u = Some x ->
     exists s r, In s doc_sections /\ ds_type s = cu_cls u /\ In r (ds_rows s) /\
                 dr_sym r = cu_sym u) /\
  (forall u, In u cat_units -> scale_of C u = None ->
     exists n, In ((cu_cls u, cu_sym u), n) doc_nonlinear_rows).
Proof.
  destruct doc_sections_all as (H & Hc & Hn). split; [|split; [|split]].
  - intros t It. unfold doc_covers_types in Hc. apply andb_true_iff in Hc. destruct Hc as [Hc _].
    pose proof (proj1 (forallb_forall _ _) Hc t It) as K. apply mem_str_In in K.
    apply in_map_iff in K. destruct K as (s & Es & Is). exists s. split; assumption.
  - intros s Is. pose proof (proj1 (forallb_forall _ _) H s Is) as K. clear H Hc Hn.
    unfold doc_section_ok in K.
    destruct (find_type C (ds_type s)) as [t|] eqn:F; [|discriminate K].
    apply find_type_in_In in F. destruct F as [It Nt].
    exists t. split; [exact It|]. split; [exact Nt|].
    apply andb_true_iff in K. destruct K as [K _]. apply andb_true_iff in K. destruct K as [K _].
    apply andb_true_iff in K. destruct K as [K _].
    unfold ostr_eqb in K.
    destruct (ct_ref t) as [a|], (ds_ref s) as [b|]; try discriminate K; [|reflexivity].
    apply seqb_eq in K. subst b. reflexivity.
  - intros u x Iu Ru Su.
    unfold doc_covers_types in Hc. apply andb_true_iff in Hc. destruct Hc as [Hc _].
    destruct (scales_defined u Iu) as (t & It & Nt & _).
    pose proof (proj1 (forallb_forall _ _) Hc t It) as K. apply mem_str_In in K.
    apply in_map_iff in K. destruct K as (s & Es & Is).
    pose proof (proj1 (forallb_forall _ _) H s Is) as K. clear H Hc Hn. unfold doc_section_ok in K.
    destruct (find_type C (ds_type s)) as [t'|]; [|discriminate K].
    apply andb_true_iff in K. destruct K as [_ K].
    pose proof (proj1 (forallb_forall _ _) K u Iu) as L. cbv beta in L.
    assert (E : ds_type s = cu_cls u) by congruence.
    rewrite E in L. unfold seqb in L at 1. rewrite String.eqb_refl, Ru, Su in L. cbn [negb andb is_some] in L.
    apply mem_str_In in L. apply in_map_iff in L. destruct L as (r & Er & Ir).
    exists s, r. repeat split; assumption.
  - intros u Iu Su. unfold doc_nonlinear_ok in Hn. apply andb_true_iff in Hn. destruct Hn as [Hn Hu].
    apply andb_true_iff in Hn. destruct Hn as [Hr _].
    pose proof (proj1 (forallb_forall _ _) Hu u Iu) as K. cbv beta in K. rewrite Su in K. cbn [is_some] in K.
    apply mem_str_In in K. apply in_map_iff in K. destruct K as ([[ty sy] n] & Er & Ir).
    cbn [fst snd] in Er. subst sy.
    pose proof (proj1 (forallb_forall _ _) Hr _ Ir) as L. cbn [fst snd] in L.
    clear Hr Hu.
    destruct (find_unit C (cu_sym u)) as [u'|] eqn:F; [|discriminate L].
    apply andb_true_iff in L. destruct L as [L _]. apply seqb_eq in L.
    rewrite (find_unit_self u Iu) in F. assert (U : u' = u) by congruence. subst u'.
    exists n. rewrite L. exact Ir.
Qed.

(* ---------- temperature: table converter ------------------------------------- *)
(* the model's conversion between two distinct units of a type without
   reference unit goes through the single registered table *)
Lemma equiv_amount_table ce x u v t k o :
  same_cls u v = true -> same_unit u v = false -> u_has_ref u = false ->
  u_scale u = None -> u_scale v = None ->
  ce (u_cls u) = [t] -> table_get t (u_id u) (u_id v) = Some (k, o) ->
  equiv_amount ce (mkQty x u) v = Ok (Some (qadd (qmul k x) o)).
Proof.
  intros Hc Hs Hr Su Sv Ht Hg.
  unfold equiv_amount, unit_eq, get_factor. cbn [q_unit q_amt].
  rewrite Hc, Su, Sv. cbn [bind]. rewrite Hs, Hr, Ht.
  unfold try_convs, table_conv. cbn [q_unit q_amt]. rewrite Hs, Hg. reflexivity.
Qed.

Lemma formula_ok_sound f x : doc_formula_ok C f = true ->
  exists u v y, view_sym C (df_from f) = Some u /\ view_sym C (df_to f) = Some v /\
    equiv_amount (cat_convenv C) (mkQty x u) v = Ok (Some y) /\
    y == (x + df_pre f) * df_factor f + df_post f.
Proof.
  unfold doc_formula_ok. intros H.
  destruct (view_sym C (df_from f)) as [u|]; [|discriminate].
  destruct (view_sym C (df_to f)) as [v|]; [|discriminate].
  repeat (apply andb_true_iff in H; destruct H as [H ?]).
  destruct (cat_convenv C (u_cls u)) as [|t [|t' r]] eqn:Ec; try discriminate.
  destruct (table_get t (u_id u) (u_id v)) as [[k o]|] eqn:Eg; [|discriminate].
  match goal with X : (qeqb k _ && qeqb o _)%bool = true |- _ =>
    apply andb_true_iff in X; destruct X as [Xk Xo] end.
  apply qeqb_iff in Xk, Xo.
  exists u, v, (qadd (qmul k x) o). split; [reflexivity|]. split; [reflexivity|]. split.
  - apply equiv_amount_table with (t := t); try assumption.
    + destruct (same_unit u v); [discriminate|reflexivity].
    + destruct (u_has_ref u); [discriminate|reflexivity].
    + destruct (u_scale u); [discriminate|reflexivity].
    + destruct (u_scale v); [discriminate|reflexivity].
  - rewrite qadd_ok, qmul_ok, Xk, Xo, qadd_ok, qmul_ok. ring.
Qed.

Lemma doc_formulas_all : forallb (doc_formula_ok C) doc_formulas = true.
Proof. vm_compute. reflexivity. Qed.

(* every documented formula is the registered conversion, for ALL amounts *)
Theorem doc_formulas_match f x : In f doc_formulas ->
  exists u v y, view_sym C (df_from f) = Some u /\ view_sym C (df_to f) = Some v /\
    equiv_amount (cat_convenv C) (mkQty x u) v = Ok (Some y) /\
    y == (x + df_pre f) * df_factor f + df_post f.
Proof.
  intros I. apply formula_ok_sound. exact (proj1 (forallb_forall _ _) doc_formulas_all f I).
Qed.

(* the registered table against the reference relations
   [K] = [°C] + 273.15 and [°F] = [°C] * 9/5 + 32, all six directions *)
Definition temp_ref_formula (e : (string * string) * affine) : doc_formula :=
  mkDocFormula (fst (fst e)) (snd (fst e)) 0 (fst (snd e)) (snd (snd e)).

Definition temp_row_known (r : (string * string) * (Q * Q)) : bool :=
  existsb (fun e => seqb (fst (fst e)) (fst (fst r)) && seqb (snd (fst e)) (snd (fst r)))
          si_temperature.

Lemma temperature_all :
  forallb (fun e => doc_formula_ok C (temp_ref_formula e)) si_temperature = true
  /\ forallb temp_row_known cat_temp = true.
Proof. vm_compute. split; reflexivity. Qed.

Theorem temperature_matches su sv f o x : In ((su, sv), (f, o)) si_temperature ->
  exists u v y, view_sym C su = Some u /\ view_sym C sv = Some v /\
    equiv_amount (cat_convenv C) (mkQty x u) v = Ok (Some y) /\ y == f * x + o.
Proof.
  intros I. destruct temperature_all as [H _].
  pose proof (proj1 (forallb_forall _ _) H _ I) as K. cbv beta in K.
  destruct (formula_ok_sound _ x K) as (u & v & y & Hu & Hv & He & Hy).
  exists u, v, y. cbn [temp_ref_formula df_from df_to df_pre df_factor df_post fst snd] in *.
  split; [exact Hu|]. split; [exact Hv|]. split; [exact He|]. rewrite Hy. ring.
Qed.

(* ---------- documentation: temperature fixed points ---------------------------- *)
(* every fixed point `a u = b v` holds exactly, every `a u ≅ b v` to the
   printed number of places.  (Finding F10 — `273,25` for 273.15 — was repaired
   in /repo, commit f078f5b; the former witness row is the regression case
   corpus/C20/f10_doc_273_25.json and [former_bad_row_rejected] below.) *)
Definition doc_equiv_holds (e : doc_equiv) : Prop :=
  exists x, equiv_in C (de_amt e) (de_from e) (de_to e) = Some x /\
            if de_exact e then x == de_val e
            else Qabs (x - de_val e) <= (10 # 1) ^ (- de_decimals e) / (2 # 1).

Lemma doc_equiv_ok_sound e : doc_equiv_ok C e = true -> doc_equiv_holds e.
Proof.
  unfold doc_equiv_ok, doc_equiv_holds. intros H.
  destruct (equiv_in C (de_amt e) (de_from e) (de_to e)) as [x|]; [|discriminate].
  exists x. split; [reflexivity|]. destruct (de_exact e).
  - apply qeqb_iff. exact H.
  - unfold qabs_le, qabs in H. apply qleb_iff in H.
    rewrite qdiv_ok, pow10_ok in H.
    assert (E : Qabs (qsub x (de_val e)) == Qabs (x - de_val e))
      by (apply Qabs_wd; apply qsub_ok).
    rewrite E in H. exact H.
Qed.

Lemma doc_equivs_all : forallb (doc_equiv_ok C) doc_equivs = true.
Proof. vm_compute. reflexivity. Qed.

Theorem doc_equivs_match e : In e doc_equivs -> doc_equiv_holds e.
Proof.
  intros I. apply doc_equiv_ok_sound.
  exact (proj1 (forallb_forall _ _) doc_equivs_all e I).
Qed.

(* regression for F10: the row the documentation used to print is rejected *)
Lemma former_bad_row_rejected :
  doc_equiv_ok C (mkDocEquiv "°C" (Qmake 0 1) "K" (Qmake 27325 100) true 2) = false.
Proof. vm_compute. reflexivity. Qed.

(* ---------- any amount: C01 instantiated ---------------------------------------- *)
Definition view_check (e : string * (string * Q)) : bool :=
  match view_sym C (fst e), type_index C (fst (snd e)) with
  | Some u, Some ci =>
      lin u && qeqb (scale u) (snd (snd e)) && N.eqb (u_cls u) ci
      && match u_quantum u, si_lookup si_quantum (fst (snd e)) with
         | None, None => true
         | Some qu, Some q => qeqb (qu * scale u) q && negb (qzero qu)
         | _, _ => false
         end
  | _, _ => false
  end.

Lemma views_all : forallb view_check si_ref = true.
Proof. vm_compute. reflexivity. Qed.

Lemma view_facts s t q u : si_lookup si_ref s = Some (t, q) -> view_sym C s = Some u ->
  exists ci, type_index C t = Some ci /\ u_cls u = ci /\ lin u = true /\ scale u == q /\
    match u_quantum u, si_lookup si_quantum t with
    | None, None => True
    | Some qu, Some k => qu * scale u == k /\ ~ qu == 0
    | _, _ => False
    end.
Proof.
  intros L V. apply si_lookup_In in L.
  pose proof (proj1 (forallb_forall _ _) views_all _ L) as H. unfold view_check in H.
  cbn [fst snd] in H. rewrite V in H.
  destruct (type_index C t) as [ci|]; [|discriminate].
  apply andb_true_iff in H. destruct H as [H H4]. apply andb_true_iff in H. destruct H as [H H3].
  apply andb_true_iff in H. destruct H as [H1 H2].
  exists ci. split; [reflexivity|]. split; [apply N.eqb_eq; exact H3|].
  split; [exact H1|]. split; [apply qeqb_iff; exact H2|].
  destruct (u_quantum u) as [qu|], (si_lookup si_quantum t) as [k|]; try discriminate H4; [|exact Logic.I].
  apply andb_true_iff in H4. destruct H4 as [Ha Hb]. split; [apply qeqb_iff; exact Ha|].
  apply qzero_false. destruct (qzero qu); [discriminate|reflexivity].
Qed.

(* ANY amount, any two catalogue units of one reference type: the amount is
   multiplied by exactly the ratio of the REFERENCE scales (then the
   constructor, which rounds only for the type with a quantum) *)
Theorem any_amount ce dm a su sv t ru rv u v :
  si_lookup si_ref su = Some (t, ru) -> si_lookup si_ref sv = Some (t, rv) ->
  view_sym C su = Some u -> view_sym C sv = Some v ->
  exists r, convert ce dm (mkQty a u) v = Ok r /\ q_unit r = v /\
            q_amt r == mk_amt dm (a * (ru / rv)) v.
Proof.
  intros Lu Lv Vu Vv.
  destruct (view_facts _ _ _ _ Lu Vu) as (ci & Ti & Cu & Hu & Su & _).
  destruct (view_facts _ _ _ _ Lv Vv) as (cj & Tj & Cv & Hv & Sv & _).
  assert (Hc : same_cls u v = true).
  { unfold same_cls. apply N.eqb_eq. congruence. }
  destruct (convert_lin ce dm a u v Hu Hv Hc) as (r & Hr & Hun & Ham).
  exists r. split; [exact Hr|]. split; [exact Hun|]. rewrite Ham.
  apply mk_amt_compat. rewrite Su, Sv. reflexivity.
Qed.

(* types without a quantum (all but DataVolume): exact *)
Theorem any_amount_exact ce dm a su sv t ru rv u v :
  si_lookup si_ref su = Some (t, ru) -> si_lookup si_ref sv = Some (t, rv) ->
  view_sym C su = Some u -> view_sym C sv = Some v ->
  si_lookup si_quantum t = None ->
  exists r, convert ce dm (mkQty a u) v = Ok r /\ q_unit r = v /\
            q_amt r == a * (ru / rv) /\ q_amt r * rv == a * ru.
Proof.
  intros Lu Lv Vu Vv Qn.
  destruct (any_amount ce dm a su sv t ru rv u v Lu Lv Vu Vv) as (r & Hr & Hun & Ham).
  destruct (view_facts _ _ _ _ Lv Vv) as (cj & _ & _ & Hv & Sv & Qv).
  rewrite Qn in Qv. destruct (u_quantum v) as [qv|] eqn:E; [contradiction|].
  unfold mk_amt in Ham. rewrite E in Ham.
  exists r. split; [exact Hr|]. split; [exact Hun|]. split; [exact Ham|].
  destruct (lin_scale v Hv) as (_ & _ & Nv). rewrite Sv in Nv.
  rewrite Ham. field. exact Nv.
Qed.

(* the type with a quantum: amounts on the source unit's grid are converted
   without rounding and land on the target unit's grid *)
Theorem any_amount_on_grid ce dm a su sv t ru rv u v k :
  si_lookup si_ref su = Some (t, ru) -> si_lookup si_ref sv = Some (t, rv) ->
  view_sym C su = Some u -> view_sym C sv = Some v ->
  si_lookup si_quantum t = Some k ->
  exists qu qv, u_quantum u = Some qu /\ u_quantum v = Some qv /\
    qu * ru == k /\ qv * rv == k /\
    (on_grid a qu ->
     exists r, convert ce dm (mkQty a u) v = Ok r /\ q_unit r = v /\
               q_amt r == a * (ru / rv) /\ on_grid (q_amt r) qv).
Proof.
  intros Lu Lv Vu Vv Qk.
  destruct (view_facts _ _ _ _ Lu Vu) as (ci & Ti & Cu & Hu & Su & Qu).
  destruct (view_facts _ _ _ _ Lv Vv) as (cj & Tj & Cv & Hv & Sv & Qv).
  rewrite Qk in Qu, Qv.
  destruct (u_quantum u) as [qu|] eqn:Eu; [|contradiction].
  destruct (u_quantum v) as [qv|] eqn:Ev; [|contradiction].
  destruct Qu as [Gu Nu], Qv as [Gv Nv].
  exists qu, qv. split; [reflexivity|]. split; [reflexivity|].
  split; [rewrite <- Su; exact Gu|]. split; [rewrite <- Sv; exact Gv|].
  intros G.
  assert (Hc : same_cls u v = true).
  { unfold same_cls. apply N.eqb_eq. congruence. }
  assert (Hg : qu * scale u == qv * scale v) by (rewrite Gu, Gv; reflexivity).
  destruct (convert_quantized_exact ce dm a u v qu qv Hu Hv Hc Eu Ev Nv Hg G)
    as (r & Hr & Hun & Ham & Hgr).
  exists r. split; [exact Hr|]. split; [exact Hun|]. split; [|exact Hgr].
  rewrite Ham, Su, Sv. reflexivity.
Qed.
