(* C01: conversion between linear units is exact and coherent. *)
From Coq Require Import ZArith QArith Qabs List Bool Lia Lqa Qreduction.
From QV Require Import Model.Num Model.Rounding Gen.RoundingImpl Model.Quantity
     Proofs.RoundingRef Proofs.RoundingUnique Proofs.RoundingQ
     Proofs.QuantityProofs Proofs.C13Proofs.
Open Scope Q_scope.

(* rounding an integral value is the identity, in every mode *)
Lemma RoundsTo_integer m n y : (0 < y)%Z -> RoundsTo m (n * y) y n.
Proof.
  intros Hy. unfold RoundsTo. split; [lia|].
  destruct m; try lia; try (split; lia); try (left; reflexivity).
Qed.

Lemma rnd_ref_integer m q n : q == inject_Z n -> rnd_ref m q = n.
Proof.
  intros E. rewrite (rnd_ref_compat m q (inject_Z n) E).
  apply (RoundsToQ_unique m (inject_Z n)); [apply rnd_ref_spec|].
  unfold RoundsToQ, inject_Z. cbn [Qnum Qden].
  replace n with (n * 1)%Z at 1 by lia. apply RoundsTo_integer. reflexivity.
Qed.

(* a value on the grid of quantum qu is not changed by rounding to qu *)
Definition on_grid (a qu : Q) : Prop := exists k : Z, a == inject_Z k * qu.

Lemma round_to_quantum_on_grid m a qu : ~ qu == 0 -> on_grid a qu ->
  round_to_quantum m a qu == a.
Proof.
  intros Hq [k Hk]. unfold round_to_quantum. rewrite qmul_ok. unfold qz.
  rewrite (rnd_ref_integer m (qdiv a qu) k).
  - symmetry. exact Hk.
  - rewrite qdiv_ok, Hk. field. exact Hq.
Qed.

Lemma round_to_quantum_is_on_grid m a qu : on_grid (round_to_quantum m a qu) qu.
Proof. exists (rnd_ref m (qdiv a qu)). unfold round_to_quantum, qz. apply qmul_ok. Qed.

(* ---------------- conversion --------------------------------------------- *)
Theorem convert_lin ce dm a u v :
  lin u = true -> lin v = true -> same_cls u v = true ->
  exists r, convert ce dm (mkQty a u) v = Ok r /\ q_unit r = v /\
            q_amt r == mk_amt dm (a * (scale u / scale v)) v.
Proof.
  intros Hu Hv Hc. destruct (equiv_amount_lin ce a u v Hu Hv Hc) as (a' & He & Ha).
  unfold convert. rewrite He. cbn [bind]. eexists. split; [reflexivity|].
  split; [apply mk_qty_unit|]. rewrite mk_qty_amt. apply mk_amt_compat. exact Ha.
Qed.

Theorem convert_other_type ce dm q v :
  same_cls (q_unit q) v = false -> convert ce dm q v = Err EIncompatibleUnits.
Proof.
  intros H. unfold convert. rewrite (equiv_amount_other_cls ce q v H). reflexivity.
Qed.

(* without a quantum: exactly the ratio of the scales, value preserved *)
Theorem convert_exact ce dm a u v :
  lin u = true -> lin v = true -> same_cls u v = true -> u_quantum v = None ->
  exists r, convert ce dm (mkQty a u) v = Ok r /\ q_unit r = v /\
            q_amt r == a * (scale u / scale v) /\
            q_amt r * scale v == a * scale u.
Proof.
  intros Hu Hv Hc Hq. destruct (convert_lin ce dm a u v Hu Hv Hc) as (r & Hr & Hun & Ham).
  destruct (lin_scale v Hv) as (_ & _ & Nv).
  exists r. split; [exact Hr|]. split; [exact Hun|].
  unfold mk_amt in Ham. rewrite Hq in Ham. split; [exact Ham|].
  rewrite Ham. field. exact Nv.
Qed.

Theorem convert_roundtrip ce dm a u v :
  lin u = true -> lin v = true -> same_cls u v = true ->
  u_quantum u = None -> u_quantum v = None ->
  exists r r', convert ce dm (mkQty a u) v = Ok r /\ convert ce dm r u = Ok r' /\
               q_unit r' = u /\ q_amt r' == a.
Proof.
  intros Hu Hv Hc Qu Qv.
  destruct (convert_exact ce dm a u v Hu Hv Hc Qv) as (r & Hr & Hun & Ham & _).
  assert (Hc' : same_cls v u = true) by (rewrite same_cls_sym; exact Hc).
  destruct (convert_exact ce dm (q_amt r) v u Hv Hu Hc' Qu) as (r' & Hr' & Hun' & Ham' & _).
  exists r, r'. split; [exact Hr|].
  destruct r as [ra ru]. cbn [q_unit q_amt] in *. subst ru.
  split; [exact Hr'|]. split; [exact Hun'|].
  rewrite Ham', Ham.
  destruct (lin_scale u Hu) as (_ & _ & Nu), (lin_scale v Hv) as (_ & _ & Nv).
  field. split; assumption.
Qed.

Theorem convert_via ce dm a u w v :
  lin u = true -> lin w = true -> lin v = true ->
  same_cls u w = true -> same_cls u v = true ->
  u_quantum w = None -> u_quantum v = None ->
  exists r1 r2 r, convert ce dm (mkQty a u) w = Ok r1 /\ convert ce dm r1 v = Ok r2 /\
                  convert ce dm (mkQty a u) v = Ok r /\
                  q_unit r2 = v /\ q_unit r = v /\ q_amt r2 == q_amt r.
Proof.
  intros Hu Hw Hv Cuw Cuv Qw Qv.
  assert (Cwv : same_cls w v = true).
  { unfold same_cls in *. apply N.eqb_eq in Cuw, Cuv. apply N.eqb_eq. congruence. }
  destruct (convert_exact ce dm a u w Hu Hw Cuw Qw) as (r1 & H1 & U1 & A1 & _).
  destruct (convert_exact ce dm (q_amt r1) w v Hw Hv Cwv Qv) as (r2 & H2 & U2 & A2 & _).
  destruct (convert_exact ce dm a u v Hu Hv Cuv Qv) as (r & H & U & A & _).
  exists r1, r2, r. split; [exact H1|].
  destruct r1 as [ra ru]. cbn [q_unit q_amt] in *. subst ru.
  split; [exact H2|]. split; [exact H|]. split; [exact U2|]. split; [exact U|].
  rewrite A2, A1, A.
  destruct (lin_scale w Hw) as (_ & _ & Nw), (lin_scale v Hv) as (_ & _ & Nv).
  field. split; assumption.
Qed.

(* identity of views: the same id means the same unit *)
Definition id_ok (u v : unit) : Prop := same_unit u v = true -> u = v.

Lemma qty_eq_lin ce a u b v :
  lin u = true -> lin v = true -> same_cls u v = true -> id_ok u v ->
  qty_eq ce (mkQty a u) (mkQty b v) = Ok (qeqb (a * scale u) (b * scale v)).
Proof.
  intros Hu Hv Hc Hid.
  destruct (lin_scale u Hu) as (_ & _ & Nu), (lin_scale v Hv) as (_ & _ & Nv).
  unfold qty_eq. cbn [q_unit q_amt]. rewrite Hc.
  destruct (same_unit u v) eqn:Es.
  - specialize (Hid Es). subst v. f_equal.
    destruct (qeqb a b) eqn:E.
    + apply qeqb_iff in E. symmetry. apply qeqb_iff. rewrite E. reflexivity.
    + apply qeqb_false in E. symmetry. apply qeqb_false. intros X. apply E.
      apply (Qmult_inj_r a b (scale u) Nu). exact X.
  - assert (Hc' : same_cls v u = true) by (rewrite same_cls_sym; exact Hc).
    destruct (equiv_amount_lin ce b v u Hv Hu Hc') as (b' & He & Hb').
    rewrite He. cbn [bind]. f_equal.
    destruct (qeqb a b') eqn:E.
    + apply qeqb_iff in E. symmetry. apply qeqb_iff. rewrite E, Hb'. field. exact Nu.
    + apply qeqb_false in E. symmetry. apply qeqb_false. intros X. apply E.
      rewrite Hb'. apply (Qmult_inj_r _ _ (scale u) Nu). rewrite X. field. exact Nu.
Qed.

(* the converted quantity compares equal to the original *)
Theorem convert_equal ce dm a u v :
  lin u = true -> lin v = true -> same_cls u v = true -> u_quantum v = None ->
  id_ok u v -> id_ok v u ->
  exists r, convert ce dm (mkQty a u) v = Ok r /\
            qty_eq ce r (mkQty a u) = Ok true /\ qty_eq ce (mkQty a u) r = Ok true.
Proof.
  intros Hu Hv Hc Qv Hid Hid'.
  destruct (convert_exact ce dm a u v Hu Hv Hc Qv) as (r & Hr & Hun & _ & Hval).
  exists r. split; [exact Hr|].
  destruct r as [ra ru]. cbn [q_unit q_amt] in *. subst ru.
  assert (Hc' : same_cls v u = true) by (rewrite same_cls_sym; exact Hc).
  split.
  - rewrite (qty_eq_lin ce ra v a u Hv Hu Hc' Hid'). f_equal. apply qeqb_iff. exact Hval.
  - rewrite (qty_eq_lin ce a u ra v Hu Hv Hc Hid). f_equal. apply qeqb_iff. symmetry. exact Hval.
Qed.

(* quantized types: all units of a type share one absolute grid
   (quantum(u) * scale(u) is the type's quantum), so an on-grid amount is
   converted without any rounding *)
Theorem convert_quantized_exact ce dm a u v qu qv :
  lin u = true -> lin v = true -> same_cls u v = true ->
  u_quantum u = Some qu -> u_quantum v = Some qv -> ~ qv == 0 ->
  qu * scale u == qv * scale v ->
  on_grid a qu ->
  exists r, convert ce dm (mkQty a u) v = Ok r /\ q_unit r = v /\
            q_amt r == a * (scale u / scale v) /\ on_grid (q_amt r) qv.
Proof.
  intros Hu Hv Hc Qu Qv Nq Hgrid [k Hk].
  destruct (convert_lin ce dm a u v Hu Hv Hc) as (r & Hr & Hun & Ham).
  destruct (lin_scale u Hu) as (_ & _ & Nu), (lin_scale v Hv) as (_ & _ & Nv).
  exists r. split; [exact Hr|]. split; [exact Hun|].
  unfold mk_amt in Ham. rewrite Qv in Ham.
  assert (G : on_grid (a * (scale u / scale v)) qv).
  { exists k. rewrite Hk.
    assert (X : qu == qv * scale v / scale u) by (rewrite <- Hgrid; field; exact Nu).
    rewrite X. field. split; assumption. }
  rewrite (round_to_quantum_on_grid dm _ qv Nq G) in Ham.
  split; [exact Ham|]. destruct G as [k' Hk']. exists k'. rewrite Ham. exact Hk'.
Qed.
