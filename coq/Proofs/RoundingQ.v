(* RoundsToQ depends only on the rational value, not on its representation. *)
From Coq Require Import ZArith QArith List Bool Lia Qreduction.
From QV Require Import Model.Num Model.Rounding Proofs.RoundingCommon
     Proofs.RoundingRef Proofs.RoundingUnique.
Open Scope Z_scope.

Lemma abs_scale k z : 0 < k -> Z.abs (k * z) = k * Z.abs z.
Proof. intros. rewrite Z.abs_mul. rewrite (Z.abs_eq k) by lia. reflexivity. Qed.

Lemma mul_lt_cancel k a b : 0 < k -> (k * a < k * b <-> a < b).
Proof. intros. symmetry. apply Z.mul_lt_mono_pos_l. assumption. Qed.
Lemma mul_le_cancel k a b : 0 < k -> (k * a <= k * b <-> a <= b).
Proof. intros. symmetry. apply Z.mul_le_mono_pos_l. assumption. Qed.
Lemma mul_eq_cancel k a b : 0 < k -> (k * a = k * b <-> a = b).
Proof. intros. split; [apply Z.mul_reg_l; lia | congruence]. Qed.

Lemma RoundsTo_scale m k x y n : 0 < k -> 0 < y ->
  (RoundsTo m (k * x) (k * y) n <-> RoundsTo m x y n).
Proof.
  intros Hk Hy. unfold RoundsTo.
  assert (E1 : n * (k * y) - k * y = k * (n * y - y)) by ring.
  assert (E2 : n * (k * y) + k * y = k * (n * y + y)) by ring.
  assert (E3 : n * (k * y) = k * (n * y)) by ring.
  assert (E4 : k * x - k * (n * y) = k * (x - n * y)) by ring.
  assert (E5 : forall z, 2 * (k * z) = k * (2 * z)) by (intros; ring).
  assert (AS : forall z, Z.abs (k * z) = k * Z.abs z) by (intros; apply abs_scale; assumption).
  rewrite E1, E2. rewrite !mul_lt_cancel by assumption.
  rewrite Z.quot_mul_cancel_l by lia.
  destruct m; cbv zeta.
  all: try destruct (Z.quot x y mod 5 =? 0).
  all: rewrite ?E3, ?E4, ?AS, ?E5.
  all: rewrite ?mul_le_cancel, ?mul_lt_cancel, ?mul_eq_cancel by assumption.
  all: reflexivity.
Qed.

Lemma Qred_multiple q : exists g, 0 < g /\
  Qnum q = g * Qnum (Qred q) /\ Zpos (Qden q) = g * Zpos (Qden (Qred q)).
Proof.
  destruct q as [x y]. unfold Qred.
  pose proof (Z.ggcd_gcd x (Zpos y)) as Hg.
  pose proof (Z.ggcd_correct_divisors x (Zpos y)) as Hd.
  pose proof (Z.gcd_nonneg x (Zpos y)) as Hn.
  destruct (Z.ggcd x (Zpos y)) as (g, (aa, bb)). simpl in *.
  destruct Hd as [Ha Hb].
  assert (0 < g) by (destruct (Z.eq_dec g 0); [subst; lia | lia]).
  assert (0 < bb) by nia.
  exists g. split; [assumption|]. simpl. split; [exact Ha|].
  rewrite Z2Pos.id by assumption. exact Hb.
Qed.

Lemma RoundsToQ_Qred m q n : RoundsToQ m q n <-> RoundsToQ m (Qred q) n.
Proof.
  unfold RoundsToQ. destruct (Qred_multiple q) as (g & Hg & Hn & Hd).
  rewrite Hn, Hd. apply RoundsTo_scale; [assumption | reflexivity].
Qed.

Theorem RoundsToQ_compat m q q' n : Qeq q q' -> (RoundsToQ m q n <-> RoundsToQ m q' n).
Proof.
  intros E. rewrite (RoundsToQ_Qred m q), (RoundsToQ_Qred m q').
  rewrite (Qred_complete _ _ E). reflexivity.
Qed.

Theorem rnd_ref_spec m q : RoundsToQ m q (rnd_ref m q).
Proof. apply rnd_ref_z_spec. reflexivity. Qed.

Theorem RoundsToQ_unique m q n1 n2 : RoundsToQ m q n1 -> RoundsToQ m q n2 -> n1 = n2.
Proof. apply RoundsTo_unique. reflexivity. Qed.

Theorem rnd_ref_compat m q q' : Qeq q q' -> rnd_ref m q = rnd_ref m q'.
Proof.
  intros E. apply (RoundsToQ_unique m q); [apply rnd_ref_spec|].
  apply (RoundsToQ_compat m q q' _ E). apply rnd_ref_spec.
Qed.

(* the error bounds every mode guarantees, in rational form *)
Open Scope Q_scope.
Lemma RoundsToQ_lt_one m q n : RoundsToQ m q n -> Qabs (inject_Z n - q) < 1.
Proof.
  intros [A _]. destruct q as [x y]. cbn [Qnum Qden] in A.
  apply Qabs_Qlt_condition. unfold Qlt, Qminus, Qplus, Qopp, inject_Z. cbn [Qnum Qden]. lia.
Qed.

Definition half_mode (m : mode) : bool :=
  match m with MHUP | MHDOWN | MHEVEN => true | _ => false end.

Lemma RoundsToQ_le_half m q n : half_mode m = true -> RoundsToQ m q n ->
  Qabs (inject_Z n - q) <= 1 # 2.
Proof.
  intros Hm [_ B]. destruct q as [x y]. cbn [Qnum Qden] in B.
  apply Qabs_Qle_condition. unfold Qle, Qminus, Qplus, Qopp, inject_Z. cbn [Qnum Qden].
  destruct m; try discriminate; destruct B as [B _]; lia.
Qed.

(* directed modes never land on the wrong side *)
Lemma RoundsToQ_floor q n : RoundsToQ MFLOOR q n -> inject_Z n <= q.
Proof. intros [_ B]. destruct q as [x y]. cbn [Qnum Qden] in B. unfold Qle, inject_Z. cbn [Qnum Qden]. lia. Qed.
Lemma RoundsToQ_ceil q n : RoundsToQ MCEIL q n -> q <= inject_Z n.
Proof. intros [_ B]. destruct q as [x y]. cbn [Qnum Qden] in B. unfold Qle, inject_Z. cbn [Qnum Qden]. lia. Qed.
Lemma RoundsToQ_down q n : RoundsToQ MDOWN q n -> Qabs (inject_Z n) <= Qabs q.
Proof.
  intros [_ B]. destruct q as [x y]. cbn [Qnum Qden] in B. unfold Qle, Qabs, inject_Z. cbn [Qnum Qden].
  rewrite Z.abs_mul in B. lia.
Qed.
Lemma RoundsToQ_up q n : RoundsToQ MUP q n -> Qabs q <= Qabs (inject_Z n).
Proof.
  intros [_ B]. destruct q as [x y]. cbn [Qnum Qden] in B. unfold Qle, Qabs, inject_Z. cbn [Qnum Qden].
  rewrite Z.abs_mul in B. lia.
Qed.
