(* Proofs/DimInv.v — in every reachable directory the definition of a unit
   denotes the dimension of the type it was created for (C15), hence the type
   of a product / quotient / power has exactly the combined dimension (C02). *)
From Coq Require Import ZArith QArith Qabs List Bool Lia Lqa Qpower.
From QV Require Import Model.Num Model.Rounding Model.Quantity Model.Dim Model.Registry
     Proofs.QuantityProofs Proofs.DimProofs Proofs.DimPush Proofs.RegistryProofs
     Proofs.DirectoryProofs.
Open Scope Z_scope.

(* dimension (over base types) of the type a base unit belongs to *)
Definition cdim_of (s : state) (b : N) : dvec :=
  match find_unit s b with
  | Some u => match find_cls s (ru_cls u) with Some c => rc_dim c | None => [] end
  | None => []
  end.

(* dimension over base TYPES denoted by an exponent vector over base UNITS *)
Definition udim (s : state) (v : dvec) : dvec := dv_push (cdim_of s) v.

Record DInv (s : state) : Prop := {
  di_support : forall u b, In u (st_units s) -> dv_get (nf_dim (ru_nf u)) b <> 0 ->
               find_unit s b <> None;
  di_dim : forall u c, In u (st_units s) -> find_cls s (ru_cls u) = Some c ->
           udim s (nf_dim (ru_nf u)) = rc_dim c;
  di_cdef : forall c, In c (st_classes s) -> rc_base c = false ->
            cterm_dim s (rc_def c) = Some (rc_dim c)
}.

Lemma cdim_of_wf s : CInv s -> forall b, dv_wf (cdim_of s b) = true.
Proof.
  intros CI b. unfold cdim_of. destruct (find_unit s b) as [u|]; [|reflexivity].
  destruct (find_cls s (ru_cls u)) as [c|] eqn:F; [|reflexivity].
  apply (ci_dim_wf s CI). apply (find_cls_in_sound _ _ _ F).
Qed.

Lemma cdim_of_ext s s' b : CInv s -> ext s s' -> find_unit s b <> None -> cdim_of s' b = cdim_of s b.
Proof.
  intros CI E H. unfold cdim_of. destruct (find_unit s b) as [u|] eqn:F; [|congruence].
  rewrite (ext_units _ _ E _ _ F).
  destruct (find_cls s (ru_cls u)) as [c|] eqn:Fc.
  - destruct (ext_cls _ _ E _ _ Fc) as (c' & Fc' & (_ & _ & _ & D & _)). rewrite Fc'. exact D.
  - exfalso. apply (ci_unit_cls s CI u); [apply (find_unit_In _ _ _ F) | exact Fc].
Qed.

Lemma udim_ext s s' v : CInv s -> ext s s' -> dv_wf v = true ->
  (forall b, dv_get v b <> 0 -> find_unit s b <> None) -> udim s' v = udim s v.
Proof.
  intros CI E W S. unfold udim. apply dv_push_ext. intros b e Hi.
  destruct (dv_get_in v 0%N W b e Hi) as [G Ne]. apply cdim_of_ext; try assumption.
  apply S. rewrite G. exact Ne.
Qed.

Lemma udim_mul s a b : CInv s -> udim s (dv_mul a b) = dv_mul (udim s a) (udim s b).
Proof. intros CI. apply dv_push_mul. apply cdim_of_wf. exact CI. Qed.

Lemma udim_scale s e a : CInv s -> udim s (dv_scale e a) = dv_scale e (udim s a).
Proof. intros CI. apply dv_push_scale. apply cdim_of_wf. exact CI. Qed.

(* ---------- the type of a result has the combined dimension ---------- *)
Theorem result_type_dimension s (o : opk) u v r w wu cu cv cw :
  UInv s -> CInv s -> DInv s ->
  In u (st_units s) -> In v (st_units s) ->
  val_ok s (opnf o u v) r -> snd r = Some w -> find_unit s w = Some wu ->
  find_cls s (ru_cls u) = Some cu -> find_cls s (ru_cls v) = Some cv ->
  find_cls s (ru_cls wu) = Some cw ->
  rc_dim cw = match o with
              | KMul => dv_mul (rc_dim cu) (rc_dim cv)
              | KDiv => dv_mul (rc_dim cu) (dv_inv (rc_dim cv))
              end.
Proof.
  intros U CI D Iu Iv V Sw Fw Fcu Fcv Fcw. unfold val_ok in V. rewrite Sw in V.
  destruct V as (wu' & Fw' & [_ Dw]). rewrite Fw in Fw'. injection Fw' as <-.
  cbn [nf_scale nf_dim] in Dw.
  rewrite <- (di_dim s D wu cw (proj1 (find_unit_In _ _ _ Fw)) Fcw), Dw.
  rewrite <- (di_dim s D u cu Iu Fcu), <- (di_dim s D v cv Iv Fcv).
  destruct o; cbn [opnf nf_mul nf_inv nf_dim].
  - apply udim_mul. exact CI.
  - rewrite udim_mul by exact CI. unfold dv_inv. rewrite udim_scale by exact CI. reflexivity.
Qed.

(* ---------- monotonicity and supports of definitions ---------- *)
Lemma cterm_dim_ext s s' t d : ext s s' -> cterm_dim s t = Some d -> cterm_dim s' t = Some d.
Proof.
  intros E. revert d. induction t as [|[c e] t IH]; cbn; [auto|]. intros d.
  destruct (find_cls s c) as [k|] eqn:F; [|discriminate].
  destruct (ext_cls _ _ E _ _ F) as (k' & F' & (_ & _ & _ & D & _)). rewrite F', D.
  destruct (cterm_dim s t) as [d'|]; [|discriminate]. rewrite (IH d' eq_refl). auto.
Qed.

Definition supported (s : state) (v : dvec) : Prop :=
  forall b, dv_get v b <> 0 -> find_unit s b <> None.

Lemma supported_mul s a b : dv_wf a = true -> dv_wf b = true ->
  supported s a -> supported s b -> supported s (dv_mul a b).
Proof.
  intros Wa Wb Sa Sb i H. destruct (dv_mul_support a b i Wa Wb H); auto.
Qed.

Lemma supported_scale s e a : supported s a -> supported s (dv_scale e a).
Proof. intros Sa i H. apply Sa. eapply dv_scale_support. exact H. Qed.

Lemma supported_one s : supported s dv_one.
Proof. intros i H. cbn in H. congruence. Qed.

Lemma unit_supported s id u : DInv s -> find_unit s id = Some u -> supported s (nf_dim (ru_nf u)).
Proof. intros D F b H. apply (di_support s D u b); [apply (find_unit_In _ _ _ F) | exact H]. Qed.

Lemma term_nf_supported s t x :
  UInv s -> DInv s -> term_nf s t = Some x -> supported s (nf_dim x) /\ dv_wf (nf_dim x) = true.
Proof.
  intros U D. revert x. induction t as [|[el e] t IH]; cbn [term_nf]; intros x.
  - intros H. injection H as <-. split; [apply supported_one | reflexivity].
  - unfold item_nf. cbn [fst snd].
    destruct el as [q|id].
    + destruct (term_nf s t) as [y|]; [|discriminate]. intros H. injection H as <-.
      destruct (IH y eq_refl) as [Sy Wy]. cbn [nf_mul nf_dim]. split; [|exact Wy].
      exact Sy.
    + destruct (find_unit s id) as [u|] eqn:F; [|discriminate].
      destruct (term_nf s t) as [y|]; [|discriminate]. intros H. injection H as <-.
      destruct (IH y eq_refl) as [Sy Wy]. cbn [nf_mul nf_pow nf_dim].
      destruct (UInv_found_wf _ _ _ U F) as [_ Wu].
      split; [|apply dv_mul_wf; [apply dv_scale_wf; exact Wu | exact Wy]].
      apply supported_mul; [apply dv_scale_wf; exact Wu | exact Wy | | exact Sy].
      apply supported_scale. eapply unit_supported; eassumption.
Qed.

Lemma ref_units_nf_supported s t x :
  UInv s -> DInv s -> ref_units_nf s t = Some x ->
  supported s (nf_dim x) /\ dv_wf (nf_dim x) = true.
Proof.
  intros U D. revert x. induction t as [|[c e] t IH]; cbn [ref_units_nf]; intros x.
  - intros H. injection H as <-. split; [apply supported_one | reflexivity].
  - destruct (find_cls s c) as [k|]; [|discriminate].
    destruct (rc_ref k) as [r|]; [|discriminate].
    destruct (find_unit s r) as [u|] eqn:F; [|discriminate].
    destruct (ref_units_nf s t) as [y|]; [|discriminate]. intros H. injection H as <-.
    destruct (IH y eq_refl) as [Sy Wy]. cbn [nf_mul nf_pow nf_dim].
    destruct (UInv_found_wf _ _ _ U F) as [_ Wu].
    split; [|apply dv_mul_wf; [apply dv_scale_wf; exact Wu | exact Wy]].
    apply supported_mul; [apply dv_scale_wf; exact Wu | exact Wy | | exact Sy].
    apply supported_scale. eapply unit_supported; eassumption.
Qed.

(* the units given to derive_unit_from denote the dimension of the definition *)
Lemma derive_udim s : UInv s -> CInv s -> DInv s -> forall def us t x d,
  derive_items s def us = Ok t -> term_nf s t = Some x -> cterm_dim s def = Some d ->
  udim s (nf_dim x) = d.
Proof.
  intros U CI D. induction def as [|[c e] def IH]; intros us t x d.
  - destruct us; cbn; [|discriminate]. intros H. injection H as <-. cbn.
    intros H1 H2. injection H1 as <-. injection H2 as <-. reflexivity.
  - destruct us as [|uid us]; cbn [derive_items]; [discriminate|].
    destruct (find_unit s uid) as [u|] eqn:Fu; [|discriminate].
    destruct (negb (N.eqb (ru_cls u) c)) eqn:Ec; [discriminate|].
    apply negb_false_iff, N.eqb_eq in Ec.
    destruct (derive_items s def us) as [t'|] eqn:Dt; cbn [bind]; [|discriminate].
    intros H. injection H as <-. cbn [term_nf item_nf fst snd]. rewrite Fu.
    destruct (term_nf s t') as [y|] eqn:Ty; [|discriminate].
    intros H. injection H as <-. cbn [cterm_dim].
    destruct (find_cls s c) as [k|] eqn:Fk; [|discriminate].
    destruct (cterm_dim s def) as [d'|] eqn:Cd; [|discriminate].
    intros H. injection H as <-. cbn [nf_mul nf_pow nf_dim].
    rewrite udim_mul, udim_scale by exact CI.
    rewrite (IH us t' y d' Dt Ty eq_refl).
    rewrite <- Ec in Fk.
    rewrite (di_dim s D u k (proj1 (find_unit_In _ _ _ Fu)) Fk). reflexivity.
Qed.

(* ... and so does the term of reference units of a derived type *)
Lemma ref_units_udim s : UInv s -> CInv s -> DInv s -> forall def x d,
  ref_units_nf s def = Some x -> cterm_dim s def = Some d -> udim s (nf_dim x) = d.
Proof.
  intros U CI D. induction def as [|[c e] def IH]; intros x d; cbn [ref_units_nf cterm_dim].
  - intros H1 H2. injection H1 as <-. injection H2 as <-. reflexivity.
  - destruct (find_cls s c) as [k|] eqn:Fk; [|discriminate].
    destruct (rc_ref k) as [r|] eqn:Rk; [|discriminate].
    destruct (find_unit s r) as [u|] eqn:Fu; [|discriminate].
    destruct (ref_units_nf s def) as [y|] eqn:Ry; [|discriminate].
    intros H. injection H as <-.
    destruct (cterm_dim s def) as [d'|] eqn:Cd; [|discriminate].
    intros H. injection H as <-. cbn [nf_mul nf_pow nf_dim].
    rewrite udim_mul, udim_scale by exact CI. rewrite (IH y d' eq_refl eq_refl).
    destruct (find_cls_in_sound _ _ _ Fk) as [Ik Idk].
    destruct (ci_ref s CI k r Ik Rk) as (u' & Fu' & Cu & _). rewrite Fu in Fu'. injection Fu' as <-.
    rewrite <- Idk, <- Cu in Fk.
    rewrite (di_dim s D u k (proj1 (find_unit_In _ _ _ Fu)) Fk). reflexivity.
Qed.

(* ---------- preservation: a unit added to an existing class ---------- *)
Lemma DInv_add_unit s u c :
  UInv s -> CInv s -> DInv s ->
  find_unit s (ru_id u) = None -> find_cls s (ru_cls u) = Some c ->
  dv_wf (nf_dim (ru_nf u)) = true ->
  (nf_dim (ru_nf u) = dv_single (ru_id u) 1 \/
   (supported s (nf_dim (ru_nf u)) /\ udim s (nf_dim (ru_nf u)) = rc_dim c)) ->
  DInv (add_unit s u).
Proof.
  intros U CI D Fresh Fc Wu Hu.
  pose proof (ext_add_unit s u) as E.
  assert (CI' : CInv (add_unit s u)).
  { apply CInv_add_unit; [exact CI | exact Fresh | rewrite Fc; discriminate]. }
  assert (Fu' : find_unit (add_unit s u) (ru_id u) = Some u) by (apply find_unit_add_new; exact Fresh).
  assert (Fc' : find_cls (add_unit s u) (ru_cls u) = Some (bump u c)).
  { rewrite find_cls_add, Fc. reflexivity. }
  assert (Old : forall x, In x (st_units s) -> supported s (nf_dim (ru_nf x))).
  { intros x Hx b Hb. exact (di_support s D x b Hx Hb). }
  constructor.
  - intros x b Hx Hb. rewrite add_unit_units in Hx. apply in_app_iff in Hx.
    destruct Hx as [Hx|[<-|[]]].
    + pose proof (Old x Hx b Hb) as H. destruct (find_unit s b) as [y|] eqn:F; [|congruence].
      rewrite (find_unit_add_old s u b y F). discriminate.
    + destruct Hu as [Hs|[Hs _]].
      * rewrite Hs, dv_single_get in Hb. destruct (N.eqb b (ru_id u)) eqn:Eb; [|congruence].
        apply N.eqb_eq in Eb. subst b. rewrite Fu'. discriminate.
      * pose proof (Hs b Hb) as H. destruct (find_unit s b) as [y|] eqn:F; [|congruence].
        rewrite (find_unit_add_old s u b y F). discriminate.
  - intros x k Hx Fk. rewrite add_unit_units in Hx. apply in_app_iff in Hx.
    rewrite find_cls_add in Fk.
    destruct Hx as [Hx|[<-|[]]].
    + destruct (find_cls s (ru_cls x)) as [k0|] eqn:Fk0; [|discriminate]. cbn in Fk.
      injection Fk as <-. rewrite bump_dim.
      rewrite (udim_ext s (add_unit s u)); try assumption.
      * apply (di_dim s D x k0 Hx Fk0).
      * apply (ui_wf s U x Hx).
      * apply Old. exact Hx.
    + rewrite Fc in Fk. cbn in Fk. injection Fk as <-. rewrite bump_dim.
      destruct Hu as [Hs|[Hs Hd]].
      * rewrite Hs. unfold udim. rewrite dv_push_single by (apply cdim_of_wf; exact CI').
        unfold cdim_of. rewrite Fu', Fc'. apply bump_dim.
      * rewrite (udim_ext s (add_unit s u)); assumption.
  - intros k' Hk Hb. rewrite add_unit_classes in Hk. destruct (in_map_bump _ _ _ Hk) as (k & Ik & ->).
    rewrite bump_base in Hb. rewrite bump_def, bump_dim.
    eapply cterm_dim_ext; [exact E | apply (di_cdef s D k Ik Hb)].
Qed.

(* ---------- preservation: a new class, possibly with its reference unit ---------- *)
Lemma DInv_new_class s s' id def d ou quantum money :
  UInv s -> CInv s -> DInv s -> CInv s' -> ext s s' ->
  find_cls s id = None ->
  st_classes s' = st_classes s ++ [new_cls id def d ou quantum money] ->
  st_units s' = st_units s ++ ou_list ou ->
  match def with Some t => cterm_dim s t = Some d | None => d = dv_single id 1 end ->
  (forall u, ou = Some u ->
     find_unit s (ru_id u) = None /\ ru_cls u = id /\
     match (match def with Some t => ref_units_nf s t | None => None end) with
     | Some x => ru_nf u = x
     | None => ru_nf u = base_nf (ru_id u)
     end) ->
  DInv s'.
Proof.
  intros U CI D CI' E Fresh HC HU Hd Hou.
  set (c := new_cls id def d ou quantum money) in *.
  assert (Fc' : find_cls s' id = Some c).
  { unfold find_cls. rewrite HC, (find_cls_in_app_none _ _ _ Fresh). cbn. rewrite N.eqb_refl. reflexivity. }
  assert (Old : forall x, In x (st_units s) -> supported s (nf_dim (ru_nf x))).
  { intros x Hx b Hb. exact (di_support s D x b Hx Hb). }
  assert (Sup : forall v, supported s v -> supported s' v).
  { intros v S b Hb. pose proof (S b Hb) as H. destruct (find_unit s b) as [y|] eqn:F; [|congruence].
    rewrite (ext_units _ _ E _ _ F). discriminate. }
  constructor.
  - intros x b Hx Hb. rewrite HU in Hx. apply in_app_iff in Hx. destruct Hx as [Hx|Hx].
    + apply (Sup _ (Old x Hx) b Hb).
    + destruct ou as [u|]; [|destruct Hx]. destruct Hx as [<-|[]].
      destruct (Hou u eq_refl) as (Fu & Cu & Hnf).
      destruct (match def with Some t => ref_units_nf s t | None => None end) as [y|] eqn:Rd.
      * rewrite Hnf in Hb. destruct def as [t|]; [|discriminate].
        destruct (ref_units_nf_supported s t y U D Rd) as [Sy _]. apply (Sup _ Sy b Hb).
      * rewrite Hnf in Hb. cbn [base_nf nf_dim] in Hb. rewrite dv_single_get in Hb.
        destruct (N.eqb b (ru_id u)) eqn:Eb; [|congruence]. apply N.eqb_eq in Eb. subst b.
        unfold find_unit. rewrite HU, (find_unit_in_app_none _ _ _ Fu). cbn.
        rewrite N.eqb_refl. discriminate.
  - intros x k Hx Fk. rewrite HU in Hx. apply in_app_iff in Hx. destruct Hx as [Hx|Hx].
    + (* an old unit: its class is old *)
      destruct (find_cls s (ru_cls x)) as [k0|] eqn:Fk0;
        [|exfalso; exact (ci_unit_cls s CI x Hx Fk0)].
      destruct (ext_cls _ _ E _ _ Fk0) as (k1 & Fk1 & (_ & _ & _ & Dk & _)).
      rewrite Fk1 in Fk. injection Fk as <-. rewrite Dk.
      rewrite (udim_ext s s'); try assumption.
      * apply (di_dim s D x k0 Hx Fk0).
      * apply (ui_wf s U x Hx).
      * apply Old. exact Hx.
    + destruct ou as [u|]; [|destruct Hx]. destruct Hx as [<-|[]].
      destruct (Hou u eq_refl) as (Fu & Cu & Hnf). rewrite Cu, Fc' in Fk. injection Fk as <-.
      cbn [c new_cls rc_dim].
      destruct (match def with Some t => ref_units_nf s t | None => None end) as [y|] eqn:Rd.
      * destruct def as [t|]; [|discriminate]. rewrite Hnf.
        destruct (ref_units_nf_supported s t y U D Rd) as [Sy Wy].
        rewrite (udim_ext s s'); try assumption.
        apply (ref_units_udim s U CI D t y d Rd Hd).
      * rewrite Hnf. cbn [base_nf nf_dim]. unfold udim.
        rewrite dv_push_single by (apply cdim_of_wf; exact CI').
        unfold cdim_of.
        assert (Fu' : find_unit s' (ru_id u) = Some u).
        { unfold find_unit. rewrite HU, (find_unit_in_app_none _ _ _ Fu). cbn.
          rewrite N.eqb_refl. reflexivity. }
        rewrite Fu', Cu, Fc'. reflexivity.
  - intros k Hk Hb. rewrite HC in Hk. apply in_app_iff in Hk. destruct Hk as [Hk|[<-|[]]].
    + eapply cterm_dim_ext; [exact E | apply (di_cdef s D k Hk Hb)].
    + cbn [c new_cls rc_base rc_def rc_dim] in Hb |- *. destruct def as [t|]; [|discriminate].
      eapply cterm_dim_ext; eassumption.
Qed.

Lemma DInv_init : DInv init.
Proof.
  constructor.
  - intros u b [].
  - intros u c [].
  - intros c [<-|[]]. discriminate.
Qed.

(* ---------- one step ---------- *)
Lemma base_unit_case s c sym sf s' u :
  make_unit s c sym None sf = Ok (s', u) ->
  s' = add_unit s u /\ find_unit s (ru_id u) = None /\ ru_cls u = rc_id c /\
  dv_wf (nf_dim (ru_nf u)) = true /\ nf_dim (ru_nf u) = dv_single (ru_id u) 1.
Proof.
  intros M. destruct (make_unit_inv _ _ _ _ _ _ _ M) as (Nz & Fresh & -> & Iu & Cu & _ & Nu & _).
  rewrite Nu, Iu. repeat split; auto. apply (dv_single_wf sym 1).
Qed.

Lemma def_unit_case s c sym x sf s' u :
  make_unit s c sym (Some x) sf = Ok (s', u) ->
  s' = add_unit s u /\ find_unit s (ru_id u) = None /\ ru_cls u = rc_id c /\ ru_nf u = x.
Proof.
  intros M. destruct (make_unit_inv _ _ _ _ _ _ _ M) as (Nz & Fresh & -> & Iu & Cu & _ & Nu & _).
  rewrite Iu. repeat split; auto.
Qed.

Theorem step_DInv dm s d s' e :
  AllInv s -> DInv s -> guard dm s d = true -> step dm s d = (s', e) -> DInv s'.
Proof.
  intros A D G S.
  destruct e as [e|].
  { destruct A as (_ & CI & _). rewrite (step_error_noop dm s d s' e CI S). exact D. }
  pose proof A as (U & CI & R & C).
  destruct d as [id def rs auto qu money | cid sym ud | cid us sym auto | cid sym sf]; cbn [step] in S.
  - (* type declaration *)
    destruct (decl_class_ok _ dm _ _ _ _ _ _ _ A G S) as [(U' & CI' & _) E].
    destruct (decl_class_cases _ _ _ _ _ _ _ _ _ CI S) as [[_ X]|[_ X]]; [congruence|].
    destruct X as (d & ou & Fresh & Cd & Dnz & Hd & HC & HU & HCa & Hou).
    apply (DInv_new_class s s' id def d ou qu money); try assumption.
    intros u Hu. subst ou. destruct Hou as (_ & Fu & _ & Cu & _ & _ & Hnf).
    split; [exact Fu|]. split; [exact Cu|].
    destruct (match def with Some t => ref_units_nf s t | None => None end); tauto.
  - (* new_unit *)
    unfold lift_res in S. destruct (new_unit s dm cid sym ud) as [s1|e1] eqn:N; [|discriminate].
    injection S as <-. unfold new_unit in N.
    destruct (find_cls s cid) as [c|] eqn:Fc; [|discriminate].
    destruct (find_cls_in_sound _ _ _ Fc) as [Ic Idc].
    destruct (N.eqb sym 0); [discriminate|].
    destruct ud as [|a uid|t].
    + destruct (make_unit s c sym None None) as [[s2 u]|] eqn:M; cbn [bind] in N; [|discriminate].
      injection N as <-. destruct (base_unit_case _ _ _ _ _ _ M) as (-> & Fu & Cu & Wu & Hs).
      apply (DInv_add_unit s u c); try assumption; [rewrite Cu, Idc; exact Fc | left; exact Hs].
    + destruct (find_unit s uid) as [v|] eqn:Fv; [|discriminate].
      destruct (negb (N.eqb (ru_cls v) cid)) eqn:Ec; [discriminate|].
      apply negb_false_iff, N.eqb_eq in Ec.
      destruct (make_unit s c sym _ None) as [[s2 u]|] eqn:M; cbn [bind] in N; [|discriminate].
      injection N as <-. destruct (def_unit_case _ _ _ _ _ _ _ M) as (-> & Fu & Cu & Nu).
      destruct (UInv_found_wf _ _ _ U Fv) as [_ Wv].
      apply (DInv_add_unit s u c); try assumption.
      * rewrite Cu, Idc. exact Fc.
      * rewrite Nu. exact Wv.
      * right. rewrite Nu. cbn [nf_scale nf_dim]. split; [eapply unit_supported; eassumption|].
        apply (di_dim s D v c (proj1 (find_unit_In _ _ _ Fv))). rewrite Ec. exact Fc.
    + destruct (term_nf s t) as [x|] eqn:Tx; [|discriminate].
      destruct (resolve s x) as [[f [w|]]|] eqn:Rx; try discriminate.
      destruct (find_unit s w) as [wu|] eqn:Fw; [|discriminate].
      destruct (negb (N.eqb (ru_cls wu) cid)) eqn:Ec; [discriminate|].
      apply negb_false_iff, N.eqb_eq in Ec.
      destruct (make_unit s c sym (Some x) None) as [[s2 u]|] eqn:M; cbn [bind] in N; [|discriminate].
      injection N as <-. destruct (def_unit_case _ _ _ _ _ _ _ M) as (-> & Fu & Cu & Nu).
      destruct (term_nf_supported s t x U D Tx) as [Sx Wx].
      apply (DInv_add_unit s u c); try assumption.
      * rewrite Cu, Idc. exact Fc.
      * rewrite Nu. exact Wx.
      * right. rewrite Nu. split; [exact Sx|].
        pose proof (resolve_sound s x _ (ui_tm s U) Rx) as V. unfold val_ok in V. cbn [fst snd] in V.
        destruct V as (wu' & Fw' & [_ Dw]). rewrite Fw in Fw'. injection Fw' as <-.
        cbn [nf_scale nf_dim] in Dw. rewrite <- Dw.
        apply (di_dim s D wu c (proj1 (find_unit_In _ _ _ Fw))). rewrite Ec. exact Fc.
  - (* derive_unit_from *)
    unfold lift_res in S. destruct (derive_unit s cid us sym auto) as [s1|e1] eqn:N; [|discriminate].
    injection S as <-. unfold derive_unit in N.
    destruct (find_cls s cid) as [c|] eqn:Fc; [|discriminate].
    destruct (find_cls_in_sound _ _ _ Fc) as [Ic Idc].
    destruct (rc_base c) eqn:Bc; [discriminate|].
    destruct (negb (Nat.eqb (length us) (length (rc_def c)))); [discriminate|].
    destruct (derive_items s (rc_def c) us) as [t|] eqn:Dt; cbn [bind] in N; [|discriminate].
    destruct (term_nf s t) as [x|] eqn:Tx; [|discriminate].
    destruct (term_nf_supported s t x U D Tx) as [Sx Wx].
    assert (K : forall sy r, make_unit s c sy (Some x) None = Ok r -> DInv (fst r)).
    { intros sy [s2 u] M. cbn [fst]. destruct (def_unit_case _ _ _ _ _ _ _ M) as (-> & Fu & Cu & Nu).
      apply (DInv_add_unit s u c); try assumption.
      - rewrite Cu, Idc. exact Fc.
      - rewrite Nu. exact Wx.
      - right. rewrite Nu. split; [exact Sx|].
        apply (derive_udim s U CI D _ _ _ _ _ Dt Tx). apply (di_cdef s D c Ic Bc). }
    destruct sym as [[|p]|]; [discriminate | |].
    + destruct (make_unit s c (N.pos p) (Some x) None) as [r|] eqn:M; cbn [bind] in N; [|discriminate].
      injection N as <-. exact (K _ r M).
    + destruct (make_unit s c auto (Some x) None) as [r|] eqn:M; cbn [bind] in N; [|discriminate].
      injection N as <-. exact (K _ r M).
  - (* currency *)
    unfold lift_res in S. destruct (new_currency s cid sym sf) as [s1|e1] eqn:N; [|discriminate].
    injection S as <-. unfold new_currency in N.
    destruct (find_cls s cid) as [c|] eqn:Fc; [|discriminate].
    destruct (find_cls_in_sound _ _ _ Fc) as [Ic Idc].
    destruct sf as [f|]; [|discriminate]. destruct (N.eqb sym 0); [discriminate|].
    destruct (make_unit s c sym None (Some f)) as [[s2 u]|] eqn:M; cbn [bind] in N; [|discriminate].
    injection N as <-. destruct (base_unit_case _ _ _ _ _ _ M) as (-> & Fu & Cu & Wu & Hs).
    apply (DInv_add_unit s u c); try assumption; [rewrite Cu, Idc; exact Fc | left; exact Hs].
Qed.

Theorem run_DInv dm : forall ds s, AllInv s -> DInv s -> guarded dm s ds = true ->
  DInv (run dm s ds).
Proof.
  induction ds as [|d ds IH]; intros s A D G; cbn [run fold_left]; [exact D|].
  cbn [guarded] in G. apply andb_true_iff in G. destruct G as [G1 G2].
  destruct (step dm s d) as [s1 e] eqn:S. cbn [fst] in *.
  destruct (step_ok _ _ _ _ _ A G1 S) as (A1 & _ & _).
  apply (IH s1 A1 (step_DInv dm s d s1 e A D G1 S) G2).
Qed.

Theorem reachable_DInv dm ds : guarded dm init ds = true -> DInv (run dm init ds).
Proof. intros G. apply (run_DInv dm ds init AllInv_init DInv_init G). Qed.

(* ---------- powers ---------- *)
Theorem result_type_dimension_pow s u k r w wu cu cw :
  UInv s -> CInv s -> DInv s -> In u (st_units s) ->
  val_ok s (nf_pow (ru_nf u) k) r -> snd r = Some w -> find_unit s w = Some wu ->
  find_cls s (ru_cls u) = Some cu -> find_cls s (ru_cls wu) = Some cw ->
  rc_dim cw = dv_scale k (rc_dim cu).
Proof.
  intros U CI D Iu V Sw Fw Fcu Fcw. unfold val_ok in V. rewrite Sw in V.
  destruct V as (wu' & Fw' & [_ Dw]). rewrite Fw in Fw'. injection Fw' as <-.
  cbn [nf_scale nf_dim nf_pow] in Dw.
  rewrite <- (di_dim s D wu cw (proj1 (find_unit_In _ _ _ Fw)) Fcw), Dw.
  rewrite <- (di_dim s D u cu Iu Fcu). apply udim_scale. exact CI.
Qed.

(* ---------- every unit can be found by its definition ---------- *)
Definition TMc (s : state) : Prop :=
  forall u, In u (st_units s) -> exists k w, In (k, w) (st_termmap s) /\ nf_eq k (ru_nf u).

Lemma TMc_push s s' u :
  st_units s' = st_units s ++ [u] -> st_termmap s' = tm_push s u -> TMc s -> TMc s'.
Proof.
  intros HU HT T x Hx. rewrite HU in Hx. apply in_app_iff in Hx. rewrite HT.
  destruct Hx as [Hx|[<-|[]]].
  - destruct (T x Hx) as (k & w & Hi & He). exists k, w. split; [apply tm_push_incl; exact Hi | exact He].
  - unfold tm_push, term_lookup. destruct (term_lookup_in (st_termmap s) (ru_nf u)) as [w|] eqn:L.
    + destruct (term_lookup_in_sound _ _ _ L) as (k & Hi & He). eauto.
    + exists (ru_nf u), (ru_id u). split; [apply in_app_iff; right; left; reflexivity | apply nf_eq_refl].
Qed.

Theorem step_TMc dm s d s' e :
  AllInv s -> guard dm s d = true -> step dm s d = (s', e) -> TMc s -> TMc s'.
Proof.
  intros A G S T. destruct e as [e|].
  { destruct A as (_ & CI & _). rewrite (step_error_noop dm s d s' e CI S). exact T. }
  pose proof A as (U & CI & R & C).
  destruct d as [id def rs auto qu money | cid sym ud | cid us sym auto | cid sym sf]; cbn [step] in S.
  - destruct (decl_class_cases _ _ _ _ _ _ _ _ _ CI S) as [[_ X]|[_ X]]; [congruence|].
    destruct X as (d & ou & _ & _ & _ & _ & _ & HU & _ & Hou).
    destruct ou as [u|]; cbn [ou_list] in HU.
    + destruct Hou as (HT & _). eapply TMc_push; eassumption.
    + intros x Hx. rewrite HU, app_nil_r in Hx. rewrite Hou. exact (T x Hx).
  - unfold lift_res in S. destruct (new_unit s dm cid sym ud) as [s1|] eqn:N; [|discriminate].
    injection S as <-. destruct (new_unit_ok _ _ _ _ _ _ A G N) as (_ & _ & u & -> & _).
    eapply TMc_push; [apply add_unit_units | apply add_unit_termmap | exact T].
  - unfold lift_res in S. destruct (derive_unit s cid us sym auto) as [s1|] eqn:N; [|discriminate].
    injection S as <-. destruct (derive_unit_ok _ dm _ _ _ _ _ A G N) as (_ & _ & u & -> & _).
    eapply TMc_push; [apply add_unit_units | apply add_unit_termmap | exact T].
  - unfold lift_res in S. destruct (new_currency s cid sym sf) as [s1|] eqn:N; [|discriminate].
    injection S as <-. destruct (new_currency_ok _ _ _ _ _ A N) as (_ & _ & u & -> & _).
    eapply TMc_push; [apply add_unit_units | apply add_unit_termmap | exact T].
Qed.

Theorem reachable_TMc dm : forall ds s, AllInv s -> TMc s -> guarded dm s ds = true -> TMc (run dm s ds).
Proof.
  induction ds as [|d ds IH]; intros s A T G; cbn [run fold_left]; [exact T|].
  cbn [guarded] in G. apply andb_true_iff in G. destruct G as [G1 G2].
  destruct (step dm s d) as [s1 e] eqn:S. cbn [fst] in *.
  destruct (step_ok _ _ _ _ _ A G1 S) as (A1 & _ & _).
  apply (IH s1 A1 (step_TMc dm s d s1 e A G1 S T) G2).
Qed.

(* a product / quotient / power whose dimension is that of a declared type
   with reference unit is defined: UndefinedResultError only when no such type
   (for types without reference unit: no such unit) exists *)
Theorem defined_if_type_declared s x c r ru :
  UInv s -> CInv s -> TMc s ->
  In c (st_classes s) -> rc_ref c = Some r -> find_unit s r = Some ru ->
  nf_dim x = nf_dim (ru_nf ru) -> resolve s x <> None.
Proof.
  intros U CI T Ic Rc Fr Dx.
  destruct (ci_ref s CI c r Ic Rc) as (ru' & Fr' & _ & Er). rewrite Fr in Fr'. injection Fr' as <-.
  destruct (find_unit_In _ _ _ Fr) as [Iru _].
  destruct (T ru Iru) as (k & w & Hi & He).
  apply (resolve_defined s x k w Hi).
  destruct He as [E1 E2]. split; cbn [nf_num nf_dim].
  - rewrite E1. symmetry. apply (ui_equiv s U ru 1%Q Iru Er).
  - rewrite E2. symmetry. exact Dx.
Qed.

Theorem defined_if_unit_declared s x u :
  TMc s -> In u (st_units s) -> nf_eq (ru_nf u) (mkNf 1 (nf_dim x)) -> resolve s x <> None.
Proof.
  intros T Iu He. destruct (T u Iu) as (k & w & Hi & Hk).
  apply (resolve_defined s x k w Hi). eapply nf_eq_trans; eassumption.
Qed.
