(* Proofs/C07Canon.v — normalized() is canonical; ==, hash; uniqueness of the
   canonical form, completeness of == and idempotence of normalized(). *)
From Coq Require Import ZArith QArith Qabs List Bool Lia Lqa Qpower Permutation
     Setoid Morphisms.
From QV Require Import Model.Num Model.Dim Model.Term Proofs.DimProofs
     Proofs.C07Sem Proofs.C07Reduce Proofs.C07Shape.
Open Scope Z_scope.

Section Canon.
Variable E : env.
Hypothesis HS : env_sound E.

Notation sem := (sem E).

(* ---------- items_ok through the expansion ---------- *)
Lemma elems_items_ok l :
  forallb (fun it => base_elem_item E it && nonzero_exp it) l = true -> items_ok l = true.
Proof.
  induction l as [|[x e] l IH]; cbn [forallb items_ok]; auto.
  intros H. apply andb_prop in H as [H1 H2]. fold (items_ok l). rewrite (IH H2).
  destruct x as [q|a]; [discriminate | reflexivity].
Qed.

Lemma canonical_items_nz l : canonical E l = true -> items_ok l = true.
Proof.
  intros H. apply canonical_cases in H as [(q & r & -> & H1 & H2 & H3)|H].
  - cbn [items_ok forallb]. fold (items_ok r).
    rewrite (elems_items_ok r (canon_elems_forall E _ H3)).
    unfold item_ok. cbn [fst]. destruct (Qeq_bool q 0) eqn:Hq; auto.
    apply Qeq_bool_iff in Hq. tauto.
  - apply elems_items_ok. apply canon_elems_forall. exact H.
Qed.

Lemma iter_normalized_ok t : items_ok t = true -> items_ok (iter_normalized E t) = true.
Proof.
  unfold iter_normalized, items_ok.
  induction t as [|[x e] t IH]; cbn [flat_map forallb]; auto.
  intros H. apply andb_prop in H as [H1 H2]. rewrite forallb_app, (IH H2), andb_true_r.
  unfold expand_item. cbn [fst snd]. destruct x as [q|a].
  - cbn [forallb]. rewrite H1. reflexivity.
  - destruct (e_base (E a)); [cbn [forallb]; rewrite H1; reflexivity|].
    pose proof (canonical_items_nz _ (es_canon E HS a)) as Hc. unfold items_ok in Hc.
    rewrite forallb_forall in *. intros it Hit. apply in_map_iff in Hit as (b & <- & Hb).
    specialize (Hc b Hb). unfold item_ok in *. cbn [fst]. exact Hc.
Qed.

(* ---------- == on items against a canonical list ---------- *)
Lemma pyeq_elems_eq re : forall te,
  forallb (fun it => base_elem_item E it && nonzero_exp it) re = true ->
  items_pyeq E re te = true -> te = re.
Proof.
  induction re as [|[x e] re IH]; intros [|[y f] te]; cbn [forallb items_pyeq];
    try discriminate; auto.
  intros H Hp. apply andb_prop in H as [H1 H2]. apply andb_prop in Hp as [P1 P2].
  rewrite (IH te H2 P2). unfold item_pyeq in P1. cbn [fst snd] in P1.
  apply andb_prop in P1 as [Q1 Q2]. apply Z.eqb_eq in Q2. subst f.
  apply andb_prop in H1 as [H1 _]. unfold base_elem_item in H1. cbn [fst] in H1.
  destruct x as [q|a]; [discriminate|]. destruct y as [p|b]; [discriminate|].
  rewrite (es_pyeq E HS a b); auto. rewrite H1. reflexivity.
Qed.

Lemma pyeq_canonical r t :
  canonical E r = true -> items_pyeq E r t = true ->
  canonical E t = true /\ map (hash_item) t = map hash_item r.
Proof.
  intros Hc Hp. apply canonical_cases in Hc as [(q & re & -> & H1 & H2 & H3)|Hc].
  - destruct t as [|[y f] te]; cbn [items_pyeq] in Hp; [discriminate|].
    apply andb_prop in Hp as [P1 P2]. unfold item_pyeq in P1. cbn [fst snd] in P1.
    apply andb_prop in P1 as [Q1 Q2]. apply Z.eqb_eq in Q2. subst f.
    destruct y as [p|b]; [|discriminate]. cbn in Q1. apply Qeq_bool_iff in Q1.
    rewrite (pyeq_elems_eq re te (canon_elems_forall E _ H3) P2). split.
    + cbn [canonical]. rewrite H3, Z.eqb_refl.
      destruct (Qeq_bool p 1) eqn:Hp1; [apply Qeq_bool_iff in Hp1; rewrite <- Q1 in Hp1; tauto|].
      destruct (Qeq_bool p 0) eqn:Hp0; [apply Qeq_bool_iff in Hp0; rewrite <- Q1 in Hp0; tauto|].
      reflexivity.
    + cbn [map]. unfold hash_item at 1 3. cbn [fst snd]. f_equal. f_equal. f_equal.
      apply Qred_complete. symmetry. exact Q1.
  - pose proof (pyeq_elems_eq r t (canon_elems_forall E _ Hc) Hp) as ->.
    split; auto.
    destruct r as [|[[q|a] e] r']; auto.
    unfold canon_elems in Hc. cbn in Hc. discriminate.
Qed.

(* ---------- normalized() is canonical ---------- *)
Theorem normalized_canonical t :
  items_ok t = true -> canonical E (normalized E t) = true.
Proof.
  intros Hok. unfold normalized.
  destruct (shortcut E t) eqn:Hsc.
  - unfold shortcut in Hsc. destruct t as [|[[q|a] e] [|? ?]]; try discriminate.
    + apply andb_prop in Hsc as [S1 S2]. cbn [canonical]. rewrite S1, S2.
      cbn [items_ok forallb item_ok fst] in Hok. rewrite andb_true_r in Hok. rewrite Hok.
      reflexivity.
    + apply andb_prop in Hsc as [S1 S2]. cbn [canonical]. unfold canon_elems.
      cbn [forallb sorted_elems sorted_from]. unfold base_elem_item, nonzero_exp.
      cbn [fst snd]. rewrite S1, S2. reflexivity.
  - assert (Hr : canonical E (reduce_items E true None false (iter_normalized E t)) = true).
    { cbn [reduce_items]. apply general_canonical; auto.
      - apply iter_normalized_nb. exact HS.
      - apply iter_normalized_ok. exact Hok. }
    destruct (items_pyeq E _ t) eqn:Hp; auto.
    apply (pyeq_canonical _ _ Hr Hp).
Qed.

(* ---------- == is sound ---------- *)
Lemma elem_pyeq_sem a b : elem_pyeq E (El a) (El b) = true -> geq (semE E a) (semE E b).
Proof.
  cbn [elem_pyeq]. intros H. apply orb_prop in H as [H|H].
  - apply N.eqb_eq in H. subst. reflexivity.
  - apply andb_prop in H as [Hc Hs].
    destruct (e_scale (E a)) as [s|] eqn:Ha; [|discriminate].
    destruct (e_scale (E b)) as [t|] eqn:Hb; [|discriminate].
    apply Qeq_bool_iff in Hs.
    assert (Hf : factor E a b = Some (qdiv s t)).
    { unfold factor. rewrite Hc, Ha, Hb. reflexivity. }
    destruct (es_factor E HS b a _ Hf) as [Hnz _].
    rewrite (factor_sem E HS b a _ Hf).
    assert (H1 : qdiv s t == 1).
    { unfold qdiv. rewrite Qred_correct.
      destruct (Qeq_dec t 0) as [Ht|Ht].
      - exfalso. apply Hnz. unfold qdiv. rewrite Qred_correct. rewrite Ht.
        unfold Qdiv. cbn. ring.
      - rewrite Hs. field. exact Ht. }
    rewrite H1. rewrite gnum_one. apply gmul_one_l.
Qed.

Lemma items_pyeq_sem l : forall l', items_pyeq E l l' = true -> geq (sem l) (sem l').
Proof.
  induction l as [|[x e] l IH]; intros [|[y f] l']; cbn [items_pyeq]; try discriminate.
  - reflexivity.
  - intros H. apply andb_prop in H as [H1 H2]. rewrite !sem_cons, (IH l' H2).
    apply gmul_proper; [|reflexivity].
    unfold item_pyeq in H1. cbn [fst snd] in H1. apply andb_prop in H1 as [Q1 Q2].
    apply Z.eqb_eq in Q2. subst f.
    destruct x as [p|a], y as [q|b]; try discriminate.
    + cbn in Q1. apply Qeq_bool_iff in Q1. cbn [C07Sem.sem_item fst snd].
      apply gnum_proper. rewrite Q1. reflexivity.
    + cbn [C07Sem.sem_item fst snd]. rewrite (elem_pyeq_sem a b Q1). reflexivity.
Qed.

Theorem term_eqb_sound s t : term_eqb E s t = true -> geq (sem s) (sem t).
Proof.
  unfold term_eqb. intros H. apply items_pyeq_sem in H.
  rewrite <- (normalized_sem E HS s), <- (normalized_sem E HS t). exact H.
Qed.

(* ---------- equal terms hash equal ---------- *)
Theorem term_eqb_hash s t :
  items_ok s = true -> term_eqb E s t = true -> hash_key E s = hash_key E t.
Proof.
  intros Hs H. unfold term_eqb in H. unfold hash_key.
  destruct (pyeq_canonical _ _ (normalized_canonical s Hs) H) as [_ Hh].
  symmetry. exact Hh.
Qed.

(* ---------- the canonical order is a strict order ---------- *)
Lemma elem_ltb_irrefl x : elem_ltb E x x = false.
Proof.
  unfold elem_ltb. rewrite Z.ltb_irrefl, name_ltb_irrefl, andb_false_r. reflexivity.
Qed.

Lemma elem_ltb_trans x y z :
  elem_ltb E x y = true -> elem_ltb E y z = true -> elem_ltb E x z = true.
Proof.
  unfold elem_ltb. intros H1 H2.
  apply orb_prop in H1. apply orb_prop in H2. apply orb_true_iff.
  destruct H1 as [H1|H1], H2 as [H2|H2].
  - left. apply Z.ltb_lt in H1, H2. apply Z.ltb_lt. lia.
  - apply andb_prop in H2 as [H2 _]. apply Z.eqb_eq in H2. left. rewrite <- H2. exact H1.
  - apply andb_prop in H1 as [H1 _]. apply Z.eqb_eq in H1. left. rewrite H1. exact H2.
  - apply andb_prop in H1 as [A1 A2]. apply andb_prop in H2 as [B1 B2].
    apply Z.eqb_eq in A1, B1. right. rewrite A1, B1, Z.eqb_refl. cbn [andb].
    eapply name_ltb_trans; eauto.
Qed.

Lemma sorted_from_all x l :
  sorted_from E x l = true -> forall it, In it l -> elem_ltb E x (fst it) = true.
Proof.
  revert x. induction l as [|y r IH]; cbn [sorted_from]; intros x H it Hit; [destruct Hit|].
  apply andb_prop in H as [H1 H2]. destruct Hit as [<-|Hit]; auto.
  eapply elem_ltb_trans; [exact H1|]. apply (IH _ H2). exact Hit.
Qed.

(* ---------- exponents of a list of base elements ---------- *)
Definition expo1 (it : item) (i : N) : Z :=
  match fst it with El a => if N.eqb i a then snd it else 0 | Num _ => 0 end.
Definition expo (l : list item) (i : N) : Z :=
  fold_right (fun it z => expo1 it i + z) 0 l.

Definition CE (l : list item) : Prop := Forall (good E) l /\ sorted_elems E l = true.

Lemma canon_elems_CE l : canon_elems E l = true <-> CE l.
Proof.
  unfold canon_elems, CE, good. rewrite andb_true_iff, forallb_forall, Forall_forall. reflexivity.
Qed.

Lemma CE_tail x r : CE (x :: r) -> CE r.
Proof.
  intros [H1 H2]. inversion H1; subst. split; auto.
  destruct r as [|y r']; cbn [sorted_elems sorted_from] in *; auto.
  apply andb_prop in H2. tauto.
Qed.

Lemma good_expo l i : Forall (good E) l -> snd (sem l) i = expo l i.
Proof.
  induction 1 as [|[x e] l Hx Hl IH]; [reflexivity|].
  rewrite sem_cons. cbn [gmul snd expo fold_right]. fold (expo l i). rewrite IH.
  f_equal. unfold good, base_elem_item in Hx. cbn [fst] in Hx.
  destruct x as [q|a]; [discriminate|]. apply andb_prop in Hx as [Hb _].
  destruct (semE_base E HS a Hb) as [_ B2]. cbn [gbase snd] in B2.
  unfold expo1. cbn [C07Sem.sem_item fst snd gpow]. rewrite B2.
  destruct (N.eqb i a); lia.
Qed.

Lemma expo_in l i : expo l i <> 0 -> exists e, In (El i, e) l.
Proof.
  induction l as [|[x e] l IH]; cbn [expo fold_right]; [congruence|].
  fold (expo l i). unfold expo1. cbn [fst snd]. intros H.
  destruct x as [q|a].
  - destruct IH as (e' & He'); [lia|]. exists e'. right. exact He'.
  - destruct (N.eqb_spec i a) as [->|Hia].
    + exists e. left. reflexivity.
    + destruct IH as (e' & He'); [lia|]. exists e'. right. exact He'.
Qed.

Lemma expo_head_tail a e r :
  CE ((El a, e) :: r) -> expo r a = 0.
Proof.
  intros [_ H]. cbn [sorted_elems fst] in H.
  destruct (Z.eq_dec (expo r a) 0) as [|Hne]; auto. exfalso.
  destruct (expo_in r a Hne) as (e' & He').
  pose proof (sorted_from_all _ _ H _ He') as Hlt. cbn [fst] in Hlt.
  rewrite elem_ltb_irrefl in Hlt. discriminate.
Qed.

Lemma good_el x e : good E (x, e) -> exists a, x = El a /\ e <> 0.
Proof.
  unfold good, base_elem_item, nonzero_exp. cbn [fst snd]. intros H.
  destruct x as [q|a]; [discriminate|]. apply andb_prop in H as [_ H].
  exists a. split; auto. apply negb_true_iff in H. apply Z.eqb_neq in H. exact H.
Qed.

Lemma CE_unique l : forall l', CE l -> CE l' -> (forall i, expo l i = expo l' i) -> l = l'.
Proof.
  induction l as [|[x e] r IH]; intros [|[y f] r'] Hl Hl' Hex; auto.
  - exfalso. destruct Hl' as [G S]. inversion G as [|? ? G1 G2]; subst.
    destruct (good_el _ _ G1) as (b & -> & Hf).
    specialize (Hex b). cbn [expo fold_right] in Hex. fold (expo r' b) in Hex.
    rewrite (expo_head_tail b f r' (conj G S)) in Hex.
    unfold expo1 in Hex. cbn [fst snd] in Hex. rewrite N.eqb_refl in Hex. lia.
  - exfalso. destruct Hl as [G S]. inversion G as [|? ? G1 G2]; subst.
    destruct (good_el _ _ G1) as (a & -> & He).
    specialize (Hex a). cbn [expo fold_right] in Hex. fold (expo r a) in Hex.
    rewrite (expo_head_tail a e r (conj G S)) in Hex.
    unfold expo1 in Hex. cbn [fst snd] in Hex. rewrite N.eqb_refl in Hex. lia.
  - pose proof Hl as [G S]. pose proof Hl' as [G' S'].
    inversion G as [|? ? G1 G2]; subst. inversion G' as [|? ? G1' G2']; subst.
    destruct (good_el _ _ G1) as (a & -> & He). destruct (good_el _ _ G1') as (b & -> & Hf).
    pose proof (expo_head_tail a e r Hl) as Ta. pose proof (expo_head_tail b f r' Hl') as Tb.
    assert (Hhead : forall i, expo ((El a, e) :: r) i = (if N.eqb i a then e else 0) + expo r i)
      by reflexivity.
    assert (Hhead' : forall i, expo ((El b, f) :: r') i = (if N.eqb i b then f else 0) + expo r' i)
      by reflexivity.
    assert (Hab : a = b).
    { destruct (N.eq_dec a b) as [|Hne]; auto. exfalso.
      (* a occurs in l', hence after b; b occurs in l, hence after a *)
      pose proof (Hex a) as Ha. rewrite Hhead, Hhead', N.eqb_refl, Ta in Ha.
      apply N.eqb_neq in Hne. rewrite Hne in Ha.
      destruct (expo_in r' a) as (e1 & He1); [lia|].
      pose proof (Hex b) as Hb. rewrite Hhead, Hhead', N.eqb_refl, Tb in Hb.
      rewrite N.eqb_sym in Hne. rewrite Hne in Hb.
      destruct (expo_in r b) as (e2 & He2); [lia|].
      cbn [sorted_elems fst] in S, S'.
      pose proof (sorted_from_all _ _ S _ He2) as L1.
      pose proof (sorted_from_all _ _ S' _ He1) as L2. cbn [fst] in L1, L2.
      pose proof (elem_ltb_trans _ _ _ L1 L2) as L3. rewrite elem_ltb_irrefl in L3. discriminate. }
    subst b.
    assert (Hef : e = f).
    { pose proof (Hex a) as Ha. rewrite Hhead, Hhead', N.eqb_refl, Ta, Tb in Ha. lia. }
    subst f. f_equal. apply IH; [eapply CE_tail; eauto | eapply CE_tail; eauto |].
    intros i. specialize (Hex i). rewrite Hhead, Hhead' in Hex. lia.
Qed.

Lemma items_pyeq_refl l : items_pyeq E l l = true.
Proof.
  induction l as [|[x e] l IH]; cbn [items_pyeq]; auto.
  rewrite IH, andb_true_r. unfold item_pyeq. cbn [fst snd]. rewrite Z.eqb_refl, andb_true_r.
  destruct x as [q|a]; cbn [elem_pyeq].
  - apply Qeq_bool_iff. reflexivity.
  - rewrite N.eqb_refl. reflexivity.
Qed.

(* two canonical lists with the same denotation are equal (numbers by value) *)
Theorem canonical_unique l l' :
  canonical E l = true -> canonical E l' = true -> geq (sem l) (sem l') ->
  items_pyeq E l l' = true.
Proof.
  intros Hc Hc' [Hq Hz].
  apply canonical_cases in Hc as [(q & r & -> & H1 & H2 & H3)|Hc];
  apply canonical_cases in Hc' as [(q' & r' & -> & H1' & H2' & H3')|Hc'].
  - apply canon_elems_CE in H3, H3'.
    rewrite !sem_cons in Hq. cbn [gmul fst C07Sem.sem_item snd gnum] in Hq.
    rewrite (good_num1 E HS r (proj1 H3)), (good_num1 E HS r' (proj1 H3')), !Qpow1 in Hq.
    assert (r = r').
    { apply CE_unique; auto. intros i. specialize (Hz i). rewrite !sem_cons in Hz.
      cbn [gmul snd C07Sem.sem_item fst gnum] in Hz.
      rewrite (good_expo r i (proj1 H3)), (good_expo r' i (proj1 H3')) in Hz. lia. }
    subst r'. cbn [items_pyeq]. rewrite items_pyeq_refl, andb_true_r.
    unfold item_pyeq. cbn [fst snd elem_pyeq]. rewrite andb_true_r.
    apply Qeq_bool_iff. lra.
  - exfalso. apply canon_elems_CE in H3, Hc'.
    rewrite sem_cons in Hq. cbn [gmul fst C07Sem.sem_item snd gnum] in Hq.
    rewrite (good_num1 E HS r (proj1 H3)), (good_num1 E HS l' (proj1 Hc')), Qpow1 in Hq.
    apply H1. lra.
  - exfalso. apply canon_elems_CE in Hc, H3'.
    rewrite sem_cons in Hq. cbn [gmul fst C07Sem.sem_item snd gnum] in Hq.
    rewrite (good_num1 E HS l (proj1 Hc)), (good_num1 E HS r' (proj1 H3')), Qpow1 in Hq.
    apply H1'. lra.
  - apply canon_elems_CE in Hc, Hc'.
    assert (l = l').
    { apply CE_unique; auto. intros i. specialize (Hz i).
      rewrite (good_expo l i (proj1 Hc)), (good_expo l' i (proj1 Hc')) in Hz. exact Hz. }
    subst l'. apply items_pyeq_refl.
Qed.

(* == is complete: terms with the same denotation compare equal *)
Theorem term_eqb_complete s t :
  items_ok s = true -> items_ok t = true -> geq (sem s) (sem t) -> term_eqb E s t = true.
Proof.
  intros Hs Ht H. unfold term_eqb. apply canonical_unique.
  - apply normalized_canonical. exact Hs.
  - apply normalized_canonical. exact Ht.
  - rewrite (normalized_sem E HS s), (normalized_sem E HS t). exact H.
Qed.

(* normalized() is idempotent: it returns its argument for a normal form *)
Theorem normalized_idem t :
  items_ok t = true -> normalized E (normalized E t) = normalized E t.
Proof.
  intros Hok. set (nt := normalized E t).
  pose proof (normalized_canonical t Hok) as Hc. fold nt in Hc.
  unfold normalized at 1. destruct (shortcut E nt); [reflexivity|].
  assert (Hp : items_pyeq E (reduce_items E true None false (iter_normalized E nt)) nt = true).
  { apply canonical_unique; auto.
    - cbn [reduce_items]. apply general_canonical; auto.
      + apply iter_normalized_nb. exact HS.
      + apply iter_normalized_ok. apply canonical_items_nz. exact Hc.
    - rewrite (reduce_items_sem E HS). apply (iter_normalized_sem E HS). }
  rewrite Hp. reflexivity.
Qed.

End Canon.
