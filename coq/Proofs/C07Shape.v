(* Proofs/C07Shape.v — normalized() yields the canonical form; canonical forms
   are unique; consequences for ==, hash and idempotence. *)
From Coq Require Import ZArith QArith Qabs List Bool Lia Lqa Qpower Permutation
     Setoid Morphisms.
From QV Require Import Model.Num Model.Dim Model.Term Proofs.DimProofs
     Proofs.C07Sem Proofs.C07Reduce.
Open Scope Z_scope.

(* ---------- the code-point order of names ---------- *)
Lemma name_ltb_irrefl a : name_ltb a a = false.
Proof.
  induction a as [|x r IH]; cbn; [reflexivity|].
  rewrite N.ltb_irrefl, N.eqb_refl. exact IH.
Qed.

Lemma name_ltb_trans a : forall b c,
  name_ltb a b = true -> name_ltb b c = true -> name_ltb a c = true.
Proof.
  induction a as [|x r IH]; intros [|y s] [|z t]; cbn; try discriminate; auto.
  destruct (N.ltb_spec x y), (N.ltb_spec y z), (N.ltb_spec x z); try lia; auto;
    destruct (N.eqb_spec x y), (N.eqb_spec y z), (N.eqb_spec x z); try lia; try discriminate; auto.
  apply IH.
Qed.

Lemma name_ltb_total a : forall b, name_ltb a b = true \/ a = b \/ name_ltb b a = true.
Proof.
  induction a as [|x r IH]; intros [|y s]; cbn; auto.
  destruct (N.ltb_spec x y); auto.
  destruct (N.ltb_spec y x); auto.
  assert (x = y) by lia. subst y. rewrite N.eqb_refl.
  destruct (IH s) as [H1|[H1|H1]]; auto. subst. auto.
Qed.

Lemma name_ltb_asym a b : name_ltb a b = true -> name_ltb b a = false.
Proof.
  intros H. destruct (name_ltb b a) eqn:H2; auto.
  rewrite <- (name_ltb_irrefl a). symmetry. eapply name_ltb_trans; eauto.
Qed.

Lemma name_eqb_eq a b : name_eqb a b = true <-> a = b.
Proof.
  unfold name_eqb. split.
  - intros H. apply andb_prop in H as [H1 H2].
    destruct (name_ltb_total a b) as [H|[H|H]]; auto.
    + rewrite H in H1. discriminate.
    + rewrite H in H2. discriminate.
  - intros ->. rewrite name_ltb_irrefl. reflexivity.
Qed.

(* ---------- list utilities ---------- *)
Lemma FOP_app {A} (R : A -> A -> Prop) l1 l2 :
  ForallOrdPairs R l1 -> ForallOrdPairs R l2 ->
  (forall x y, In x l1 -> In y l2 -> R x y) -> ForallOrdPairs R (l1 ++ l2).
Proof.
  induction l1 as [|a l1 IH]; cbn; intros H1 H2 H; auto.
  inversion H1 as [|? ? Ha Hl]; subst. constructor.
  - apply Forall_app. split; auto. apply Forall_forall. intros y Hy. apply H; auto.
  - apply IH; auto.
Qed.

Lemma FOP_map {A B} (f : A -> B) (R : B -> B -> Prop) l :
  ForallOrdPairs (fun x y => R (f x) (f y)) l -> ForallOrdPairs R (map f l).
Proof.
  induction 1; cbn; constructor; auto.
  apply Forall_map. auto.
Qed.

Lemma FOP_filter {A} (R : A -> A -> Prop) p l :
  ForallOrdPairs R l -> ForallOrdPairs R (filter p l).
Proof.
  induction 1; cbn; [constructor|].
  destruct (p a); auto. constructor; auto.
  apply Forall_forall. intros y Hy. apply filter_In in Hy as [Hy _].
  rewrite Forall_forall in H. auto.
Qed.

Lemma NoDup_map_filter {A B} (f : A -> B) p l :
  NoDup (map f l) -> NoDup (map f (filter p l)).
Proof.
  induction l as [|x l IH]; cbn; intros H; auto.
  inversion H as [|? ? H1 H2]; subst.
  destruct (p x); cbn; auto. constructor; auto.
  intros Hin. apply H1. apply in_map_iff in Hin as (y & Hy1 & Hy2).
  apply filter_In in Hy2 as [Hy2 _]. apply in_map_iff. eauto.
Qed.

Section Shape.
Variable E : env.
Hypothesis HS : env_sound E.

Notation sem := (sem E).
Notation nm := (fun it : item => elem_name E (fst it)).

(* ---------- nsort sorts by name ---------- *)
Definition NLe (x y : item) : Prop := name_ltb (nm y) (nm x) = false.
Definition NLt (x y : item) : Prop := name_ltb (nm x) (nm y) = true.

Lemma ninsert_sorted x l :
  ForallOrdPairs NLe l -> ForallOrdPairs NLe (ninsert E x l).
Proof.
  induction 1 as [|y r Hy Hr IH]; cbn [ninsert].
  - constructor; constructor.
  - destruct (name_ltb (nm y) (nm x)) eqn:Hyx.
    + constructor; auto.
      eapply Permutation_Forall; [symmetry; apply ninsert_perm|].
      constructor; auto. unfold NLe. apply name_ltb_asym. exact Hyx.
    + constructor; [|constructor; auto].
      constructor; [exact Hyx|].
      rewrite Forall_forall in *. intros z Hz. specialize (Hy z Hz). unfold NLe in *.
      destruct (name_ltb (nm z) (nm x)) eqn:Hzx; auto.
      destruct (name_ltb_total (nm y) (nm z)) as [H|[H|H]].
      * rewrite (name_ltb_trans _ _ _ H Hzx) in Hyx. discriminate.
      * rewrite H in Hyx. rewrite Hzx in Hyx. discriminate.
      * rewrite H in Hy. discriminate.
Qed.

Lemma nsort_sorted l : ForallOrdPairs NLe (nsort E l).
Proof.
  induction l as [|x l IH]; cbn [nsort fold_right]; [constructor|].
  apply ninsert_sorted. exact IH.
Qed.

Lemma sorted_strict l :
  ForallOrdPairs NLe l -> NoDup (map nm l) -> ForallOrdPairs NLt l.
Proof.
  induction 1 as [|x r Hx Hr IH]; cbn [map]; intros Hnd; [constructor|].
  inversion Hnd as [|? ? N1 N2]; subst. constructor; auto.
  rewrite Forall_forall in *. intros y Hy. specialize (Hx y Hy). unfold NLe, NLt in *.
  destruct (name_ltb_total (nm x) (nm y)) as [H|[H|H]]; auto.
  - exfalso. apply N1. rewrite H. apply in_map_iff. eauto.
  - rewrite H in Hx. discriminate.
Qed.

(* ---------- the merge scan keeps pairwise unrelated elements ---------- *)
Definition U (x y : elem) : Prop := same_elem x y = false /\ factor_elem E y x = None.

Lemma merge_into_elems acc it :
  map fst (snd (merge_into E acc it)) = map fst acc \/
  (map fst (snd (merge_into E acc it)) = map fst acc ++ [fst it] /\
   Forall (fun x => U x (fst it)) (map fst acc)).
Proof.
  induction acc as [|[x1 e1] rest IH]; cbn [merge_into].
  - right. cbn. split; auto.
  - destruct (same_elem x1 (fst it)) eqn:Hs; [left; reflexivity|].
    destruct (factor_elem E (fst it) x1) eqn:Hf; [left; reflexivity|].
    cbn [snd map fst]. destruct IH as [IH|[IH1 IH2]].
    + left. rewrite IH. reflexivity.
    + right. rewrite IH1. split; [reflexivity|]. constructor; auto. split; auto.
Qed.

Lemma FOP_snoc {A} (R : A -> A -> Prop) l y :
  ForallOrdPairs R l -> Forall (fun x => R x y) l -> ForallOrdPairs R (l ++ [y]).
Proof.
  intros H1 H2. apply FOP_app; auto.
  - constructor; constructor.
  - intros x z Hx [ <- | [] ]. rewrite Forall_forall in H2. auto.
Qed.

Lemma scan_fold_inv r : forall st,
  ForallOrdPairs U (map fst (snd st)) ->
  ForallOrdPairs U (map fst (snd (fold_left (scan_step E) r st))) /\
  (forall x, In x (map fst (snd (fold_left (scan_step E) r st))) ->
             In x (map fst (snd st)) \/ In x (map fst r)).
Proof.
  induction r as [|it r IH]; intros st H; cbn [fold_left].
  - split; auto.
  - assert (H' : ForallOrdPairs U (map fst (snd (scan_step E st it))) /\
                 (forall x, In x (map fst (snd (scan_step E st it))) ->
                            In x (map fst (snd st)) \/ x = fst it)).
    { change (snd (scan_step E st it)) with (snd (merge_into E (snd st) it)).
      destruct (merge_into_elems (snd st) it) as [Hm|[Hm1 Hm2]].
      - rewrite Hm. split; auto.
      - rewrite Hm1. split; [apply FOP_snoc; auto|].
        intros x Hx. apply in_app_or in Hx as [Hx|[ <- | [] ]]; auto. }
    destruct H' as [H1 H2]. destruct (IH _ H1) as [I1 I2]. split; auto.
    intros x Hx. destruct (I2 x Hx) as [Hx'|Hx'].
    + destruct (H2 x Hx') as [ ? | -> ]; auto. right. cbn. auto.
    + right. cbn. auto.
Qed.

Lemma scan_group_inv g :
  ForallOrdPairs U (map fst (snd (scan_group E g))) /\
  (forall x, In x (map fst (snd (scan_group E g))) -> In x (map fst g)).
Proof.
  destruct g as [|it0 r]; cbn [scan_group].
  - cbn. split; [constructor | auto].
  - destruct (scan_fold_inv r (1%Q, [it0])) as [H1 H2].
    + cbn. constructor; constructor.
    + split; auto. intros x Hx. destruct (H2 x Hx) as [H|H]; cbn in *; tauto.
Qed.

(* unrelated elements of one sort key have distinct names *)
Lemma unrelated_names k l :
  ForallOrdPairs U l ->
  (forall x, In x l -> exists a, x = El a /\ Zpos (e_key (E a)) = k) ->
  NoDup (map (elem_name E) l).
Proof.
  induction 1 as [|x r Hx Hr IH]; cbn [map]; intros Hk; [constructor|].
  constructor.
  - intros Hin. apply in_map_iff in Hin as (y & Hy1 & Hy2).
    rewrite Forall_forall in Hx. destruct (Hx y Hy2) as [U1 U2].
    destruct (Hk x (or_introl eq_refl)) as (a & -> & Ka).
    destruct (Hk y (or_intror Hy2)) as (b & -> & Kb).
    cbn in U1, U2, Hy1. apply N.eqb_neq in U1.
    apply (es_names E HS a b); auto. congruence.
  - apply IH. intros y Hy. apply Hk. right. exact Hy.
Qed.

(* ---------- sorted keys and groups ---------- *)
Fixpoint zsorted (l : list (Z * item)) : Prop :=
  match l with
  | [] => True
  | x :: r => (forall y, In y r -> fst x <= fst y) /\ zsorted r
  end.

Lemma kinsert_zsorted x l : zsorted l -> zsorted (kinsert x l).
Proof.
  induction l as [|y r IH]; cbn [kinsert zsorted]; intros H.
  - split; [intros ? []|exact I].
  - destruct H as [H1 H2]. destruct (Z.ltb_spec (fst y) (fst x)).
    + cbn [zsorted]. split; auto.
      intros z Hz. apply (Permutation_in _ (kinsert_perm x r)) in Hz as [ <- | Hz]; [lia|auto].
    + cbn [zsorted]. split; [|split; auto].
      intros z [ <- | Hz]; [lia|]. specialize (H1 z Hz). lia.
Qed.

Lemma ksort_zsorted l : zsorted (ksort l).
Proof.
  induction l as [|x l IH]; cbn [ksort fold_right]; [exact I|].
  apply kinsert_zsorted. exact IH.
Qed.

Fixpoint gsorted (gs : list (Z * list item)) : Prop :=
  match gs with
  | [] => True
  | g :: r => (forall h, In h r -> fst g < fst h) /\ gsorted r
  end.

Lemma kgroup_keys l h : In h (kgroup l) -> exists it, In (fst h, it) l.
Proof.
  revert h. induction l as [|[k it] r IH]; cbn [kgroup]; intros h Hh; [destruct Hh|].
  destruct (kgroup r) as [|[k' g] gs].
  - destruct Hh as [ <- | [] ]. exists it. left. reflexivity.
  - destruct (Z.eqb_spec k k') as [->|Hk].
    + destruct Hh as [ <- | Hh].
      * exists it. left. reflexivity.
      * destruct (IH h (or_intror Hh)) as (it' & Hit). exists it'. right. exact Hit.
    + destruct Hh as [ <- | Hh].
      * exists it. left. reflexivity.
      * destruct (IH h Hh) as (it' & Hit). exists it'. right. exact Hit.
Qed.

Lemma kgroup_gsorted l : zsorted l -> gsorted (kgroup l).
Proof.
  induction l as [|[k it] r IH]; cbn [kgroup zsorted]; intros H; [exact I|].
  destruct H as [H1 H2]. specialize (IH H2).
  pose proof (kgroup_keys r) as Hkeys.
  destruct (kgroup r) as [|[k' g] gs].
  - cbn. split; [intros ? []|exact I].
  - destruct IH as [I1 I2].
    destruct (Hkeys (k', g) (or_introl eq_refl)) as (it' & Hit'). cbn [fst] in Hit'.
    specialize (H1 _ Hit'). cbn [fst] in H1.
    destruct (Z.eqb_spec k k') as [->|Hk]; cbn [gsorted fst].
    + split; auto.
    + split; [|split; auto].
      intros h [ <- | Hh]; cbn [fst]; [lia|]. specialize (I1 h Hh). cbn [fst] in I1. lia.
Qed.

Lemma kgroup_P (P : Z * item -> Prop) l :
  Forall P l -> Forall (fun kg => Forall (fun it => P (fst kg, it)) (snd kg)) (kgroup l).
Proof.
  induction l as [|[k it] r IH]; cbn [kgroup]; intros H; [constructor|].
  inversion H as [|? ? H1 H2]; subst. specialize (IH H2).
  destruct (kgroup r) as [|[k' g] gs].
  - constructor; [|constructor]. cbn. constructor; auto.
  - inversion IH as [|? ? G1 G2]; subst.
    destruct (Z.eqb_spec k k') as [->|Hk].
    + constructor; auto. cbn [fst snd] in *. constructor; auto.
    + constructor; [|constructor; auto]. cbn. constructor; auto.
Qed.

(* ---------- the canonical order ---------- *)
Definition R (x y : item) : Prop := elem_ltb E (fst x) (fst y) = true.

Definition good (it : item) : Prop :=
  base_elem_item E it && nonzero_exp it = true.

Lemma FOP_sorted_from x l :
  Forall (R x) l -> ForallOrdPairs R l -> sorted_from E (fst x) l = true.
Proof.
  revert x. induction l as [|y r IH]; intros x H1 H2; cbn [sorted_from]; [reflexivity|].
  inversion H1 as [|? ? A1 A2]; subst. inversion H2 as [|? ? B1 B2]; subst.
  rewrite A1. cbn [andb]. apply IH; auto.
Qed.

Lemma FOP_sorted_elems l : ForallOrdPairs R l -> sorted_elems E l = true.
Proof.
  destruct l as [|x r]; cbn [sorted_elems]; [reflexivity|].
  intros H. inversion H; subst. apply FOP_sorted_from; auto.
Qed.

(* the items that leave one positive group in normalisation *)
Lemma group_out k g :
  0 < k ->
  Forall (fun it => k = nsk E (fst it) /\ (is_num (fst it) = true \/ base_elem_item E it = true)) g ->
  let out := nsort E (filter nonzero_exp (snd (scan_group E g))) in
  ForallOrdPairs R out /\
  Forall (fun it => good it /\ nsk E (fst it) = k) out.
Proof.
  intros Hk Hg out.
  destruct (scan_group_inv g) as [S1 S2].
  set (acc := snd (scan_group E g)) in *.
  (* every element of acc is a base element with key k *)
  assert (Hel : forall x, In x (map fst acc) ->
                 exists a, x = El a /\ Zpos (e_key (E a)) = k /\ e_base (E a) = true).
  { intros x Hx. apply S2 in Hx. apply in_map_iff in Hx as (it & <- & Hit).
    rewrite Forall_forall in Hg. destruct (Hg it Hit) as [K1 K2].
    destruct it as [[q|a] e]; cbn [fst] in *.
    - cbn in K1. lia.
    - exists a. split; auto. split; [cbn in K1; lia|].
      destruct K2 as [K2|K2]; [discriminate | exact K2]. }
  assert (Hnd : NoDup (map nm acc)).
  { replace (map nm acc) with (map (elem_name E) (map fst acc)) by (rewrite map_map; reflexivity).
    apply (unrelated_names k); auto.
    intros x Hx. destruct (Hel x Hx) as (a & ? & ? & ?). eauto. }
  assert (Hnd' : NoDup (map nm out)).
  { unfold out. eapply Permutation_NoDup.
    - apply Permutation_map. symmetry. apply nsort_perm.
    - apply NoDup_map_filter. exact Hnd. }
  assert (Hin : forall it, In it out -> In it acc /\ nonzero_exp it = true).
  { intros it Hit. unfold out in Hit.
    apply (Permutation_in _ (nsort_perm E _)) in Hit. apply filter_In in Hit. exact Hit. }
  assert (Hgood : Forall (fun it => good it /\ nsk E (fst it) = k) out).
  { apply Forall_forall. intros it Hit. destruct (Hin it Hit) as [H1 H2].
    destruct (Hel (fst it) (in_map fst _ _ H1)) as (a & Ha & Ka & Ba).
    unfold good, base_elem_item. rewrite Ha, Ba, H2. cbn. auto. }
  split; auto.
  pose proof (sorted_strict out (nsort_sorted _) Hnd') as Hst.
  clear - Hst Hgood.
  induction Hst as [|x r Hx Hr IH]; [constructor|].
  inversion Hgood as [|? ? G1 G2]; subst. constructor; auto.
  rewrite Forall_forall in *. intros y Hy. specialize (Hx y Hy).
  destruct G1 as [_ Kx]. destruct (G2 y Hy) as [_ Ky].
  unfold R, elem_ltb. rewrite Kx, Ky, Z.eqb_refl. unfold NLt in Hx.
  cbn [andb]. rewrite Hx. apply orb_true_r.
Qed.

(* the fold over the groups, keep_item_order = False *)
Definition group_good (l : list item) (kg : Z * list item) : Prop :=
  Forall (fun it => fst kg = nsk E (fst it) /\
                    (is_num (fst it) = true \/ base_elem_item E it = true)) (snd kg).

Lemma group_fold_shape gs : forall st,
  Forall (group_good []) gs -> gsorted gs ->
  ForallOrdPairs R (snd st) ->
  Forall good (snd st) ->
  (forall x kg, In x (snd st) -> In kg gs -> nsk E (fst x) < fst kg) ->
  let st' := fold_left (group_step E false) gs st in
  ForallOrdPairs R (snd st') /\ Forall good (snd st').
Proof.
  induction gs as [|kg gs IH]; intros st Hg Hs H1 H2 H3; cbn [fold_left]; [auto|].
  inversion Hg as [|? ? G1 G2]; subst. destruct Hs as [S1 S2].
  apply IH; auto.
  - unfold group_step. destruct (Z.ltb_spec 0 (fst kg)) as [Hk|Hk]; cbn [snd]; auto.
    destruct (group_out (fst kg) (snd kg) Hk G1) as [O1 O2].
    apply FOP_app; auto.
    intros x y Hx Hy. rewrite Forall_forall in O2. destruct (O2 y Hy) as [_ Ky].
    specialize (H3 x kg Hx (or_introl eq_refl)).
    unfold R, elem_ltb. rewrite Ky.
    replace (nsk E (fst x) <? fst kg) with true by (symmetry; apply Z.ltb_lt; lia). reflexivity.
  - unfold group_step. destruct (Z.ltb_spec 0 (fst kg)) as [Hk|Hk]; cbn [snd]; auto.
    destruct (group_out (fst kg) (snd kg) Hk G1) as [O1 O2].
    apply Forall_app. split; auto. eapply Forall_impl; [|exact O2]. cbn. tauto.
  - intros x kg' Hx Hkg'. specialize (S1 kg' Hkg').
    unfold group_step in Hx. destruct (Z.ltb_spec 0 (fst kg)) as [Hk|Hk]; cbn [snd] in Hx.
    + apply in_app_or in Hx as [Hx|Hx].
      * specialize (H3 x kg Hx (or_introl eq_refl)). lia.
      * destruct (group_out (fst kg) (snd kg) Hk G1) as [O1 O2].
        rewrite Forall_forall in O2. destruct (O2 x Hx) as [_ Kx]. lia.
    + specialize (H3 x kg Hx (or_introl eq_refl)). lia.
Qed.

Lemma good_canon_elems l :
  ForallOrdPairs R l -> Forall good l -> canon_elems E l = true.
Proof.
  intros H1 H2. unfold canon_elems. rewrite (FOP_sorted_elems l H1), andb_true_r.
  apply forallb_forall. rewrite Forall_forall in H2. exact H2.
Qed.

Lemma good_num1 l : Forall good l -> fst (sem l) == 1.
Proof.
  induction 1 as [|[x e] l Hx Hl IH]; [reflexivity|].
  rewrite sem_cons. cbn [gmul fst]. rewrite IH.
  unfold good, base_elem_item in Hx. cbn [fst] in Hx.
  destruct x as [q|a]; [discriminate|].
  apply andb_prop in Hx as [Hb _].
  destruct (semE_base E HS a Hb) as [B1 _]. cbn [gbase fst] in B1.
  cbn [C07Sem.sem_item fst snd gpow]. rewrite B1. rewrite Qpower_1. reflexivity.
Qed.

(* all elements of the expanded term are base elements *)
Definition nb_item (it : item) : Prop :=
  is_num (fst it) = true \/ base_elem_item E it = true.

Lemma iter_normalized_nb t : Forall nb_item (iter_normalized E t).
Proof.
  unfold iter_normalized. induction t as [|[x e] t IH]; cbn [flat_map]; [constructor|].
  apply Forall_app. split; auto.
  unfold expand_item. cbn [fst snd]. destruct x as [q|a].
  - constructor; [left; reflexivity | constructor].
  - destruct (e_base (E a)) eqn:Hb.
    + constructor; [|constructor]. right. unfold base_elem_item. cbn. exact Hb.
    + pose proof (canonical_items_ok E _ (es_canon E HS a)) as Hc.
      rewrite forallb_forall in Hc. apply Forall_forall. intros it Hit.
      apply in_map_iff in Hit as (b & <- & Hb'). specialize (Hc b Hb').
      unfold nf_item_ok in Hc. apply orb_prop in Hc.
      unfold nb_item, base_elem_item in *. cbn [fst]. exact Hc.
Qed.

Theorem general_canonical l :
  Forall nb_item l -> items_ok l = true ->
  canonical E (general E false l) = true.
Proof.
  intros Hnb Hok.
  pose proof (general_sem E HS false l) as Hsem.
  unfold general in *.
  set (groups := kgroup (ksort (assign_keys E false l))) in *.
  set (st := fold_left (group_step E false) groups (1%Q, [])) in *.
  assert (Hgroups : Forall (group_good []) groups).
  { unfold groups, group_good.
    apply (kgroup_P (fun x => fst x = nsk E (fst (snd x)) /\ nb_item (snd x))).
    eapply Permutation_Forall; [symmetry; apply ksort_perm|].
    unfold assign_keys, sort_keys. apply Forall_map. cbn [fst snd].
    eapply Forall_impl; [|exact Hnb]. cbn. auto. }
  destruct (group_fold_shape groups (1%Q, []) Hgroups) as [F1 F2].
  { unfold groups. apply kgroup_gsorted. apply ksort_zsorted. }
  { constructor. }
  { constructor. }
  { intros x kg []. }
  fold st in F1, F2.
  pose proof (good_canon_elems _ F1 F2) as Hc.
  destruct (Qeq_bool (fst st) 1) eqn:H1; cbn [negb].
  - destruct (snd st) as [|[[q|a] e] r] eqn:Hr; cbn [canonical]; auto.
    inversion F2 as [|? ? G1 G2]; subst. unfold good, base_elem_item in G1. discriminate.
  - cbn [canonical]. rewrite Z.eqb_refl, H1, Hc. cbn [negb andb]. rewrite andb_true_r.
    apply negb_true_iff. apply not_true_is_false. intros H0. apply Qeq_bool_iff in H0.
    (* the numeric factor is the numeric part of the denotation, which is not 0 *)
    cbn [negb] in Hsem. destruct Hsem as [Hq _].
    rewrite sem_cons in Hq. cbn [gmul fst C07Sem.sem_item snd gnum] in Hq.
    assert (Hz : fst (sem l) == 0).
    { rewrite <- Hq. rewrite H0. cbn. ring. }
    revert Hz. clear - Hok HS.
    induction l as [|[x e] l IH]; cbn [items_ok forallb] in *; intros Hz.
    + discriminate.
    + apply andb_prop in Hok as [K1 K2]. rewrite sem_cons in Hz. cbn [gmul fst] in Hz.
      apply Qmult_integral in Hz as [Hz|Hz]; [|apply IH; auto].
      destruct x as [q|a].
      * cbn in Hz, K1. unfold item_ok in K1. cbn in K1.
        apply (Qpower_nz q e); auto. intros Hq. apply Qeq_bool_iff in Hq.
        rewrite Hq in K1. discriminate.
      * cbn [C07Sem.sem_item fst snd gpow] in Hz. apply (Qpower_nz _ e (semE_nz E HS a)). exact Hz.
Qed.

End Shape.
