(* Proofs/C10Proofs.v — applying an exchange rate on the directory model:
   money, and money-per-quantity values (compound units). *)
From Coq Require Import ZArith QArith Qabs List Bool Lia Lqa Qpower.
From QV Require Import Model.Num Model.Rounding Model.Quantity Model.Dim Model.Registry
     Model.Rates Model.RegRates Proofs.QuantityProofs Proofs.DimProofs Proofs.RegistryProofs
     Proofs.DirectoryProofs Proofs.C02Proofs.
Open Scope Z_scope.

(* the value the result unit must have: the input unit's definition with the
   rate's source currency divided out and its target currency multiplied in *)
Definition replaced (u from to : runit) : nform :=
  nf_mul (ru_nf u) (nf_mul (ru_nf to) (nf_inv (ru_nf from))).

Section Apply.
Variables (s : state) (dm : mode) (mul : bool) (a : Q) (uid : N) (r : rate).
Variables (u cu ct : runit).
Hypothesis Fu : find_unit s uid = Some u.
Hypothesis Fcu : find_unit s (r_unit r) = Some cu.
Hypothesis Fct : find_unit s (r_term r) = Some ct.
Let from := if mul then cu else ct.
Let to := if mul then ct else cu.
Let k := if mul then rate_of r else inverse_rate r.

(* money: matching currency -> the other currency, amount * rate rounded once;
   otherwise ValueError *)
Theorem apply_rate_money :
  is_money s u = true ->
  apply_rate s dm mul a uid r =
    if N.eqb (ru_id u) (ru_id from)
    then Ok (MQty (mk_qty dm (qmul a k) (view s to)))
    else Err EValueError.
Proof.
  intros M. unfold apply_rate. rewrite Fu, Fcu, Fct, M. unfold from, to, k.
  destruct mul; reflexivity.
Qed.

(* compound units: resolution of the replaced definition *)
Theorem apply_rate_compound_sound res0 :
  TM_ok s -> is_money s u = false ->
  apply_rate s dm mul a uid r = Ok res0 ->
  exists fw, resolve s (replaced u from to) = Some fw /\
             val_ok s (replaced u from to) fw /\
             construct_in s dm (ru_cls u) (qmul (fst fw) (qmul k a)) (snd fw) = Ok res0.
Proof.
  intros TM M. unfold apply_rate. rewrite Fu, Fcu, Fct, M.
  fold from to k. change (nf_mul (ru_nf u) (nf_mul (ru_nf to) (nf_inv (ru_nf from))))
    with (replaced u from to).
  destruct (resolve s (replaced u from to)) as [fw|] eqn:R; [|discriminate].
  intros H. exists fw. split; [reflexivity|]. split; [apply resolve_sound; assumption | exact H].
Qed.

(* QuantityError exactly when no unit is declared for the replaced definition
   (target compound unit missing, the price's currency does not match the rate,
   no money involved), or the resolved unit belongs to another type *)
Theorem apply_rate_compound_undeclared :
  is_money s u = false -> resolve s (replaced u from to) = None ->
  apply_rate s dm mul a uid r = Err EQuantityError.
Proof.
  intros M R. unfold apply_rate. rewrite Fu, Fcu, Fct, M. fold from to.
  change (nf_mul (ru_nf u) (nf_mul (ru_nf to) (nf_inv (ru_nf from)))) with (replaced u from to).
  rewrite R. reflexivity.
Qed.

Theorem apply_rate_compound_errors e :
  is_money s u = false -> apply_rate s dm mul a uid r = Err e ->
  e = EQuantityError \/ e = EOther.
Proof.
  intros M. unfold apply_rate. rewrite Fu, Fcu, Fct, M.
  destruct (resolve s _) as [[f [w|]]|]; cbn [fst snd construct_in].
  - destruct (find_unit s w) as [wu|]; [|intros H; injection H as <-; auto].
    destruct (N.eqb (ru_cls wu) (ru_cls u)); [discriminate | intros H; injection H as <-; auto].
  - destruct (find_cls s (ru_cls u)) as [c|]; [|intros H; injection H as <-; auto].
    destruct (rc_ref c) as [rr|]; [|intros H; injection H as <-; auto].
    destruct (find_unit s rr); [discriminate | intros H; injection H as <-; auto].
  - intros H; injection H as <-; auto.
Qed.
End Apply.

(* the constructed result: in the input's own type, one rounding *)
Theorem construct_in_qty s dm cid amt w res0 :
  construct_in s dm cid amt (Some w) = Ok res0 ->
  exists wu, find_unit s w = Some wu /\ ru_cls wu = cid /\
             res0 = MQty (mk_qty dm amt (view s wu)).
Proof.
  unfold construct_in. destruct (find_unit s w) as [wu|]; [|discriminate].
  destruct (N.eqb (ru_cls wu) cid) eqn:E; [|discriminate].
  intros H. injection H as <-. exists wu. apply N.eqb_eq in E. auto.
Qed.

(* when the currency occurs in the unit with exponent one, "replaced" is the
   same definition with that currency exchanged: its exponent moves to the
   target currency and everything else is untouched *)
Theorem replaced_exponents u from to i :
  nf_wf (ru_nf u) -> nf_wf (ru_nf from) -> nf_wf (ru_nf to) ->
  dv_get (nf_dim (replaced u from to)) i =
  dv_get (nf_dim (ru_nf u)) i + dv_get (nf_dim (ru_nf to)) i - dv_get (nf_dim (ru_nf from)) i.
Proof.
  intros [_ Wu] [_ Wf] [_ Wt]. unfold replaced. cbn [nf_mul nf_inv nf_dim].
  rewrite dv_mul_get; [|exact Wu | apply dv_mul_wf; [exact Wt | apply dv_inv_wf; exact Wf]].
  rewrite dv_mul_get; [|exact Wt | apply dv_inv_wf; exact Wf].
  rewrite dv_inv_get. lia.
Qed.
