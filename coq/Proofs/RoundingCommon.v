(* Proofs about rounding: the GENERATED _floordiv_rounded meets the declarative
   specification for all eight modes; the reference rounding meets it too; the
   specification determines the result uniquely; hence both agree. *)
From Coq Require Import ZArith List Bool Lia ZifyBool QArith.
From QV Require Import Model.Num Model.Rounding.
Ltac Zify.zify_post_hook ::= Z.to_euclidean_division_equations.
Open Scope Z_scope.

Lemma divmod_intro x y : 0 < y ->
  exists q r, x = q * y + r /\ 0 <= r < y /\ x / y = q /\ x mod y = r.
Proof.
  intros Hy. exists (x / y), (x mod y).
  pose proof (Z.div_mod x y). pose proof (Z.mod_pos_bound x y). lia.
Qed.

Lemma quot_of_floor x y q r : 0 < y -> x = q * y + r -> 0 < r < y ->
  Z.quot x y = if q <? 0 then q + 1 else q.
Proof.
  intros Hy Hx Hr.
  pose proof (Z.quot_rem' x y) as Hqr.
  pose proof (Z.rem_bound_pos_pos x y Hy) as Hpp.
  pose proof (Z.rem_bound_pos_neg x y Hy) as Hpn.
  destruct (q <? 0) eqn:Eq.
  - assert (x < 0) by nia. assert (- y < Z.rem x y <= 0) by lia.
    rewrite Hqr in Hx. nia.
  - assert (0 <= x) by nia. assert (0 <= Z.rem x y < y) by lia.
    rewrite Hqr in Hx. nia.
Qed.

