(* Proofs/C15Proofs.v — consequences of the directory invariants for every
   reachable directory: C15 (coherence), C16 (no trace), C17 (history). *)
From Coq Require Import ZArith QArith Qabs List Bool Lia Lqa Qpower.
From QV Require Import Model.Num Model.Rounding Model.Quantity Model.Dim Model.Registry
     Proofs.QuantityProofs Proofs.DimProofs Proofs.RegistryProofs Proofs.DirectoryProofs
     Proofs.C02Proofs.
Open Scope Z_scope.

(* ---------- unique symbols, identical object ---------- *)
Theorem symbol_identity dm s sym u :
  Reach dm s -> find_unit s sym = Some u ->
  ru_id u = sym /\ In u (st_units s) /\
  (forall v, In v (st_units s) -> ru_id v = sym -> v = u).
Proof.
  intros R F. destruct (Reach_inv dm s R) as (U & _).
  destruct (find_unit_In _ _ _ F) as [I E]. split; [exact E|]. split; [exact I|].
  intros v Hv Ev. pose proof (In_found s v U Hv) as Fv. rewrite Ev in Fv. congruence.
Qed.

(* a successful or rejected declaration never removes or changes a unit *)
Theorem units_persist dm s d sym u :
  Reach dm s -> guard dm s d = true -> find_unit s sym = Some u ->
  find_unit (fst (step dm s d)) sym = Some u.
Proof.
  intros R G F. destruct (step dm s d) as [s' e] eqn:S.
  destruct (step_ok dm s d s' e (Reach_inv dm s R) G S) as (_ & E & _).
  exact (ext_units _ _ E _ _ F).
Qed.

(* ---------- listed by exactly the type it was created for ---------- *)
Lemma in_units_of l cid id :
  In id (units_of l cid) <-> exists u, In u l /\ ru_id u = id /\ ru_cls u = cid.
Proof.
  unfold units_of. rewrite in_map_iff. split.
  - intros (u & E & H). apply filter_In in H. destruct H as [H1 H2].
    exists u. repeat split; auto. apply N.eqb_eq. exact H2.
  - intros (u & H1 & E & C). exists u. split; [exact E|]. apply filter_In. split; [exact H1|].
    apply N.eqb_eq. exact C.
Qed.

Theorem listed_by_own_class dm s c id :
  Reach dm s -> In c (st_classes s) ->
  (In id (rc_units c) <-> exists u, find_unit s id = Some u /\ ru_cls u = rc_id c).
Proof.
  intros R Hc. destruct (Reach_inv dm s R) as (U & CI & _).
  rewrite (ci_units s CI c Hc), in_units_of. split.
  - intros (u & Hu & E & C). exists u. split; [|exact C]. rewrite <- E. apply In_found; assumption.
  - intros (u & F & C). destruct (find_unit_In _ _ _ F) as [I E]. exists u. auto.
Qed.

Theorem unit_has_registered_class dm s u :
  Reach dm s -> In u (st_units s) ->
  exists c, find_cls s (ru_cls u) = Some c /\ In (ru_id u) (rc_units c) /\ rc_id c = ru_cls u.
Proof.
  intros R Hu. destruct (Reach_inv dm s R) as (U & CI & _).
  destruct (find_cls s (ru_cls u)) as [c|] eqn:F; [|exfalso; exact (ci_unit_cls s CI u Hu F)].
  destruct (find_cls_in_sound _ _ _ F) as [Ic Idc]. exists c. split; [reflexivity|]. split; [|exact Idc].
  rewrite (ci_units s CI c Ic). apply in_units_of. exists u. auto.
Qed.

(* one type per dimension *)
Theorem one_class_per_dimension dm s c1 c2 :
  Reach dm s -> In c1 (st_classes s) -> In c2 (st_classes s) -> rc_dim c1 = rc_dim c2 -> c1 = c2.
Proof. intros R. destruct (Reach_inv dm s R) as (_ & CI & _). apply (ci_dim_one s CI). Qed.

(* the factory dispatches to the unit's type *)
Theorem factory_dispatch s dm a u : u_cls (q_unit (mk_qty dm a (view s u))) = ru_cls u.
Proof. rewrite mk_qty_unit. reflexivity. Qed.

(* ---------- a unit's scale is what its definition denotes ---------- *)
Theorem scale_denotes_definition dm s u e c r ru :
  Reach dm s -> In u (st_units s) -> ru_equiv u = Some e ->
  find_cls s (ru_cls u) = Some c -> rc_ref c = Some r -> find_unit s r = Some ru ->
  nf_eq (ru_nf u) (nf_scale e (ru_nf ru)) /\ nf_num (ru_nf ru) == 1.
Proof.
  intros R Hu Eu Fc Rc Fr. destruct (Reach_inv dm s R) as (U & CI & _).
  destruct (find_cls_in_sound _ _ _ Fc) as [Ic Idc].
  destruct (ci_ref s CI c r Ic Rc) as (ru' & Fr' & Cr & Er). rewrite Fr in Fr'. injection Fr' as <-.
  destruct (find_unit_In _ _ _ Fr) as [Iru _].
  pose proof (ui_equiv s U ru 1%Q Iru Er) as N1.
  pose proof (ui_equiv s U u e Hu Eu) as Ne.
  assert (D : nf_dim (ru_nf u) = nf_dim (ru_nf ru)).
  { apply (ui_uniform s U); try assumption; congruence. }
  split; [|symmetry; exact N1]. split; cbn [nf_scale nf_num nf_dim]; [|exact D].
  rewrite qmul_eq, <- N1, <- Ne. ring.
Qed.

(* the reference unit of a derived type is the product of the reference
   units of the types of its definition *)
Theorem ref_unit_of_derived dm s id c r ru :
  Reach dm s -> find_cls s id = Some c -> rc_base c = false -> rc_ref c = Some r ->
  find_unit s r = Some ru ->
  exists x, ref_units_nf s (rc_def c) = Some x /\ nf_dim (ru_nf ru) = nf_dim x /\
            nf_num (ru_nf ru) == 1.
Proof.
  intros R Fc Bc Rc Fr. destruct (Reach_inv dm s R) as (U & CI & RI & _).
  destruct (RI id c r ru Fc Bc Rc Fr) as (x & X & D). exists x. split; [exact X|]. split; [exact D|].
  destruct (find_cls_in_sound _ _ _ Fc) as [Ic _].
  destruct (ci_ref s CI c r Ic Rc) as (ru' & Fr' & _ & Er). rewrite Fr in Fr'. injection Fr' as <-.
  symmetry. apply (ui_equiv s U ru 1%Q); [apply (find_unit_In _ _ _ Fr) | exact Er].
Qed.

(* ---------- what is rejected ---------- *)
Theorem dup_or_empty_symbol_rejected s c sym def sf :
  (sym = 0%N -> make_unit s c sym def sf = Err EAssertion) /\
  (sym <> 0%N -> find_unit s sym <> None -> make_unit s c sym def sf = Err EValueError).
Proof.
  unfold make_unit. split.
  - intros ->. reflexivity.
  - intros Nz F. apply N.eqb_neq in Nz. rewrite Nz. destruct (find_unit s sym); [reflexivity | congruence].
Qed.

Theorem new_unit_empty_symbol_rejected s dm cid d c :
  find_cls s cid = Some c -> new_unit s dm cid 0 d = Err EValueError.
Proof. unfold new_unit. intros ->. reflexivity. Qed.

Theorem wrong_dimension_rejected s dm cid sym t c x f w wu :
  find_cls s cid = Some c -> sym <> 0%N -> term_nf s t = Some x ->
  resolve s x = Some (f, Some w) -> find_unit s w = Some wu -> ru_cls wu <> cid ->
  new_unit s dm cid sym (DTerm t) = Err EValueError.
Proof.
  intros Fc Nz Tx Rx Fw Nc. unfold new_unit. rewrite Fc. apply N.eqb_neq in Nz. rewrite Nz, Tx, Rx, Fw.
  apply N.eqb_neq in Nc. rewrite Nc. reflexivity.
Qed.

Theorem undefined_or_dimensionless_term_rejected s dm cid sym t c x :
  find_cls s cid = Some c -> sym <> 0%N -> term_nf s t = Some x ->
  (resolve s x = None \/ exists f, resolve s x = Some (f, None)) ->
  new_unit s dm cid sym (DTerm t) = Err EValueError.
Proof.
  intros Fc Nz Tx Rx. unfold new_unit. rewrite Fc. apply N.eqb_neq in Nz. rewrite Nz, Tx.
  destruct Rx as [->|(f & ->)]; reflexivity.
Qed.

Theorem quantity_of_other_type_rejected s dm cid sym a uid c u :
  find_cls s cid = Some c -> sym <> 0%N -> find_unit s uid = Some u -> ru_cls u <> cid ->
  new_unit s dm cid sym (DQty a uid) = Err ETypeError.
Proof.
  intros Fc Nz Fu Nc. unfold new_unit. rewrite Fc. apply N.eqb_neq in Nz. rewrite Nz, Fu.
  apply N.eqb_neq in Nc. rewrite Nc. reflexivity.
Qed.

(* a second type for a dimension already taken: ValueError, nothing registered *)
Theorem dup_dimension_rejected s id t rs auto qu money d c :
  find_cls s id = None -> t <> [] -> cterm_dim s t = Some d -> d <> [] ->
  cls_by_dim s d = Some c ->
  decl_class s id (Some t) rs auto qu money = (s, Some EValueError)
  \/ (qu <> None /\ decl_class s id (Some t) rs auto qu money = (s, Some EAssertion)).
Proof.
  intros Fresh Nt Dd Nd Cd. unfold decl_class. rewrite Fresh.
  destruct t as [|ci t]; [congruence|]. rewrite Dd, Cd.
  destruct d as [|p d]; [congruence|].
  destruct qu; destruct (opt_nonempty rs); destruct (ref_units_nf s (ci :: t));
    try destruct (opt_nonempty (Some auto)); auto; right; split; auto; discriminate.
Qed.
