(* C03 (addition / subtraction never mix types, exact by value) and
   C04 (comparison agrees with exact reference values). *)
From Coq Require Import ZArith QArith Qabs List Bool Lia Lqa Qreduction.
From QV Require Import Model.Num Model.Rounding Gen.RoundingImpl Model.Quantity
     Proofs.RoundingQ Proofs.QuantityProofs Proofs.C13Proofs Proofs.C01Proofs.
Open Scope Q_scope.

(* reference value of a quantity *)
Definition refv (q : qty) : Q := q_amt q * scale (q_unit q).

Definition pos_scale (u : unit) : Prop := 0 < scale u.

Lemma bool_eq_iff (b1 b2 : bool) : (b1 = true <-> b2 = true) -> b1 = b2.
Proof. destruct b1, b2; intuition congruence. Qed.

Lemma cmp_q_scale op a b' b su sv : 0 < su -> b' * su == b * sv ->
  cmp_q op a b' = cmp_q op (a * su) (b * sv).
Proof.
  intros Hs E. destruct op; unfold cmp_q; apply bool_eq_iff;
    rewrite ?qltb_iff, ?qleb_iff; rewrite <- E; split; intros H; nra.
Qed.

Lemma cmp_q_same_scale op a b s : 0 < s -> cmp_q op a b = cmp_q op (a * s) (b * s).
Proof. intros Hs. apply cmp_q_scale; [exact Hs | reflexivity]. Qed.

(* ---------------- C04 ---------------------------------------------------- *)
Theorem cmp_ref ce op a u b v :
  lin u = true -> lin v = true -> same_cls u v = true -> id_ok u v ->
  pos_scale u -> pos_scale v ->
  qty_cmp ce op (mkQty a u) (mkQty b v) = Ok (cmp_q op (a * scale u) (b * scale v)).
Proof.
  intros Hu Hv Hc Hid Pu Pv.
  destruct (lin_scale u Hu) as (_ & _ & Nu), (lin_scale v Hv) as (_ & _ & Nv).
  unfold qty_cmp. cbn [q_unit q_amt]. rewrite Hc.
  destruct (same_unit u v) eqn:Es.
  - specialize (Hid Es). subst v. f_equal. apply cmp_q_same_scale. exact Pu.
  - assert (Hc' : same_cls v u = true) by (rewrite same_cls_sym; exact Hc).
    destruct (equiv_amount_lin ce b v u Hv Hu Hc') as (b' & He & Hb').
    rewrite He. cbn [bind]. f_equal. apply cmp_q_scale; [exact Pu|].
    rewrite Hb'. field. exact Nu.
Qed.

Theorem eq_ref ce a u b v :
  lin u = true -> lin v = true -> same_cls u v = true -> id_ok u v ->
  qty_eq ce (mkQty a u) (mkQty b v) = Ok (qeqb (a * scale u) (b * scale v)).
Proof. exact (qty_eq_lin ce a u b v). Qed.

(* consequences on reference values: a total order *)
Lemma cmp_q_trichotomy x y :
  (qltb x y = true /\ qeqb x y = false /\ qltb y x = false) \/
  (qltb x y = false /\ qeqb x y = true /\ qltb y x = false) \/
  (qltb x y = false /\ qeqb x y = false /\ qltb y x = true).
Proof.
  destruct (Q_dec x y) as [[L|G]|E].
  - left. repeat split; [apply qltb_iff; exact L | apply qeqb_false; intros E; rewrite E in L; exact (Qlt_irrefl _ L) |].
    destruct (qltb y x) eqn:X; [|reflexivity]. apply qltb_iff in X. exfalso. exact (Qlt_irrefl _ (Qlt_trans _ _ _ L X)).
  - right. right. repeat split; [| apply qeqb_false; intros E; rewrite E in G; exact (Qlt_irrefl _ G) | apply qltb_iff; exact G].
    destruct (qltb x y) eqn:X; [|reflexivity]. apply qltb_iff in X. exfalso. exact (Qlt_irrefl _ (Qlt_trans _ _ _ G X)).
  - right. left. repeat split; [| apply qeqb_iff; exact E |].
    + destruct (qltb x y) eqn:X; [|reflexivity]. apply qltb_iff in X. rewrite E in X. exfalso. exact (Qlt_irrefl _ X).
    + destruct (qltb y x) eqn:X; [|reflexivity]. apply qltb_iff in X. rewrite E in X. exfalso. exact (Qlt_irrefl _ X).
Qed.

Lemma cmp_q_le_trans x y z : qleb x y = true -> qleb y z = true -> qleb x z = true.
Proof. rewrite !qleb_iff. apply Qle_trans. Qed.
Lemma cmp_q_lt_trans x y z : qltb x y = true -> qltb y z = true -> qltb x z = true.
Proof. rewrite !qltb_iff. apply Qlt_trans. Qed.
Lemma cmp_q_le_total x y : qleb x y = true \/ qleb y x = true.
Proof. rewrite !qleb_iff. destruct (Qlt_le_dec x y) as [H|H]; [left; apply Qlt_le_weak; exact H | right; exact H]. Qed.
Lemma cmp_q_le_iff_lt_or_eq x y : qleb x y = orb (qltb x y) (qeqb x y).
Proof.
  apply bool_eq_iff. rewrite orb_true_iff, qleb_iff, qltb_iff, qeqb_iff.
  split; [intros H; destruct (Qle_lt_or_eq _ _ H); auto | intros [H|H]; [apply Qlt_le_weak; exact H | rewrite H; apply Qle_refl]].
Qed.
Lemma cmp_q_ge_is_le_swapped x y : cmp_q CGe x y = cmp_q CLe y x.
Proof. reflexivity. Qed.
Lemma cmp_q_gt_is_lt_swapped x y : cmp_q CGt x y = cmp_q CLt y x.
Proof. reflexivity. Qed.
Lemma qeqb_refl x : qeqb x x = true. Proof. apply qeqb_iff. reflexivity. Qed.
Lemma qeqb_sym x y : qeqb x y = qeqb y x.
Proof. apply bool_eq_iff. rewrite !qeqb_iff. split; intros H; symmetry; exact H. Qed.
Lemma qeqb_trans x y z : qeqb x y = true -> qeqb y z = true -> qeqb x z = true.
Proof. rewrite !qeqb_iff. intros A B. rewrite A. exact B. Qed.

(* units of one type compare by their scale *)
Theorem unit_cmp_scale op u v :
  lin u = true -> lin v = true -> same_cls u v = true -> pos_scale v ->
  unit_cmp op u v = Ok (cmp_q op (scale u) (scale v)).
Proof.
  intros Hu Hv Hc Pv.
  destruct (lin_scale u Hu) as (Ru & Su & Nu), (lin_scale v Hv) as (Rv & Sv & Nv).
  unfold unit_cmp, get_factor. rewrite Hc, Ru, Su, Sv. f_equal.
  rewrite (cmp_q_scale op (qdiv (scale u) (scale v)) 1 1 (scale v) (scale v) Pv ltac:(reflexivity)).
  assert (E : qdiv (scale u) (scale v) * scale v == scale u) by (rewrite qdiv_ok; field; exact Nv).
  destruct op; unfold cmp_q; apply bool_eq_iff; rewrite ?qltb_iff, ?qleb_iff; rewrite E; split; intros H; nra.
Qed.

Theorem unit_eq_scale u v :
  lin u = true -> lin v = true -> same_cls u v = true ->
  unit_eq u v = Ok (qeqb (scale u) (scale v)).
Proof.
  intros Hu Hv Hc.
  destruct (lin_scale u Hu) as (Ru & Su & Nu), (lin_scale v Hv) as (Rv & Sv & Nv).
  unfold unit_eq. rewrite Hc, Su, Sv. reflexivity.
Qed.

(* ---------------- C03 ---------------------------------------------------- *)
Theorem addsub_other_type sub ce dm p q :
  same_cls (q_unit p) (q_unit q) = false ->
  qty_addsub sub ce dm p q = Err EIncompatibleUnits.
Proof. intros H. unfold qty_addsub. rewrite H. reflexivity. Qed.

Theorem cmp_other_type ce op p q :
  same_cls (q_unit p) (q_unit q) = false ->
  qty_cmp ce op p q = Err EIncompatibleUnits.
Proof. intros H. unfold qty_cmp. rewrite H. reflexivity. Qed.

Theorem eq_other_type ce p q :
  same_cls (q_unit p) (q_unit q) = false -> qty_eq ce p q = Ok false.
Proof. intros H. unfold qty_eq. rewrite H. reflexivity. Qed.

Theorem addsub_number sub ce dm x y :
  (exists k, x = OpNum k) \/ (exists k, y = OpNum k) ->
  op_addsub sub ce dm x y = Err ETypeError.
Proof. intros [[k ->]|[k ->]]; [destruct y | destruct x]; reflexivity. Qed.

Theorem cmp_number ce op x y :
  (exists k, x = OpNum k) \/ (exists k, y = OpNum k) ->
  op_cmp ce op x y = Err ETypeError.
Proof. intros [[k ->]|[k ->]]; [destruct y | destruct x]; reflexivity. Qed.

Theorem eq_number ce p k :
  op_eq ce (OpQty p) (OpNum k) = Ok false /\ op_eq ce (OpNum k) (OpQty p) = Ok false.
Proof. split; reflexivity. Qed.

Definition pm (sub : bool) (x y : Q) : Q := if sub then x - y else x + y.

Theorem addsub_lin sub ce dm a u b v :
  lin u = true -> lin v = true -> same_cls u v = true ->
  exists r, qty_addsub sub ce dm (mkQty a u) (mkQty b v) = Ok r /\ q_unit r = u /\
            q_amt r == mk_amt dm (pm sub a (b * (scale v / scale u))) u.
Proof.
  intros Hu Hv Hc.
  destruct (lin_scale u Hu) as (Ru & Su & Nu), (lin_scale v Hv) as (Rv & Sv & Nv).
  unfold qty_addsub. cbn [q_unit q_amt]. rewrite Hc.
  rewrite (unit_eq_scale u v Hu Hv Hc). cbn [bind].
  destruct (qeqb (scale u) (scale v)) eqn:E.
  - eexists. split; [reflexivity|]. split; [apply mk_qty_unit|].
    rewrite mk_qty_amt. apply mk_amt_compat. apply qeqb_iff in E.
    destruct sub; cbn [pm]; rewrite ?qsub_ok, ?qadd_ok; rewrite E; field; exact Nv.
  - assert (Hc' : same_cls v u = true) by (rewrite same_cls_sym; exact Hc).
    destruct (equiv_amount_lin ce b v u Hv Hu Hc') as (b' & He & Hb').
    rewrite He. cbn [bind]. eexists. split; [reflexivity|]. split; [apply mk_qty_unit|].
    rewrite mk_qty_amt. apply mk_amt_compat.
    destruct sub; cbn [pm]; rewrite ?qsub_ok, ?qadd_ok; rewrite Hb'; reflexivity.
Qed.

(* without quantum: reference value of the result = sum/difference *)
Theorem addsub_refv sub ce dm a u b v :
  lin u = true -> lin v = true -> same_cls u v = true -> u_quantum u = None ->
  exists r, qty_addsub sub ce dm (mkQty a u) (mkQty b v) = Ok r /\ q_unit r = u /\
            refv r == pm sub (refv (mkQty a u)) (refv (mkQty b v)).
Proof.
  intros Hu Hv Hc Qu.
  destruct (addsub_lin sub ce dm a u b v Hu Hv Hc) as (r & Hr & Hun & Ham).
  destruct (lin_scale u Hu) as (_ & _ & Nu).
  exists r. split; [exact Hr|]. split; [exact Hun|].
  unfold refv. rewrite Hun. cbn [q_amt q_unit]. unfold mk_amt in Ham. rewrite Qu in Ham.
  rewrite Ham. destruct sub; cbn [pm]; field; exact Nu.
Qed.

(* quantized types: on-grid operands on one absolute grid give an on-grid
   exact sum: no rounding happens *)
Theorem addsub_quantized_exact sub ce dm a u b v qu qv :
  lin u = true -> lin v = true -> same_cls u v = true ->
  u_quantum u = Some qu -> u_quantum v = Some qv -> ~ qu == 0 ->
  qu * scale u == qv * scale v ->
  on_grid a qu -> on_grid b qv ->
  exists r, qty_addsub sub ce dm (mkQty a u) (mkQty b v) = Ok r /\ q_unit r = u /\
            refv r == pm sub (refv (mkQty a u)) (refv (mkQty b v)) /\
            on_grid (q_amt r) qu.
Proof.
  intros Hu Hv Hc Qu Qv Nq Hgrid [k Hk] [l Hl].
  destruct (addsub_lin sub ce dm a u b v Hu Hv Hc) as (r & Hr & Hun & Ham).
  destruct (lin_scale u Hu) as (_ & _ & Nu), (lin_scale v Hv) as (_ & _ & Nv).
  exists r. split; [exact Hr|]. split; [exact Hun|].
  unfold mk_amt in Ham. rewrite Qu in Ham.
  assert (X : qv == qu * scale u / scale v) by (rewrite Hgrid; field; exact Nv).
  assert (G : on_grid (pm sub a (b * (scale v / scale u))) qu).
  { exists (if sub then k - l else k + l)%Z.
    destruct sub; cbn [pm]; rewrite Hk, Hl, X;
      [unfold Z.sub; rewrite inject_Z_plus, inject_Z_opp | rewrite inject_Z_plus]; field; split; assumption. }
  rewrite (round_to_quantum_on_grid dm _ qu Nq G) in Ham.
  split.
  - unfold refv. rewrite Hun. cbn [q_amt q_unit]. rewrite Ham.
    destruct sub; cbn [pm]; field; exact Nu.
  - destruct G as [k' Hk']. exists k'. rewrite Ham. exact Hk'.
Qed.

(* commutativity, associativity, inverse, distributivity: by value, from
   addsub_refv (unquantized) — arithmetic in Q on reference values *)
Theorem add_comm_value ce dm a u b v :
  lin u = true -> lin v = true -> same_cls u v = true ->
  u_quantum u = None -> u_quantum v = None ->
  exists r1 r2, qty_add ce dm (mkQty a u) (mkQty b v) = Ok r1 /\
                qty_add ce dm (mkQty b v) (mkQty a u) = Ok r2 /\
                q_unit r1 = u /\ q_unit r2 = v /\ refv r1 == refv r2.
Proof.
  intros Hu Hv Hc Qu Qv.
  assert (Hc' : same_cls v u = true) by (rewrite same_cls_sym; exact Hc).
  destruct (addsub_refv false ce dm a u b v Hu Hv Hc Qu) as (r1 & H1 & U1 & V1).
  destruct (addsub_refv false ce dm b v a u Hv Hu Hc' Qv) as (r2 & H2 & U2 & V2).
  exists r1, r2. repeat split; try assumption. rewrite V1, V2. cbn [pm]. ring.
Qed.

Theorem add_assoc_value ce dm a u b v c w :
  lin u = true -> lin v = true -> lin w = true ->
  same_cls u v = true -> same_cls v w = true ->
  u_quantum u = None -> u_quantum v = None ->
  exists s1 r1 s2 r2,
    qty_add ce dm (mkQty a u) (mkQty b v) = Ok s1 /\ qty_add ce dm s1 (mkQty c w) = Ok r1 /\
    qty_add ce dm (mkQty b v) (mkQty c w) = Ok s2 /\ qty_add ce dm (mkQty a u) s2 = Ok r2 /\
    q_unit r1 = u /\ q_unit r2 = u /\ refv r1 == refv r2.
Proof.
  intros Hu Hv Hw Cuv Cvw Qu Qv.
  assert (Cuw : same_cls u w = true).
  { unfold same_cls in *. apply N.eqb_eq in Cuv, Cvw. apply N.eqb_eq. congruence. }
  destruct (addsub_refv false ce dm a u b v Hu Hv Cuv Qu) as (s1 & H1 & U1 & V1).
  destruct s1 as [sa su]. cbn [q_unit] in U1. subst su.
  destruct (addsub_refv false ce dm sa u c w Hu Hw Cuw Qu) as (r1 & H1' & U1' & V1').
  destruct (addsub_refv false ce dm b v c w Hv Hw Cvw Qv) as (s2 & H2 & U2 & V2).
  destruct s2 as [sb sv]. cbn [q_unit] in U2. subst sv.
  destruct (addsub_refv false ce dm a u sb v Hu Hv Cuv Qu) as (r2 & H2' & U2' & V2').
  exists (mkQty sa u), r1, (mkQty sb v), r2. repeat split; try assumption.
  rewrite V1', V1, V2', V2. cbn [pm]. ring.
Qed.

Theorem neg_inverse ce dm a u :
  lin u = true -> u_quantum u = None ->
  exists r, qty_add ce dm (mkQty a u) (qty_neg dm (mkQty a u)) = Ok r /\
            q_unit r = u /\ q_amt r == 0.
Proof.
  intros Hu Qu. unfold qty_neg. cbn [q_amt q_unit].
  assert (Hn : mk_qty dm (qneg a) u = mkQty (Qred (qneg a)) u) by (unfold mk_qty; rewrite Qu; reflexivity).
  rewrite Hn.
  assert (Hc : same_cls u u = true) by (unfold same_cls; apply N.eqb_refl).
  destruct (addsub_lin false ce dm a u (Qred (qneg a)) u Hu Hu Hc) as (r & Hr & Hun & Ham).
  destruct (lin_scale u Hu) as (_ & _ & Nu).
  exists r. split; [exact Hr|]. split; [exact Hun|].
  unfold mk_amt in Ham. rewrite Qu in Ham. rewrite Ham. cbn [pm].
  rewrite Qred_correct. unfold qneg. field. exact Nu.
Qed.

Theorem mul_distributes ce dm k a u b v :
  lin u = true -> lin v = true -> same_cls u v = true ->
  u_quantum u = None -> u_quantum v = None ->
  exists s r,
    qty_add ce dm (mkQty a u) (mkQty b v) = Ok s /\
    qty_add ce dm (qty_mul_num dm (mkQty a u) k) (qty_mul_num dm (mkQty b v) k) = Ok r /\
    q_unit r = u /\ refv r == refv (qty_mul_num dm s k).
Proof.
  intros Hu Hv Hc Qu Qv.
  destruct (addsub_refv false ce dm a u b v Hu Hv Hc Qu) as (s & Hs & Us & Vs).
  unfold qty_mul_num. cbn [q_amt q_unit].
  assert (Ha : mk_qty dm (qmul a k) u = mkQty (Qred (qmul a k)) u) by (unfold mk_qty; rewrite Qu; reflexivity).
  assert (Hb : mk_qty dm (qmul b k) v = mkQty (Qred (qmul b k)) v) by (unfold mk_qty; rewrite Qv; reflexivity).
  rewrite Ha, Hb.
  destruct (addsub_refv false ce dm (Qred (qmul a k)) u (Qred (qmul b k)) v Hu Hv Hc Qu) as (r & Hr & Ur & Vr).
  exists s, r. split; [exact Hs|]. split; [exact Hr|]. split; [exact Ur|].
  rewrite Vr. cbn [pm]. unfold refv at 1 2. cbn [q_amt q_unit].
  rewrite !Qred_correct, !qmul_ok.
  unfold refv in *. rewrite mk_qty_unit, mk_qty_amt. unfold mk_amt. rewrite Us, Qu.
  rewrite qmul_ok. rewrite Us in Vs. cbn [q_amt q_unit pm] in Vs.
  transitivity ((q_amt s * scale u) * k); [rewrite Vs; ring | ring].
Qed.

(* sum(items) is the left fold of + *)
Theorem sum_is_fold ce dm p l :
  qty_sum_from ce dm p l =
  fold_left (fun acc x => bind acc (fun a => qty_add ce dm a x)) l (Ok p).
Proof.
  revert p. induction l as [|x l IH]; intros p; cbn [qty_sum_from fold_left]; [reflexivity|].
  cbn [bind]. destruct (qty_add ce dm p x) as [s|e]; cbn [bind].
  - apply IH.
  - clear. induction l as [|y l IH]; cbn [fold_left bind]; [reflexivity | exact IH].
Qed.
