(* C09: exchange rates — normal form, accuracy, rejection, inversion,
   triangulation.  All statements are about Model/Rates.v (shared, unchanged). *)
From Coq Require Import ZArith QArith Qabs List Bool Lia Lqa Qreduction Qpower.
From QV Require Import Model.Num Model.Rounding Gen.RoundingImpl Model.Quantity
     Model.Rates Proofs.RoundingQ Proofs.QuantityProofs Proofs.C13Proofs
     Proofs.C01Proofs Proofs.C05Proofs.
Open Scope Z_scope.

(* ------------------------------------------------------------------ digits *)
Lemma ndigits_aux_spec : forall fuel n, 1 <= n -> n < 2 ^ Z.of_nat fuel ->
  1 <= ndigits_aux fuel n /\
  10 ^ (ndigits_aux fuel n - 1) <= n < 10 ^ ndigits_aux fuel n.
Proof.
  induction fuel as [|f IH]; intros n H1 H2.
  - simpl in H2. lia.
  - cbn [ndigits_aux]. destruct (n <? 10) eqn:E.
    + apply Z.ltb_lt in E. simpl. lia.
    + apply Z.ltb_ge in E.
      rewrite Nat2Z.inj_succ, Z.pow_succ_r in H2 by lia.
      assert (A : 1 <= n / 10) by (apply Z.div_le_lower_bound; lia).
      assert (B : n / 10 < 2 ^ Z.of_nat f).
      { apply Z.div_lt_upper_bound; lia. }
      destruct (IH (n / 10) A B) as (D1 & D2 & D3).
      set (d := ndigits_aux f (n / 10)) in *.
      replace (1 + d - 1) with (Z.succ (d - 1)) by lia.
      replace (1 + d) with (Z.succ d) by lia.
      rewrite !Z.pow_succ_r by lia.
      pose proof (Z.mul_div_le n 10 ltac:(lia)) as M1.
      pose proof (Z.mul_succ_div_gt n 10 ltac:(lia)) as M2.
      lia.
Qed.

Lemma ndigits_spec n : 1 <= n ->
  1 <= ndigits n /\ 10 ^ (ndigits n - 1) <= n < 10 ^ ndigits n.
Proof.
  intros H. unfold ndigits. apply ndigits_aux_spec; [exact H|].
  rewrite Nat2Z.inj_succ, Z2Nat.id by apply Z.log2_nonneg.
  apply Z.log2_spec. lia.
Qed.

(* ------------------------------------------------------------ powers of ten *)
Open Scope Q_scope.

Lemma ten_nz : ~ (10 # 1) == 0. Proof. discriminate. Qed.

Lemma pow10_add a b : pow10 (a + b) == pow10 a * pow10 b.
Proof. rewrite !pow10_ok. apply Qpower_plus. exact ten_nz. Qed.

Lemma pow10_Z k : (0 <= k)%Z -> pow10 k == inject_Z (10 ^ k).
Proof.
  intros H. rewrite pow10_ok. rewrite Zpower_Qpower by exact H. reflexivity.
Qed.

Lemma pow10_ge1 k : (0 <= k)%Z -> 1 <= pow10 k.
Proof.
  intros H. rewrite (pow10_Z k H).
  assert (A : (1 <= 10 ^ k)%Z) by (pose proof (Z.pow_pos_nonneg 10 k); lia).
  rewrite Zle_Qle in A. exact A.
Qed.

Lemma pow10_pos k : 0 < pow10 k.
Proof.
  destruct (Z_le_gt_dec 0 k) as [H|H].
  - apply Qlt_le_trans with 1; [reflexivity | apply pow10_ge1; exact H].
  - assert (A : pow10 k * pow10 (- k) == 1).
    { rewrite <- pow10_add. replace (k + - k)%Z with 0%Z by lia. reflexivity. }
    assert (B : 1 <= pow10 (- k)) by (apply pow10_ge1; lia).
    set (x := pow10 k) in *. set (y := pow10 (- k)) in *. nra.
Qed.

Lemma pow10_le a b : (a <= b)%Z -> pow10 a <= pow10 b.
Proof.
  intros H. replace b with (a + (b - a))%Z by lia. rewrite pow10_add.
  pose proof (pow10_pos a) as A. pose proof (pow10_ge1 (b - a) ltac:(lia)) as B.
  set (x := pow10 a) in *. set (y := pow10 (b - a)) in *. nra.
Qed.

Lemma pow10_lt_inv a b : pow10 a < pow10 b -> (a < b)%Z.
Proof.
  intros H. destruct (Z_lt_le_dec a b) as [L|L]; [exact L|].
  apply pow10_le in L. exfalso. apply (Qlt_irrefl (pow10 a)).
  apply Qlt_le_trans with (pow10 b); assumption.
Qed.

Lemma pow10_0 : pow10 0 = 1. Proof. reflexivity. Qed.
Lemma pow10_m1 : pow10 (-1) = 1 # 10. Proof. reflexivity. Qed.
Lemma pow10_m6 : pow10 (-6) = 1 # 1000000. Proof. reflexivity. Qed.

(* ---------------------------------------------------------------- magnitude *)
Lemma Q_as_quotient q : q * inject_Z (Zpos (Qden q)) == inject_Z (Qnum q).
Proof. destruct q as [n d]. unfold Qeq, Qmult, inject_Z. cbn [Qnum Qden]. lia. Qed.

(* floor(log10 q): the model's [magnitude] is exact for every positive rational *)
Theorem magnitude_spec q : 0 < q ->
  pow10 (magnitude q) <= q /\ q < pow10 (magnitude q + 1).
Proof.
  intros Hq.
  assert (Hn : (1 <= Qnum q)%Z).
  { destruct q as [n d]. unfold Qlt in Hq. cbn [Qnum Qden] in *. lia. }
  destruct (ndigits_spec (Qnum q) Hn) as (A1 & A2 & A3).
  destruct (ndigits_spec (Zpos (Qden q)) ltac:(lia)) as (B1 & B2 & B3).
  pose proof (Q_as_quotient q) as E.
  unfold magnitude.
  set (a := ndigits (Qnum q)) in *. set (b := ndigits (Zpos (Qden q))) in *.
  set (N := inject_Z (Qnum q)) in *. set (D := inject_Z (Zpos (Qden q))) in *.
  assert (N1 : pow10 (a - 1) <= N) by (rewrite pow10_Z by lia; unfold N; rewrite <- Zle_Qle; exact A2).
  assert (N2 : N < pow10 a) by (rewrite pow10_Z by lia; unfold N; rewrite <- Zlt_Qlt; exact A3).
  assert (D1 : pow10 (b - 1) <= D) by (rewrite pow10_Z by lia; unfold D; rewrite <- Zle_Qle; exact B2).
  assert (D2 : D < pow10 b) by (rewrite pow10_Z by lia; unfold D; rewrite <- Zlt_Qlt; exact B3).
  assert (D0 : 0 < D) by (unfold D; rewrite <- (Zlt_Qlt 0); lia).
  (* 10^(c-1) < q < 10^(c+1) with c = a - b *)
  assert (L : pow10 (a - b - 1) <= q).
  { assert (X : pow10 (a - 1) == pow10 (a - b - 1) * pow10 b).
    { rewrite <- pow10_add. replace (a - b - 1 + b)%Z with (a - 1)%Z by lia. reflexivity. }
    pose proof (pow10_pos (a - b - 1)) as P.
    set (x := pow10 (a - 1)) in *. set (y := pow10 (a - b - 1)) in *. set (z := pow10 b) in *.
    nra. }
  assert (U : q < pow10 (a - b + 1)).
  { assert (X : pow10 a == pow10 (a - b + 1) * pow10 (b - 1)).
    { rewrite <- pow10_add. replace (a - b + 1 + (b - 1))%Z with a by lia. reflexivity. }
    pose proof (pow10_pos (a - b + 1)) as P.
    set (x := pow10 a) in *. set (y := pow10 (a - b + 1)) in *. set (z := pow10 (b - 1)) in *.
    nra. }
  destruct (qleb (pow10 (a - b)) q) eqn:C.
  - apply qleb_iff in C. split; assumption.
  - replace (a - b - 1 + 1)%Z with (a - b)%Z by lia. split; [exact L|].
    destruct (Qlt_le_dec q (pow10 (a - b))) as [G|G]; [exact G|].
    apply qleb_iff in G. congruence.
Qed.

(* the exponent is unique *)
Lemma magnitude_unique q k : pow10 k <= q -> q < pow10 (k + 1) -> magnitude q = k.
Proof.
  intros A B.
  assert (Hq : 0 < q) by (apply Qlt_le_trans with (pow10 k); [apply pow10_pos | exact A]).
  destruct (magnitude_spec q Hq) as (C & D).
  assert (X : (k < magnitude q + 1)%Z) by (apply pow10_lt_inv; apply Qle_lt_trans with q; assumption).
  assert (Y : (magnitude q < k + 1)%Z) by (apply pow10_lt_inv; apply Qle_lt_trans with q; assumption).
  lia.
Qed.

(* ------------------------------------------------------------ is_integral *)
Lemma is_integral_iff q : is_integral q = true <-> exists z, q == inject_Z z.
Proof.
  unfold is_integral. rewrite Pos.eqb_eq. split.
  - intros H. exists (Qnum (Qred q)). rewrite <- (Qred_correct q) at 1.
    destruct (Qred q) as [n d]. cbn [Qnum Qden] in *. subst d. reflexivity.
  - intros [z E]. rewrite (Qred_complete _ _ E).
    destruct (Qred_multiple (inject_Z z)) as (g & Hg & _ & Hd).
    cbn [inject_Z Qden] in Hd. nia.
Qed.

(* ------------------------------------------------ rounding to six decimals *)
Definition q6 : Q := 1 # 1000000.

Lemma round6_unfold dm x : round6 dm x = round_to_quantum dm x q6.
Proof. reflexivity. Qed.

Lemma round6_on_grid dm x : on_grid (round6 dm x) q6.
Proof. rewrite round6_unfold. apply round_to_quantum_is_on_grid. Qed.

Lemma round6_compat dm x y : x == y -> round6 dm x == round6 dm y.
Proof. intros E. rewrite !round6_unfold. apply round_to_quantum_compat; [exact E | reflexivity]. Qed.

Lemma round6_err_lt dm x : Qabs (round6 dm x - x) < q6.
Proof. rewrite round6_unfold. apply round_error_lt. reflexivity. Qed.

Lemma round6_err_half dm x : half_mode dm = true -> Qabs (round6 dm x - x) <= (1 # 2) * q6.
Proof. intros H. rewrite round6_unfold. apply round_error_half; [reflexivity | exact H]. Qed.

(* rounding cannot cross a grid point: 1/10 = 100000 * 10^-6 *)
Lemma round6_ge_tenth dm x : 1 # 10 <= x -> 1 # 10 <= round6 dm x.
Proof.
  intros H. rewrite round6_unfold.
  destruct (round_to_quantum_spec dm x q6) as (n & Hr & Hn).
  rewrite Hr. apply RoundsToQ_lt_one in Hn. apply Qabs_Qlt_condition in Hn.
  destruct Hn as [Hn _].
  assert (X : x / q6 == x * 1000000) by (unfold q6; field).
  rewrite X in Hn.
  assert (Y : inject_Z 99999 < inject_Z n).
  { change (inject_Z 99999) with (99999 # 1). lra. }
  rewrite <- Zlt_Qlt in Y.
  assert (Z : (100000 <= n)%Z) by lia.
  rewrite Zle_Qle in Z. change (inject_Z 100000) with (100000 # 1) in Z.
  unfold q6. lra.
Qed.

(* --------------------------------------------------------------- mk_rate *)
Lemma mk_rate_inv dm u m t a r : mk_rate dm u m t a = Ok r ->
  u <> t /\ is_integral m = true /\ 1 <= m /\ q6 <= a.
Proof.
  unfold mk_rate.
  destruct (N.eqb u t) eqn:E1; [discriminate|].
  destruct (is_integral m) eqn:E2; cbn [negb]; [|discriminate].
  destruct (qltb m 1) eqn:E3; [discriminate|].
  destruct (qltb a (pow10 (-6))) eqn:E4; [discriminate|].
  intros _. apply N.eqb_neq in E1.
  split; [exact E1|]. split; [reflexivity|].
  split.
  - apply Qnot_lt_le. intros C. apply qltb_iff in C. congruence.
  - apply Qnot_lt_le. intros C. apply qltb_iff in C. rewrite pow10_m6 in E4. unfold q6 in C. congruence.
Qed.

Lemma mk_rate_rejects dm u m t a :
  u = t \/ is_integral m = false \/ m < 1 \/ a < q6 ->
  mk_rate dm u m t a = Err EValueError.
Proof.
  intros H. destruct (mk_rate dm u m t a) as [r|e] eqn:E.
  - exfalso. apply mk_rate_inv in E. destruct E as (A & B & C & D).
    destruct H as [H|[H|[H|H]]].
    + contradiction.
    + congruence.
    + apply (Qlt_irrefl m). apply Qlt_le_trans with 1; assumption.
    + apply (Qlt_irrefl a). apply Qlt_le_trans with q6; assumption.
  - revert E. unfold mk_rate.
    destruct (N.eqb u t); [congruence|].
    destruct (negb (is_integral m)); [congruence|].
    destruct (qltb m 1); [congruence|].
    destruct (qltb a (pow10 (-6))); [congruence|]. discriminate.
Qed.

(* the one characterisation of a successful construction *)
Lemma mk_rate_ok dm u m t a :
  u <> t -> is_integral m = true -> 1 <= m -> q6 <= a ->
  exists k, (0 <= k)%Z /\ (magnitude m <= k)%Z /\
    mk_rate dm u m t a = Ok (mkRate u t (pow10 k) (round6 dm (qdiv (qmul a (pow10 k)) m))) /\
    1 # 10 <= a * pow10 k / m /\
    (k = magnitude m \/ a * pow10 k / m < 1).
Proof.
  intros H1 H2 H3 H4.
  assert (M0 : 0 < m) by (apply Qlt_le_trans with 1; [reflexivity | exact H3]).
  assert (A0 : 0 < a) by (apply Qlt_le_trans with q6; [reflexivity | exact H4]).
  destruct (magnitude_spec m M0) as (K1 & K2).
  set (km := magnitude m) in *.
  assert (Kpos : (0 <= km)%Z).
  { assert (X : (0 < km + 1)%Z); [|lia]. apply pow10_lt_inv. rewrite pow10_0.
    apply Qle_lt_trans with m; assumption. }
  set (adj := qdiv (qmul a (pow10 km)) m).
  assert (Eadj : adj == a * pow10 km / m) by (unfold adj; rewrite qdiv_ok, qmul_ok; reflexivity).
  pose proof (pow10_pos km) as Pkm.
  assert (Adj0 : 0 < adj).
  { rewrite Eadj. apply Qlt_shift_div_l; [exact M0|]. rewrite Qmult_0_l.
    set (x := pow10 km) in *. nra. }
  destruct (magnitude_spec adj Adj0) as (G1 & G2).
  set (mg := magnitude adj) in *.
  exists (km - Z.min 0 (mg + 1))%Z.
  split; [lia|]. split; [lia|]. split.
  { unfold mk_rate.
    apply N.eqb_neq in H1. rewrite H1, H2. cbn [negb].
    replace (qltb m 1) with false.
    2:{ symmetry. destruct (qltb m 1) eqn:C; [|reflexivity]. apply qltb_iff in C.
        exfalso. apply (Qlt_irrefl m). apply Qlt_le_trans with 1; assumption. }
    replace (qltb a (pow10 (-6))) with false.
    2:{ symmetry. destruct (qltb a (pow10 (-6))) eqn:C; [|reflexivity]. apply qltb_iff in C.
        rewrite pow10_m6 in C. exfalso. apply (Qlt_irrefl a). apply Qlt_le_trans with q6; assumption. }
    reflexivity. }
  assert (Ex : forall e, a * pow10 (km - e) / m == adj * pow10 (- e)).
  { intros e. rewrite Eadj. replace (km - e)%Z with (km + - e)%Z by lia. rewrite pow10_add.
    field. intros C. rewrite C in M0. exact (Qlt_irrefl _ M0). }
  destruct (Z_le_gt_dec 0 (mg + 1)) as [C|C].
  - rewrite Z.min_l by lia. rewrite Ex. change (pow10 (- 0)) with 1. rewrite Qmult_1_r.
    split; [|left; lia].
    apply Qle_trans with (pow10 mg); [|exact G1].
    rewrite <- pow10_m1. apply pow10_le. lia.
  - rewrite Z.min_r by lia. rewrite Ex.
    assert (X1 : pow10 mg * pow10 (- (mg + 1)) == 1 # 10).
    { rewrite <- pow10_add. replace (mg + - (mg + 1))%Z with (-1)%Z by lia. reflexivity. }
    assert (X2 : pow10 (mg + 1) * pow10 (- (mg + 1)) == 1).
    { rewrite <- pow10_add. replace (mg + 1 + - (mg + 1))%Z with 0%Z by lia. reflexivity. }
    pose proof (pow10_pos (- (mg + 1))) as P.
    set (x := pow10 mg) in *. set (y := pow10 (mg + 1)) in *. set (z := pow10 (- (mg + 1))) in *.
    split; [nra | right; nra].
Qed.

(* ----------------------------------------------------- the C09 statements *)
(* rates that some call of the constructor returns *)
Definition built (r : rate) : Prop := exists dm u m t a, mk_rate dm u m t a = Ok r.

(* r's term amount approximates x * (unit multiple): strictly less than one
   unit in the sixth decimal under every mode, at most half a unit under the
   three HALF modes (ROUND_HALF_EVEN is the library default) *)
Definition accurate (dm : mode) (r : rate) (x : Q) : Prop :=
  Qabs (r_amt r - x * r_mult r) < q6 /\
  (half_mode dm = true -> Qabs (r_amt r - x * r_mult r) <= (1 # 2) * q6).

Lemma m_nonzero m : 1 <= m -> ~ m == 0.
Proof. intros H C. rewrite C in H. apply H. reflexivity. Qed.

Lemma mk_rate_value dm u m t a r : mk_rate dm u m t a = Ok r ->
  exists k, (0 <= k)%Z /\ (magnitude m <= k)%Z /\
    r = mkRate u t (pow10 k) (round6 dm (qdiv (qmul a (pow10 k)) m)) /\
    1 # 10 <= a * pow10 k / m /\ (k = magnitude m \/ a * pow10 k / m < 1).
Proof.
  intros H. destruct (mk_rate_inv _ _ _ _ _ _ H) as (A & B & C & D).
  destruct (mk_rate_ok dm u m t a A B C D) as (k & K0 & K1 & E & L & T).
  exists k. rewrite E in H. injection H as <-. repeat split; assumption.
Qed.

Theorem normal_form dm u m t a r : mk_rate dm u m t a = Ok r ->
  r_unit r = u /\ r_term r = t /\
  (exists k, (0 <= k)%Z /\ r_mult r == (10 # 1) ^ k) /\
  0 < r_amt r /\
  (exists n : Z, r_amt r * (1000000 # 1) == inject_Z n) /\
  1 # 10 <= r_amt r /\
  (-1 <= magnitude (r_amt r))%Z.
Proof.
  intros H. destruct (mk_rate_value _ _ _ _ _ _ H) as (k & K0 & _ & -> & L & _).
  cbn [r_unit r_term r_mult r_amt].
  set (x := qdiv (qmul a (pow10 k)) m).
  assert (Ex : x == a * pow10 k / m) by (unfold x; rewrite qdiv_ok, qmul_ok; reflexivity).
  assert (G : 1 # 10 <= round6 dm x) by (apply round6_ge_tenth; rewrite Ex; exact L).
  split; [reflexivity|]. split; [reflexivity|].
  split; [exists k; split; [exact K0 | apply pow10_ok]|].
  split; [apply Qlt_le_trans with (1 # 10); [reflexivity | exact G]|].
  split.
  { destruct (round6_on_grid dm x) as [n Hn]. exists n. rewrite Hn. unfold q6. field. }
  split; [exact G|].
  assert (P : 0 < round6 dm x) by (apply Qlt_le_trans with (1 # 10); [reflexivity | exact G]).
  destruct (magnitude_spec _ P) as (_ & U).
  assert (X : (-1 < magnitude (round6 dm x) + 1)%Z); [|lia].
  apply pow10_lt_inv. rewrite pow10_m1. apply Qle_lt_trans with (round6 dm x); assumption.
Qed.

(* the unit multiple is only enlarged as far as needed *)
Theorem multiple_minimal dm u m t a r : mk_rate dm u m t a = Ok r ->
  exists k, r_mult r == (10 # 1) ^ k /\ (magnitude m <= k)%Z /\
    (k = magnitude m \/ a / m * r_mult r < 1).
Proof.
  intros H. destruct (mk_rate_inv _ _ _ _ _ _ H) as (_ & _ & C & _).
  destruct (mk_rate_value _ _ _ _ _ _ H) as (k & _ & K1 & -> & _ & T).
  exists k. cbn [r_mult]. split; [apply pow10_ok|]. split; [exact K1|].
  destruct T as [T|T]; [left; exact T | right].
  assert (E : a / m * pow10 k == a * pow10 k / m) by (field; apply m_nonzero; exact C).
  rewrite E. exact T.
Qed.

Theorem accuracy dm u m t a r : mk_rate dm u m t a = Ok r -> accurate dm r (a / m).
Proof.
  intros H. destruct (mk_rate_inv _ _ _ _ _ _ H) as (_ & _ & C & _).
  destruct (mk_rate_value _ _ _ _ _ _ H) as (k & _ & _ & -> & _ & _).
  unfold accurate. cbn [r_mult r_amt].
  set (x := qdiv (qmul a (pow10 k)) m).
  assert (Ex : a / m * pow10 k == x).
  { unfold x. rewrite qdiv_ok, qmul_ok. field. apply m_nonzero; exact C. }
  rewrite Ex. split; [apply round6_err_lt | apply round6_err_half].
Qed.

(* under a directed default mode the half-unit bound does not hold *)
Theorem half_unit_needs_half_mode :
  exists r, mk_rate MDOWN 1%N 1 2%N (3333339 # 10000000) = Ok r /\
            (1 # 2) * q6 < Qabs (r_amt r - (3333339 # 10000000) / 1 * r_mult r).
Proof. eexists. split; [vm_compute; reflexivity|]. vm_compute. reflexivity. Qed.

Theorem rejects dm u m t a :
  u = t \/ ~ (exists z, m == inject_Z z) \/ m < 1 \/ a < 1 # 1000000 ->
  mk_rate dm u m t a = Err EValueError.
Proof.
  intros H. apply mk_rate_rejects.
  destruct H as [H|[H|[H|H]]]; [left; exact H | right; left | right; right; left; exact H
                                | right; right; right; exact H].
  destruct (is_integral m) eqn:E; [|reflexivity].
  apply is_integral_iff in E. contradiction.
Qed.

Theorem accepts dm u m t a :
  u <> t -> (exists z, m == inject_Z z) -> 1 <= m -> 1 # 1000000 <= a ->
  exists r, mk_rate dm u m t a = Ok r.
Proof.
  intros A B C D. apply is_integral_iff in B.
  destruct (mk_rate_ok dm u m t a A B C D) as (k & _ & _ & E & _). eexists. exact E.
Qed.

Lemma built_pos r : built r -> r_unit r <> r_term r /\ 1 <= r_mult r /\ 0 < r_amt r.
Proof.
  intros (dm & u & m & t & a & H).
  destruct (mk_rate_inv _ _ _ _ _ _ H) as (A & _).
  destruct (mk_rate_value _ _ _ _ _ _ H) as (k & K0 & _ & E & _).
  destruct (normal_form _ _ _ _ _ _ H) as (U & T & _ & P & _).
  rewrite U, T. split; [exact A|]. split; [|exact P].
  rewrite E. cbn [r_mult]. apply pow10_ge1. exact K0.
Qed.

Theorem rate_inverse_one r : built r -> rate_of r * inverse_rate r == 1.
Proof.
  intros B. destruct (built_pos r B) as (_ & M & P).
  unfold rate_of, inverse_rate. rewrite !qdiv_ok. field. split.
  - intros C. rewrite C in P. exact (Qlt_irrefl _ P).
  - apply m_nonzero. exact M.
Qed.

Lemma inverse_is_reciprocal r : built r -> inverse_rate r == / rate_of r.
Proof.
  intros B. destruct (built_pos r B) as (_ & M & P).
  unfold rate_of, inverse_rate. rewrite !qdiv_ok. field. split.
  - apply m_nonzero. exact M.
  - intros C. rewrite C in P. exact (Qlt_irrefl _ P).
Qed.

Lemma rate_of_pos r : built r -> 0 < rate_of r.
Proof.
  intros B. destruct (built_pos r B) as (_ & M & P).
  unfold rate_of. rewrite qdiv_ok. apply Qlt_shift_div_l.
  - apply Qlt_le_trans with 1; [reflexivity | exact M].
  - rewrite Qmult_0_l. exact P.
Qed.

(* what a rate derived with unit multiple ONE looks like: the shape shared by
   inverted(), rate * rate and rate / rate *)
Definition derived (dm : mode) (res : res rate) (u t : N) (x : Q) : Prop :=
  (u = t -> res = Err EValueError) /\
  (x < 1 # 1000000 -> res = Err EValueError) /\
  (u <> t -> 1 # 1000000 <= x ->
     exists r', res = Ok r' /\ built r' /\ r_unit r' = u /\ r_term r' = t /\ accurate dm r' x).

Lemma accurate_compat dm r x y : x == y -> accurate dm r x -> accurate dm r y.
Proof. intros E [A B]. unfold accurate. rewrite <- E. split; assumption. Qed.

Lemma mk_rate_derived dm u t x y : x == y -> derived dm (mk_rate dm u 1 t x) u t y.
Proof.
  intros E. split; [|split].
  - intros H. apply mk_rate_rejects. left. exact H.
  - intros H. apply mk_rate_rejects. right; right; right. rewrite E. exact H.
  - intros H1 H2.
    assert (I : is_integral 1 = true) by reflexivity.
    assert (L : 1 <= 1) by apply Qle_refl.
    assert (G : q6 <= x) by (rewrite E; exact H2).
    destruct (mk_rate_ok dm u 1 t x H1 I L G) as (k & _ & _ & Ek & _).
    eexists. split; [exact Ek|].
    split; [exists dm, u, 1, t, x; exact Ek|].
    split; [reflexivity|]. split; [reflexivity|].
    apply (accurate_compat dm _ (x / 1)); [rewrite E; field|].
    apply (accuracy dm u 1 t x). exact Ek.
Qed.

Theorem inverted_spec dm r : built r ->
  derived dm (inverted dm r) (r_term r) (r_unit r) (/ rate_of r).
Proof.
  intros B. unfold inverted. apply mk_rate_derived. apply inverse_is_reciprocal. exact B.
Qed.

Theorem triangulation_mul dm a b :
  (r_unit a = r_term b ->
     derived dm (rate_mul dm a b) (r_unit b) (r_term a) (rate_of a * rate_of b)) /\
  (r_unit a <> r_term b -> r_term a = r_unit b ->
     derived dm (rate_mul dm a b) (r_unit a) (r_term b) (rate_of a * rate_of b)) /\
  (r_unit a <> r_term b -> r_term a <> r_unit b -> rate_mul dm a b = Err EValueError).
Proof.
  unfold rate_mul. split; [|split].
  - intros H. apply N.eqb_eq in H. rewrite H. apply mk_rate_derived. apply qmul_ok.
  - intros H1 H2. apply N.eqb_neq in H1. apply N.eqb_eq in H2. rewrite H1, H2.
    apply mk_rate_derived. apply qmul_ok.
  - intros H1 H2. apply N.eqb_neq in H1. apply N.eqb_neq in H2. rewrite H1, H2. reflexivity.
Qed.

Theorem triangulation_div dm a b :
  (r_unit a = r_unit b ->
     derived dm (rate_div dm a b) (r_term b) (r_term a) (rate_of a / rate_of b)) /\
  (r_unit a <> r_unit b -> r_term a = r_term b ->
     derived dm (rate_div dm a b) (r_unit a) (r_unit b) (rate_of a / rate_of b)) /\
  (r_unit a <> r_unit b -> r_term a <> r_term b -> rate_div dm a b = Err EValueError).
Proof.
  unfold rate_div. split; [|split].
  - intros H. apply N.eqb_eq in H. rewrite H. apply mk_rate_derived. apply qdiv_ok.
  - intros H1 H2. apply N.eqb_neq in H1. apply N.eqb_eq in H2. rewrite H1, H2.
    apply mk_rate_derived. apply qdiv_ok.
  - intros H1 H2. apply N.eqb_neq in H1. apply N.eqb_neq in H2. rewrite H1, H2. reflexivity.
Qed.

(* accuracy of the term amount is accuracy of the rate itself, scaled by the
   unit multiple (which is >= 1) *)
Lemma accurate_rate dm r x : built r -> accurate dm r x ->
  Qabs (rate_of r - x) * r_mult r < q6 /\
  (half_mode dm = true -> Qabs (rate_of r - x) * r_mult r <= (1 # 2) * q6) /\
  Qabs (rate_of r - x) < q6.
Proof.
  intros B [A1 A2]. destruct (built_pos r B) as (_ & M & _).
  assert (M0 : 0 < r_mult r) by (apply Qlt_le_trans with 1; [reflexivity | exact M]).
  assert (E : Qabs (rate_of r - x) * r_mult r == Qabs (r_amt r - x * r_mult r)).
  { rewrite <- (Qabs_scale _ _ M0). apply Qabs_wd. unfold rate_of. rewrite qdiv_ok. field.
    apply m_nonzero. exact M. }
  rewrite E. split; [exact A1|]. split; [exact A2|].
  rewrite <- E in A1. pose proof (Qabs_nonneg (rate_of r - x)) as P.
  set (y := Qabs (rate_of r - x)) in *. set (z := r_mult r) in *. nra.
Qed.

(* the argument handling in front of mk_rate (Model/RatesExt.v) adds nothing
   for well-typed arguments *)
From QV Require Import Model.RatesExt.
Lemma mk_rate_raw_num dm u m t a :
  mk_rate_raw dm (CCur u) (NNum m) (CCur t) (NNum a) = mk_rate dm u m t a.
Proof.
  unfold mk_rate_raw, mk_rate.
  destruct (N.eqb u t); [reflexivity|].
  destruct (negb (is_integral m)); [reflexivity|].
  destruct (qltb m 1); reflexivity.
Qed.
