(* Correspondence harness for C06: Quantity.allocate.
   One case = default rounding mode, registered table converters (class id ->
   converters, most recent first), the receiver as stored by the
   implementation (amount, unit view), the ratio list (numbers or quantities
   as stored), the disperse flag and the observed outcome: the list of
   portions and the remainder, or the exception class. *)
From QV Require Import Model.Num Model.Rounding Gen.RoundingImpl Model.Quantity
     Model.Alloc Corr.Common Corr.Obs Corr.QtyCorr.

Inductive aobs :=
  | AOk (portions : list obs) (remainder : obs)
  | AErr (e : err)
  | AOther.

Record acase := mkACase {
  ac_dm : mode;
  ac_convs : list (N * list table);
  ac_amt : Q;
  ac_unit : unit;
  ac_ratios : list ratio;
  ac_disperse : bool;
  ac_exp : aobs }.

Definition alloc_model (c : acase) : aobs :=
  match allocate (convs_of (ac_convs c)) (ac_dm c) (mkQty (ac_amt c) (ac_unit c))
                 (ac_ratios c) (ac_disperse c) with
  | Ok (ps, r) => AOk (map obs_qty ps) (obs_qty r)
  | Err e => AErr e
  end.

Definition aobs_eqb (a b : aobs) : bool :=
  match a, b with
  | AOk ps r, AOk ps' r' => list_eqb obs_eqb ps ps' && obs_eqb r r'
  | AErr e, AErr e' => err_eqb e e'
  | _, _ => false
  end.

Definition alloc_check (c : acase) : bool := aobs_eqb (alloc_model c) (ac_exp c).
