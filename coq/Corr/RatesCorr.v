(* Correspondence harness for C09 and the money part of C10:
   Model/Rates.v (+ Model/RatesExt.v) against ExchangeRate of the implementation. *)
From QV Require Import Model.Num Model.Rounding Model.Quantity Model.Rates Model.RatesExt
     Corr.Common Corr.Obs.
Open Scope Z_scope.

(* what a user sees of an exchange rate: the four constructor arguments shown
   by repr(), .rate, .inverse_rate, .quotation, eval(repr(r)) == r *)
Inductive robs :=
  | ROk (u t : N) (mult amt rate inv : Q) (qu qt : N) (qrate : Q) (repr_roundtrip : bool)
  | RErr (e : err)
  | ROther.

Definition robs_of (r : res rate) : robs :=
  match r with
  | Ok r => ROk (r_unit r) (r_term r) (r_mult r) (r_amt r) (rate_of r) (inverse_rate r)
                (r_unit r) (r_term r) (rate_of r) true
  | Err e => RErr e
  end.

Definition robs_eqb (a b : robs) : bool :=
  match a, b with
  | ROk u t m a r i qu qt qr rt, ROk u' t' m' a' r' i' qu' qt' qr' rt' =>
      N.eqb u u' && N.eqb t t' && qeqb m m' && qeqb a a' && qeqb r r' && qeqb i i' &&
      N.eqb qu qu' && N.eqb qt qt' && qeqb qr qr' && Bool.eqb rt rt'
  | RErr e, RErr e' => err_eqb e e'
  | _, _ => false
  end.

(* comparison "up to the documented accuracy" for inputs on which the
   implementation's float log10 may pick the neighbouring power of ten: same
   currencies, the two rates (each within one unit in the sixth decimal of the
   exact rate, at its own unit multiple) differ by at most two such units at
   the smaller of the two multiples, the observation is consistent in itself *)
Definition robs_approx (model : res rate) (o : robs) : bool :=
  match model, o with
  | Ok r, ROk u t m a x i qu qt qx rt =>
      N.eqb (r_unit r) u && N.eqb (r_term r) t && N.eqb qu u && N.eqb qt t &&
      qeqb x (qdiv a m) && qeqb i (qdiv m a) && qeqb qx x && rt &&
      qleb (qmul (qabs (qsub (rate_of r) x)) (if qleb m (r_mult r) then m else r_mult r))
           (2 # 1000000)
  | Err e, RErr e' => err_eqb e e'
  | _, _ => false
  end.

Definition cmp_rate (approx : bool) (model : res rate) (o : robs) : bool :=
  if approx then robs_approx model o else robs_eqb (robs_of model) o.

(* currency id -> unit view, from the list of the world's currencies *)
Fixpoint cur_of (us : list unit) (i : N) : unit :=
  match us with
  | [] => mkUnit i 0 false None None
  | u :: r => if N.eqb (u_id u) i then u else cur_of r i
  end.

Inductive rstep :=
  | SNew (cu : cur_in) (mi : num_in) (ct : cur_in) (ai : num_in) (approx : bool) (exp : robs)
  | SInv (r : rate) (approx : bool) (exp : robs)
  | SMul (a b : rate) (approx : bool) (exp : robs)
  | SDiv (a b : rate) (approx : bool) (exp : robs)
  | SEq (a b : rate) (exp_eq exp_hash_eq : bool)
  | SMoneyMul (us : list unit) (m : qty) (r : rate) (exp exp_reflected : obs)
  | SMoneyDiv (us : list unit) (m : qty) (r : rate) (exp : obs).

(* one case = all steps of one script, under one default rounding mode *)
Inductive rcase := KRates (dm : mode) (steps : list rstep).

Definition step_check (dm : mode) (s : rstep) : bool :=
  match s with
  | SNew cu mi ct ai ap e => cmp_rate ap (mk_rate_raw dm cu mi ct ai) e
  | SInv r ap e => cmp_rate ap (inverted dm r) e
  | SMul a b ap e => cmp_rate ap (rate_mul dm a b) e
  | SDiv a b ap e => cmp_rate ap (rate_div dm a b) e
  | SEq a b e h => Bool.eqb (rate_eqb a b) e && implb e h
  | SMoneyMul us m r e e' =>
      let o := obs_res_qty (money_mul_rate dm (cur_of us) m r) in
      obs_eqb o e && obs_eqb o e'
  | SMoneyDiv us m r e => obs_eqb (obs_res_qty (money_div_rate dm (cur_of us) m r)) e
  end.

Definition rates_check (c : rcase) : bool :=
  match c with KRates dm steps => forallb (step_check dm) steps end.

(* for replays: the model's own results *)
Inductive mres := MRate (r : robs) | MBool (b : bool) | MObs (o : obs).
Definition step_model (dm : mode) (s : rstep) : mres :=
  match s with
  | SNew cu mi ct ai _ _ => MRate (robs_of (mk_rate_raw dm cu mi ct ai))
  | SInv r _ _ => MRate (robs_of (inverted dm r))
  | SMul a b _ _ => MRate (robs_of (rate_mul dm a b))
  | SDiv a b _ _ => MRate (robs_of (rate_div dm a b))
  | SEq a b _ _ => MBool (rate_eqb a b)
  | SMoneyMul us m r _ _ => MObs (obs_res_qty (money_mul_rate dm (cur_of us) m r))
  | SMoneyDiv us m r _ => MObs (obs_res_qty (money_div_rate dm (cur_of us) m r))
  end.
Definition rates_model (c : rcase) : list mres :=
  match c with KRates dm steps => map (step_model dm) steps end.
