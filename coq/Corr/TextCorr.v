(* Correspondence harness for C18 (Model/Text.v): construction from numbers
   and strings, str / format, whitespace table.

   The dependency's numeric parser enters every case as a finite table
   [(text of the number part, outcome the library's parser pair produced)];
   its printer as the text the implementation printed for the amount. *)
From QV Require Import Model.Num Model.Rounding Gen.RoundingImpl Model.Quantity
     Model.Text Corr.Common Corr.Obs Corr.QtyCorr.
Open Scope N_scope.

(* compact string literals of the case files: the code points as 21-bit digits
   of one number below a leading 1 (first code point most significant) *)
Definition dec_step (st : N * str) : N * str :=
  let (n, acc) := st in
  if n <=? 1 then st else (N.shiftr n 21, N.land n 2097151 :: acc).
Definition STR (n : N) : str :=
  snd (N.iter (N.size n / 21 + 1) dec_step (n, [])).

Definition numtable := list (str * res Q).

Fixpoint table_parse (t : numtable) (s : str) : res Q :=
  match t with
  | [] => Err EValueError
  | (k, r) :: rest => if str_eqb k s then r else table_parse rest s
  end.

Inductive tcase :=
  (* cls(text, unit) *)
  | TParse (dm : mode) (convs : list (N * list table)) (d : directory)
           (tab : numtable) (c : caller) (ua : uarg) (text : str) (exp : obs)
  (* cls(number, unit) *)
  | TNumber (dm : mode) (c : caller) (n : numarg) (ua : uarg) (exp : obs)
  (* q = a*u as stored; [shown] = str(q.amount), which is also the number
     part of str(q) whose parse outcome is [numres]; expected: str(q) =
     shown ++ exp_suffix, and cls(str(q), unit) *)
  | TRound (dm : mode) (convs : list (N * list table)) (d : directory)
           (numres : res Q) (c : caller) (ua : uarg)
           (shown : str) (a : Q) (u : unit) (exp_suffix : str) (exp : obs)
  (* format(q, spec) *)
  | TFormat (d : directory) (shown : str) (spec : list piece) (a : Q) (u : unit)
            (exp_text : str)
  (* all code points below [bound] that str.isspace accepts *)
  | TSpaces (bound : N) (exp : list N).

Inductive tobs :=
  | TO (o : obs)
  | TText (s : str)
  | TBoth (s : str) (o : obs)
  | TList (l : list N).

Definition spaces_below (bound : N) : list N :=
  rev (snd (N.iter bound
              (fun st : N * list N =>
                 let (i, acc) := st in
                 (N.succ i, if is_space i then i :: acc else acc))
              (0, []))).

Definition t_model (c : tcase) : tobs :=
  match c with
  | TParse dm cv d tab cl ua text _ =>
      TO (obs_res_qty (parse_qty (table_parse tab) d (convs_of cv) dm cl ua text))
  | TNumber dm cl n ua _ => TO (obs_res_qty (mk_from_number dm cl n ua))
  | TRound dm cv d numres cl ua shown a u _ _ =>
      let text := qty_str (fun _ => shown) d (mkQty a u) in
      TBoth text (obs_res_qty (parse_qty (table_parse [(shown, numres)]) d
                                         (convs_of cv) dm cl ua text))
  | TFormat d shown spec a u _ => TText (qty_format (fun _ => shown) d spec (mkQty a u))
  | TSpaces bound _ => TList (spaces_below bound)
  end.

Definition t_expected (c : tcase) : tobs :=
  match c with
  | TParse _ _ _ _ _ _ _ e => TO e
  | TNumber _ _ _ _ e => TO e
  | TRound _ _ _ _ _ _ shown _ _ t e => TBoth (shown ++ t) e
  | TFormat _ _ _ _ _ t => TText t
  | TSpaces _ l => TList l
  end.

Definition tobs_eqb (a b : tobs) : bool :=
  match a, b with
  | TO x, TO y => obs_eqb x y
  | TText s, TText t => str_eqb s t
  | TBoth s x, TBoth t y => str_eqb s t && obs_eqb x y
  | TList l, TList m => list_eqb N.eqb l m
  | _, _ => false
  end.

Definition t_check (c : tcase) : bool := tobs_eqb (t_model c) (t_expected c).
