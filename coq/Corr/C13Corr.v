(* Correspondence harness for C13: quantize / round / _floordiv_rounded. *)
From QV Require Import Model.Num Model.Rounding Gen.RoundingImpl Model.Quantity
     Corr.Common Corr.Obs.

Inductive c13case :=
  | KQuantize (dm : mode) (is_dec : bool) (a : Q) (u : unit) (b : Q) (v : unit)
              (rm : option mode) (exp : obs)
  | KRound (dm : mode) (is_dec : bool) (a : Q) (u : unit) (nd : Z) (exp : obs)
  | KFloorDiv (x y : Z) (m : mode) (exp : Z)          (* the private helper itself *)
  | KRef (m : mode) (q : Q) (exp : Z).                (* decimalfp: Decimal(q, 0) *)

Definition c13_model (c : c13case) : obs :=
  match c with
  | KQuantize dm d a u b v rm _ =>
      obs_res_qty (quantize (fun _ => []) dm d (mkQty a u) (mkQty b v) rm)
  | KRound dm d a u nd _ => obs_qty (qty_round dm d (mkQty a u) nd)
  | KFloorDiv x y m _ => match floordiv_rounded x y m with
                         | Some n => ONum (qz n) | None => OErr EValueError end
  | KRef m q _ => ONum (qz (rnd_ref m q))
  end.

Definition c13_expected (c : c13case) : obs :=
  match c with
  | KQuantize _ _ _ _ _ _ _ e => e
  | KRound _ _ _ _ _ e => e
  | KFloorDiv _ _ _ e => ONum (qz e)
  | KRef _ _ e => ONum (qz e)
  end.

Definition c13_check (c : c13case) : bool := obs_eqb (c13_model c) (c13_expected c).
