(* Corr/TermCorr.v — correspondence harness for C07 (class Term).
   A case = element table (the environment of the model, one row per element
   that occurs) + a query on term expressions + the observed result of the
   real implementation.  The check also evaluates the hypotheses of the C07
   theorems (table_ok) on the table of every case. *)
From QV Require Import Model.Num Model.Dim Model.Term Corr.Common.
Open Scope Z_scope.

(* term-valued expressions of the public API *)
Inductive texpr :=
  | XMk (sized reduce : bool) (l : list item)   (* Term(items, reduce_items=...) ; sized: tuple vs generator *)
  | XNorm (t : texpr)                           (* t.normalized() *)
  | XMul (s t : texpr)                          (* s * t *)
  | XMulNum (s : texpr) (q : Q)                 (* s * q, q * s *)
  | XDiv (s t : texpr)                          (* s / t *)
  | XDivNum (s : texpr) (q : Q)                 (* s / q *)
  | XRDiv (q : Q) (s : texpr)                   (* q / s *)
  | XRecip (s : texpr)                          (* s.reciprocal() *)
  | XPow (s : texpr) (k : Z)                    (* s ** k *)
  | XSplitTail (s : texpr).                     (* s.split()[1] *)

Inductive tquery :=
  | QItems (t : texpr)                          (* t.items *)
  | QEq (s t : texpr)                           (* s == t *)
  | QHashEq (s t : texpr)                       (* hash(s) == hash(t) *)
  | QNumElem (t : texpr)                        (* t.num_elem *)
  | QSplit (dflt : Q) (t : texpr)               (* t.split(dflt) *)
  | QIsNorm (t : texpr).                        (* t.is_normalized: normalized() is t, observed as items equality *)

Inductive tobs :=
  | TItems (l : list item)
  | TBool (b : bool)
  | TNumOpt (q : option Q)
  | TSplit (q : Q) (l : list item)
  | TFloat                                      (* a float occurred: never equal to a model result *)
  | TErr.                                       (* any exception: never equal to a model result *)

Record tcase := mkTCase {
  tc_table : list (N * elem_info);
  tc_query : tquery;
  tc_obs : tobs
}.

Section Eval.
Variable E : env.

Fixpoint teval (x : texpr) : term :=
  match x with
  | XMk sized reduce l => mk_term E sized reduce l
  | XNorm t => normalized E (teval t)
  | XMul s t => mul E (teval s) (teval t)
  | XMulNum s q => mul_num E (teval s) q
  | XDiv s t => div E (teval s) (teval t)
  | XDivNum s q => div_num E (teval s) q
  | XRDiv q s => rdiv_num E q (teval s)
  | XRecip s => reciprocal (teval s)
  | XPow s k => pow E (teval s) k
  | XSplitTail s => snd (split E 1 (teval s))
  end.

(* comparison of observed items: numbers by value, elements by id *)
Definition elem_eqb (x y : elem) : bool :=
  match x, y with
  | Num p, Num q => Qeq_bool p q
  | El a, El b => N.eqb a b
  | _, _ => false
  end.
Definition item_eqb (a b : item) : bool := elem_eqb (fst a) (fst b) && (snd a =? snd b).
Definition items_eqb (a b : list item) : bool := list_eqb item_eqb a b.

Definition tquery_eval (q : tquery) : tobs :=
  match q with
  | QItems t => TItems (teval t)
  | QEq s t => TBool (term_eqb E (teval s) (teval t))
  | QHashEq s t => TBool (items_eqb (hash_key E (teval s)) (hash_key E (teval t)))
  | QNumElem t => TNumOpt (num_elem (teval t))
  | QSplit d t => let r := split E d (teval t) in TSplit (fst r) (snd r)
  | QIsNorm t => TBool (items_eqb (normalized E (teval t)) (teval t))
  end.
End Eval.

Definition tobs_eqb (a b : tobs) : bool :=
  match a, b with
  | TItems x, TItems y => items_eqb x y
  | TBool x, TBool y => Bool.eqb x y
  | TNumOpt x, TNumOpt y => opt_eqb Qeq_bool x y
  | TSplit p x, TSplit q y => Qeq_bool p q && items_eqb x y
  | _, _ => false
  end.

Definition term_model (c : tcase) : tobs :=
  tquery_eval (env_of_table (tc_table c)) (tc_query c).

(* model result = observed result, and the table satisfies the hypotheses of
   the C07 theorems *)
Definition term_check (c : tcase) : bool :=
  table_ok (tc_table c) && tobs_eqb (term_model c) (tc_obs c).

(* diagnostic for replays *)
Definition term_diag (c : tcase) : bool * tobs := (table_ok (tc_table c), term_model c).
