(* Corr/Common.v — helpers of the in-Coq correspondence check. *)
From QV Require Import Model.Num.

(* indices of the cases on which [chk] fails *)
Fixpoint failures_from {A} (chk : A -> bool) (i : N) (l : list A) : list N :=
  match l with
  | [] => []
  | x :: r => if chk x then failures_from chk (N.succ i) r
              else i :: failures_from chk (N.succ i) r
  end.
Definition failures {A} (chk : A -> bool) (l : list A) : list N := failures_from chk 0%N l.

Definition opt_eqb {A} (eqb : A -> A -> bool) (a b : option A) : bool :=
  match a, b with
  | Some x, Some y => eqb x y
  | None, None => true
  | _, _ => false
  end.

Fixpoint list_eqb {A} (eqb : A -> A -> bool) (a b : list A) : bool :=
  match a, b with
  | [], [] => true
  | x :: r, y :: s => eqb x y && list_eqb eqb r s
  | _, _ => false
  end.
