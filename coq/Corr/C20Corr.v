(* Correspondence harness for C20: the generated catalogue / prefixes /
   documentation tables and the model's computed scales against what the
   implementation shows through its public API.  A case carries the INDEX of
   the unit (prefix, row) in the generated list together with the observed
   symbol etc., so that a stale or misaligned generated file is a mismatch. *)
From QV Require Import Model.Num Model.Rounding Gen.RoundingImpl Model.Quantity
     Model.Catalogue Gen.Catalogue Gen.Prefixes Gen.DocTables Corr.Common Corr.Obs.

(* computed once when this file is compiled *)
Definition cat_views : list (option unit) := Eval vm_compute in views the_catalogue.
Definition cat_scales : list (option Q) :=
  Eval vm_compute in map (scale_of the_catalogue) cat_units.
Definition cat_isref : list bool := Eval vm_compute in map (is_ref the_catalogue) cat_units.
Definition cat_table : table := Eval vm_compute in temp_table the_catalogue.
Definition cat_temp_idx : option N :=
  Eval vm_compute in match cat_temp_cls with
                     | Some n => type_index the_catalogue n
                     | None => None
                     end.
Definition cat_ce : convenv :=
  fun k => match cat_temp_idx with
           | Some i => if N.eqb i k then [cat_table] else []
           | None => []
           end.
(* view of the reference unit of every unit's type *)
Definition cat_refviews : list (option unit) :=
  Eval vm_compute in
    map (fun u => match find_type the_catalogue (cu_cls u) with
                  | Some t => match ct_ref t with
                              | Some r => view_sym the_catalogue r
                              | None => None
                              end
                  | None => None
                  end) cat_units.

Definition nth_N {A} (l : list A) (i : N) : option A := nth_error l (N.to_nat i).
Definition nth_opt {A} (l : list (option A)) (i : N) : option A :=
  match nth_N l i with Some (Some x) => Some x | _ => None end.

Inductive c20case :=
  (* unit #i: symbol, name, type, is_ref_unit(); (1*u).convert(ref unit) or
     ONone for a type without reference unit *)
  | KScale (i : N) (sym name cls : string) (isref : bool) (exp : obs)
  (* (a * unit #i).convert(unit #j) under default rounding mode dm *)
  | KConv (dm : mode) (i j : N) (a : Q) (exp : obs)
  (* SI_PREFIXES[i] as imported: module variable, name, abbr, exp, factor *)
  | KPrefix (i : N) (var name abbr : string) (e : Z) (factor : Q)
  (* row #ri of section #si of the live __doc__, and the equivalent the
     implementation computes for that symbol *)
  | KDocRow (si ri : N) (type : string) (ref : option string) (sym name def : string)
            (equiv : Q) (exp : obs)
  (* entry #i of the temperature fixed points; exp = (a*from).convert(to) *)
  | KDocEquiv (i : N) (from : string) (a : Q) (to : string) (val : Q)
              (exact : bool) (dec : Z) (exp : obs)
  (* formula #i applied to x; exp = (x*from).convert(to) *)
  | KDocFormula (i : N) (from to : string) (pre factor post : Q) (x : Q) (exp : obs)
  (* row #i of the tables of types without reference unit *)
  | KDocNonlinear (i : N) (type sym name : string)
  (* number of exported types / unit objects / SI_PREFIXES entries *)
  | KCount (types units prefixes : N).

Definition conv_obs (dm : mode) (a : Q) (u v : option unit) : obs :=
  match u, v with
  | Some u, Some v => obs_res_qty (convert cat_ce dm (mkQty a u) v)
  | _, _ => OUnknownUnit
  end.

Definition c20_model (c : c20case) : obs :=
  match c with
  | KScale i _ _ _ _ _ =>
      match nth_N cat_refviews i with
      | Some (Some r) => conv_obs MHEVEN 1 (nth_opt cat_views i) (Some r)
      | Some None => ONone
      | None => OUnknownUnit
      end
  | KConv dm i j a _ => conv_obs dm a (nth_opt cat_views i) (nth_opt cat_views j)
  | KPrefix i _ _ _ _ _ =>
      match nth_N si_prefixes i with
      | Some p => ONum (prefix_factor prefix_base p)
      | None => OOther
      end
  | KDocRow _ _ _ _ sym _ _ _ _ =>
      match view_sym the_catalogue sym with
      | Some u => match nth_N cat_refviews (u_id u) with
                  | Some r => conv_obs MHEVEN 1 (Some u) r
                  | None => OUnknownUnit
                  end
      | None => OUnknownUnit
      end
  | KDocEquiv _ from a to _ _ _ _ =>
      conv_obs MHEVEN a (view_sym the_catalogue from) (view_sym the_catalogue to)
  | KDocFormula _ from to _ _ _ x _ =>
      conv_obs MHEVEN x (view_sym the_catalogue from) (view_sym the_catalogue to)
  | KDocNonlinear _ _ _ _ => ONone
  | KCount _ _ _ => ONone
  end.

Definition c20_expected (c : c20case) : obs :=
  match c with
  | KScale _ _ _ _ _ e => e
  | KConv _ _ _ _ e => e
  | KPrefix _ _ _ _ _ f => ONum f
  | KDocRow _ _ _ _ _ _ _ _ e => e
  | KDocEquiv _ _ _ _ _ _ _ e => e
  | KDocFormula _ _ _ _ _ _ _ e => e
  | KDocNonlinear _ _ _ _ => ONone
  | KCount _ _ _ => ONone
  end.

Definition obs_amt (o : obs) : option Q :=
  match o with OQty _ _ a => Some a | ONum a => Some a | _ => None end.

(* the generated data at the given index is what the implementation showed *)
Definition c20_aligned (c : c20case) : bool :=
  match c with
  | KScale i sym name cls isref e =>
      match nth_N cat_units i, nth_N cat_scales i, nth_N cat_isref i with
      | Some u, Some sc, Some r =>
          seqb (cu_sym u) sym && seqb (cu_name u) name && seqb (cu_cls u) cls
          && Bool.eqb r isref
          && oq_eqb sc (obs_amt e)      (* the scale itself, not only the conversion *)
      | _, _, _ => false
      end
  | KConv _ _ _ _ _ => true
  | KPrefix i var name abbr e _ =>
      match nth_N si_prefixes i with
      | Some p => seqb (p_var p) var && seqb (p_name p) name && seqb (p_abbr p) abbr
                  && Z.eqb (p_exp p) e
      | None => false
      end
  | KDocRow si ri type ref sym name def equiv _ =>
      match nth_N doc_sections si with
      | Some s =>
          seqb (ds_type s) type && ostr_eqb (ds_ref s) ref
          && match nth_N (ds_rows s) ri with
             | Some r => seqb (dr_sym r) sym && seqb (dr_name r) name
                         && seqb (dr_def r) def && qeqb (dr_equiv r) equiv
             | None => false
             end
      | None => false
      end
  | KDocEquiv i from a to val exact dec _ =>
      match nth_N doc_equivs i with
      | Some e => seqb (de_from e) from && qeqb (de_amt e) a && seqb (de_to e) to
                  && qeqb (de_val e) val && Bool.eqb (de_exact e) exact
                  && Z.eqb (de_decimals e) dec
      | None => false
      end
  | KDocFormula i from to pre factor post _ _ =>
      match nth_N doc_formulas i with
      | Some f => seqb (df_from f) from && seqb (df_to f) to && qeqb (df_pre f) pre
                  && qeqb (df_factor f) factor && qeqb (df_post f) post
      | None => false
      end
  | KDocNonlinear i type sym name =>
      match nth_N doc_nonlinear_rows i with
      | Some r => seqb (fst (fst r)) type && seqb (snd (fst r)) sym && seqb (snd r) name
      | None => false
      end
  | KCount t u p =>
      N.eqb (N.of_nat (List.length cat_types)) t
      && N.eqb (N.of_nat (List.length cat_units)) u
      && N.eqb (N.of_nat (List.length si_prefixes)) p
  end.

Definition c20_check (c : c20case) : bool :=
  c20_aligned c && obs_eqb (c20_model c) (c20_expected c).
