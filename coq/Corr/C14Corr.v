(* Correspondence harness of C14: the cases of Corr/QtyCorr.v, evaluated with
   the refined conversion functions of Model/Table.v (a reverse row with
   factor 0 raises ZeroDivisionError), plus sorted(). *)
From QV Require Import Model.Num Model.Rounding Gen.RoundingImpl Model.Quantity
     Model.Table Corr.Common Corr.Obs Corr.QtyCorr.

Inductive c14case :=
  | CQ (c : qcase)
  | CSorted (convs : list (N * list table)) (l : list qty) (exp : list obs).

Definition c14_qmodel (c : qcase) : obs :=
  let ce := convs_of (qc_convs c) in
  let dm := qc_dm c in
  match qc_op c with
  | QConvert a u v => obs_res_qty (convert_r ce dm (mkQty a u) v)
  | QConvertVia a u w v =>
      obs_res_qty (bind (convert_r ce dm (mkQty a u) w) (fun r => convert_r ce dm r v))
  | QConvEq a u v =>
      obs_res_bool (bind (convert_r ce dm (mkQty a u) v) (fun r => qty_eq_r ce r (mkQty a u)))
  | QEq (OpQty p) (OpQty q) => obs_res_bool (qty_eq_r ce p q)
  | QCmp op (OpQty p) (OpQty q) => obs_res_bool (qty_cmp_r ce op p q)
  | _ => q_model c
  end.

Definition c14_sorted_model (convs : list (N * list table)) (l : list qty) : res (list obs) :=
  match qty_sorted (convs_of convs) l with
  | Ok r => Ok (map obs_qty r)
  | Err e => Err e
  end.

Definition c14_check (c : c14case) : bool :=
  match c with
  | CQ c => obs_eqb (c14_qmodel c) (qc_exp c)
  | CSorted convs l exp =>
      match c14_sorted_model convs l with
      | Ok r => list_eqb obs_eqb r exp
      | Err _ => false
      end
  end.
