(* Correspondence harness for C12: the converter registry machine of
   Model/ConvStack.v against observed runs of the implementation.

   A case carries the behaviours of its converters (tables computed by the
   case script, NOT read from the library), the calls, and what the
   implementation showed: every call's result / exception class,
   list(cls.registered_converters()) as converter indices and the results
   of fixed probe conversions after the last call. *)
From QV Require Import Model.Num Model.Quantity Model.ConvStack Corr.Common.

Fixpoint benv_of (l : list (N * table)) (c : N) : table :=
  match l with
  | [] => []
  | (k, t) :: r => if N.eqb k c then t else benv_of r c
  end.

Definition ismc_of (l : list N) (c : N) : bool := mem c l.

Definition result_eqb (a b : result) : bool :=
  match a, b with
  | RNone, RNone => true
  | RAmt x, RAmt y => qeqb x y
  | RErr x, RErr y => err_eqb x y
  | RList x, RList y => list_eqb N.eqb x y
  | _, _ => false
  end.

Definition outcome_eqb (a b : outcome) : bool :=
  match a, b with
  | Normal, Normal => true
  | Raised x, Raised y => err_eqb x y
  | _, _ => false
  end.

Definition probe := (Q * N * N)%type.

Definition probes_money (be : benv) (s : state) (ps : list probe) : list result :=
  map (fun p => let '(a, f, u) := p in money_convert be s a f u) ps.
Definition probes_gen (be : benv) (s : state) (ps : list probe) : list result :=
  map (fun p => let '(a, f, u) := p in gen_convert be s a f u) ps.

(* a run of calls: the result of every call, then the listing and the probe
   conversions after the last call.  (The exhaustive streams contain every
   sequence up to the bound, i.e. every prefix is a case of its own: the
   registry is observed after every call of every sequence.) *)
Definition runobs := (list result * list N * list result)%type.
(* a program run: log, how it ended, listing and probes afterwards *)
Definition progobs := (list result * outcome * list N * list result)%type.

Definition runobs_eqb (a b : runobs) : bool :=
  let '(x, l, p) := a in let '(y, m, q) := b in
  list_eqb result_eqb x y && list_eqb N.eqb l m && list_eqb result_eqb p q.

Definition progobs_eqb (a b : progobs) : bool :=
  let '(l, o, s, p) := a in let '(l', o', s', p') := b in
  list_eqb result_eqb l l' && outcome_eqb o o' && list_eqb N.eqb s s' &&
  list_eqb result_eqb p p'.

Inductive c12case :=
  | KMoney (bs : list (N * table)) (mcs : list N) (ps : list probe)
           (ops : list mop) (exp : runobs)
  | KGeneric (bs : list (N * table)) (ps : list probe)
             (ops : list gop) (exp : runobs)
  (* [pre]: direct calls before the program (their effect is its initial registry) *)
  | KProg (bs : list (N * table)) (mcs : list N) (ps : list probe)
          (pre : list mop) (p : prog) (exp : progobs).

Definition money_model (bs : list (N * table)) (mcs : list N) (ps : list probe)
           (ops : list mop) : runobs :=
  let be := benv_of bs in
  let '(s, xs) := money_run (ismc_of mcs) be [] ops in
  (xs, listing s, probes_money be s ps).

Definition gen_model (bs : list (N * table)) (ps : list probe) (ops : list gop) : runobs :=
  let be := benv_of bs in
  let '(s, xs) := gen_run be [] ops in
  (xs, listing s, probes_gen be s ps).

Definition prog_model (bs : list (N * table)) (mcs : list N) (ps : list probe)
           (pre : list mop) (p : prog) : progobs :=
  let be := benv_of bs in
  let ismc := ismc_of mcs in
  let s0 := fst (money_run ismc be [] pre) in
  let '(s1, l, o) := exec ismc be p s0 in
  (l, o, listing s1, probes_money be s1 ps).

Definition c12_check (c : c12case) : bool :=
  match c with
  | KMoney bs mcs ps ops exp => runobs_eqb (money_model bs mcs ps ops) exp
  | KGeneric bs ps ops exp => runobs_eqb (gen_model bs ps ops) exp
  | KProg bs mcs ps pre p exp => progobs_eqb (prog_model bs mcs ps pre p) exp
  end.

(* for replays: what the model computes *)
Inductive c12out := ORun (o : runobs) | OProg (o : progobs).
Definition c12_model (c : c12case) : c12out :=
  match c with
  | KMoney bs mcs ps ops _ => ORun (money_model bs mcs ps ops)
  | KGeneric bs ps ops _ => ORun (gen_model bs ps ops)
  | KProg bs mcs ps pre p _ => OProg (prog_model bs mcs ps pre p)
  end.
