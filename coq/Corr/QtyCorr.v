(* Correspondence harness for the quantity layer (Model/Quantity.v):
   one case = default rounding mode, registered table converters, an
   operation on operands (as stored by the implementation) and the observed
   result. Used by C01, C03, C04, C05, C14. *)
From QV Require Import Model.Num Model.Rounding Gen.RoundingImpl Model.Quantity
     Corr.Common Corr.Obs.

Inductive qop :=
  | QMk (a : Q) (u : unit)                         (* constructor: number, unit *)
  | QConvert (a : Q) (u v : unit)
  | QConvertVia (a : Q) (u w v : unit)
  | QConvEq (a : Q) (u v : unit)                   (* x.convert(v) == x *)
  | QAddSub (sub : bool) (x y : operand)
  | QEq (x y : operand)
  | QCmp (op : cmpop) (x y : operand)
  | QNeg (a : Q) (u : unit)
  | QAbs (a : Q) (u : unit)
  | QMulNum (a : Q) (u : unit) (k : Q)
  | QDivNum (a : Q) (u : unit) (k : Q)
  | QUnitCmp (op : cmpop) (u v : unit)
  | QUnitEq (u v : unit)
  | QSum (l : list qty)
  | QQuantize (is_dec : bool) (a : Q) (u : unit) (b : Q) (v : unit) (rm : option mode)
  | QRound (is_dec : bool) (a : Q) (u : unit) (nd : Z).

Record qcase := mkQCase {
  qc_dm : mode;
  qc_convs : list (N * list table);    (* class id -> converters, most recent first *)
  qc_op : qop;
  qc_exp : obs }.

Fixpoint convs_of (l : list (N * list table)) (c : N) : list table :=
  match l with
  | [] => []
  | (k, ts) :: r => if N.eqb k c then ts else convs_of r c
  end.

Definition q_model (c : qcase) : obs :=
  let ce := convs_of (qc_convs c) in
  let dm := qc_dm c in
  match qc_op c with
  | QMk a u => obs_qty (mk_qty dm a u)
  | QConvert a u v => obs_res_qty (convert ce dm (mkQty a u) v)
  | QConvertVia a u w v =>
      obs_res_qty (bind (convert ce dm (mkQty a u) w) (fun r => convert ce dm r v))
  | QConvEq a u v =>
      obs_res_bool (bind (convert ce dm (mkQty a u) v) (fun r => qty_eq ce r (mkQty a u)))
  | QAddSub sub x y => obs_res_qty (op_addsub sub ce dm x y)
  | QEq x y => obs_res_bool (op_eq ce x y)
  | QCmp op x y => obs_res_bool (op_cmp ce op x y)
  | QNeg a u => obs_qty (qty_neg dm (mkQty a u))
  | QAbs a u => obs_qty (qty_abs dm (mkQty a u))
  | QMulNum a u k => obs_qty (qty_mul_num dm (mkQty a u) k)
  | QDivNum a u k => obs_res_qty (qty_div_num dm (mkQty a u) k)
  | QUnitCmp op u v => obs_res_bool (unit_cmp op u v)
  | QUnitEq u v => obs_res_bool (unit_eq u v)
  | QQuantize d a u b v rm => obs_res_qty (quantize ce dm d (mkQty a u) (mkQty b v) rm)
  | QRound d a u nd => obs_qty (qty_round dm d (mkQty a u) nd)
  | QSum l => match l with
              | [] => ONum 0
              | p :: r => obs_res_qty (qty_sum_from ce dm p r)
              end
  end.

Definition q_check (c : qcase) : bool := obs_eqb (q_model c) (qc_exp c).
