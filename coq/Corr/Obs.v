(* Corr/Obs.v — observations of implementation results, as the harness
   writes them, and their comparison with model results. *)
From QV Require Import Model.Num Model.Quantity Corr.Common.

Inductive obs :=
  | OQty (cls uid : N) (amt : Q)    (* a quantity: type, unit, exact amount *)
  | ONum (q : Q)                    (* a plain exact number *)
  | OBool (b : bool)
  | OErr (e : err)
  | ONone
  | OFloat                          (* an inexact float appeared: never equal to a model result *)
  | OUnknownUnit
  | ONotImpl
  | OOther.

Definition obs_eqb (a b : obs) : bool :=
  match a, b with
  | OQty c u x, OQty c' u' x' => N.eqb c c' && N.eqb u u' && qeqb x x'
  | ONum x, ONum y => qeqb x y
  | OBool x, OBool y => Bool.eqb x y
  | OErr x, OErr y => err_eqb x y
  | ONone, ONone => true
  | ONotImpl, ONotImpl => true
  | _, _ => false
  end.

Definition obs_qty (q : qty) : obs := OQty (u_cls (q_unit q)) (u_id (q_unit q)) (q_amt q).
Definition obs_res_qty (r : res qty) : obs :=
  match r with Ok q => obs_qty q | Err e => OErr e end.
Definition obs_res_bool (r : res bool) : obs :=
  match r with Ok b => OBool b | Err e => OErr e end.
Definition obs_res_num (r : res Q) : obs :=
  match r with Ok q => ONum q | Err e => OErr e end.
