(* Corr/MoneyConvCorr.v — correspondence harness for C11 (money converter).
   A case is a whole script: converter (base currency, fixed default date),
   a probe set, a list of update steps — each with the exception the real
   update raised (if any) and the probe results observed after it —, and the
   final queries with the observed get_rate / __call__ results. *)
From QV Require Import Model.Num Model.Quantity Model.Rates Model.MoneyConv
     Corr.Common Corr.Obs.

(* what get_rate showed: None, the fields of an ExchangeRate, an exception *)
Inductive robs := RNone | RRate (u t : N) (mult amt : Q) | RErr (e : err) | ROther.

Definition robs_eqb (a b : robs) : bool :=
  match a, b with
  | RNone, RNone => true
  | RRate u t m x, RRate u' t' m' x' =>
      N.eqb u u' && N.eqb t t' && qeqb m m' && qeqb x x'
  | RErr e, RErr e' => err_eqb e e'
  | _, _ => false
  end.

Definition robs_of (r : res (option rate)) : robs :=
  match r with
  | Ok None => RNone
  | Ok (Some x) => RRate (r_unit x) (r_term x) (r_mult x) (r_amt x)
  | Err e => RErr e
  end.

Record probe := mkProbe { p_u : N; p_t : N; p_eff : option date }.

Record qry := mkQry {
  q_u : N; q_t : N; q_eff : option date;
  q_amount : Q;                 (* amount of the Money object handed to the converter *)
  q_rate : robs;                (* observed get_rate(u, t, eff) *)
  q_call : option obs           (* observed conv(money, t, eff), if it was called *)
}.

Record step := mkStep {
  s_upd : upd;
  s_exc : option err;           (* exception class raised by update(), if any *)
  s_after : list robs           (* probe results after the call *)
}.

Record c11case := mkCase {
  c_base : N;
  c_dflt : date;                (* value of the configured callable *)
  c_qdm : mode;                 (* rounding mode while querying *)
  c_probes : list probe;
  c_init : list robs;           (* probe results of the fresh converter *)
  c_steps : list step;
  c_queries : list qry
}.

Definition run_probes (st : cstate) (dm : mode) (dflt : date) (ps : list probe) : list robs :=
  map (fun p => robs_of (conv_get_rate st dm (p_u p) (p_t p) (p_eff p) dflt)) ps.

Definition opt_err_eqb (a b : option err) : bool := opt_eqb err_eqb a b.

(* model run over the steps: Some final state iff every step agrees *)
Fixpoint steps_ok (c : c11case) (st : cstate) (ss : list step) : option cstate :=
  match ss with
  | [] => Some st
  | s :: r =>
      let u := s_upd s in
      let '(st', e) := conv_update st (up_v u) (up_entries u) (up_dm u) in
      if opt_err_eqb e (s_exc s)
         && list_eqb robs_eqb (run_probes st' (c_qdm c) (c_dflt c) (c_probes c)) (s_after s)
      then steps_ok c st' r else None
  end.

Definition qry_ok (c : c11case) (st : cstate) (q : qry) : bool :=
  robs_eqb (robs_of (conv_get_rate st (c_qdm c) (q_u q) (q_t q) (q_eff q) (c_dflt c))) (q_rate q)
  && match q_call q with
     | None => true
     | Some o => obs_eqb (obs_res_num (conv_call st (c_qdm c) (q_u q) (q_amount q) (q_t q)
                                                 (q_eff q) (c_dflt c))) o
     end.

Definition c11_check (c : c11case) : bool :=
  let st0 := conv_init (c_base c) in
  list_eqb robs_eqb (run_probes st0 (c_qdm c) (c_dflt c) (c_probes c)) (c_init c)
  && match steps_ok c st0 (c_steps c) with
     | None => false
     | Some st => forallb (qry_ok c st) (c_queries c)
     end.

(* for replays: what the model computes for the script *)
Definition c11_model (c : c11case)
  : list (option err * list robs) * list (robs * obs) :=
  let st0 := conv_init (c_base c) in
  let fix go (st : cstate) (ss : list step) : list (option err * list robs) * cstate :=
      match ss with
      | [] => ([], st)
      | s :: r =>
          let u := s_upd s in
          let '(st', e) := conv_update st (up_v u) (up_entries u) (up_dm u) in
          let '(l, stf) := go st' r in
          ((e, run_probes st' (c_qdm c) (c_dflt c) (c_probes c)) :: l, stf)
      end in
  let '(l, st) := go st0 (c_steps c) in
  (l, map (fun q => (robs_of (conv_get_rate st (c_qdm c) (q_u q) (q_t q) (q_eff q) (c_dflt c)),
                     obs_res_num (conv_call st (c_qdm c) (q_u q) (q_amount q) (q_t q) (q_eff q) (c_dflt c))))
          (c_queries c)).
