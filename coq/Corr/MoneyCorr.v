(* Correspondence harness for C08 (Model/MoneyOps.v + the shared quantity
   layer): registration scripts run against the GENERATED ISO table, money
   construction, money / money, money * money, and — through [MQ] — every case
   kind of the shared Corr/QtyCorr.v on currency views. *)
From QV Require Import Model.Num Model.Rounding Gen.RoundingImpl Model.Quantity
     Model.MoneyOps Gen.IsoTable Corr.Common Corr.Obs Corr.QtyCorr.

(* what the harness sees of one step of a registration script *)
Inductive robs :=
  | RCur (first : N) (sym name : str) (sf : Q)
      (* a currency came back: index of the first step of the script that
         returned this very object (`is`), its symbol, name, smallest fraction *)
  | RNone                        (* a declaration of another class succeeded *)
  | RErr (e : err).

Definition robs_eqb (a b : robs) : bool :=
  match a, b with
  | RCur i s n f, RCur i' s' n' f' => N.eqb i i' && str_eqb s s' && str_eqb n n' && qeqb f f'
  | RNone, RNone => true
  | RErr e, RErr e' => err_eqb e e'
  | _, _ => false
  end.

Inductive mcase :=
  | MQ (c : qcase)
  | MNew (dm : mode) (a : Q) (u : unit) (exp : obs)
  | MDiv (dm : mode) (p q : qty) (exp : obs)
  | MMul (dm : mode) (p q : qty) (exp : obs)
  | MScript (foreign : list str) (ops : list reg_op) (exp : list robs) (units : list str)
  | MAll (l : list mcase).      (* several operations run in one interpreter *)

(* no converter registered, no product / quotient unit declared *)
Definition no_convs : convenv := fun _ => [].
Definition no_terms : termenv := fun _ _ _ => None.

Definition obs_numqty (r : res numqty) : obs :=
  match r with
  | Ok (RNum k) => ONum k
  | Ok (RQty q) => obs_qty q
  | Err e => OErr e
  end.

Fixpoint first_idx (uid : N) (seen : list (option N)) (i : N) : N :=
  match seen with
  | [] => i
  | Some u :: r => if N.eqb u uid then i else first_idx uid r (N.succ i)
  | None :: r => first_idx uid r (N.succ i)
  end.

Fixpoint robs_of (rs : list (res (option currency))) (seen : list (option N)) : list robs :=
  match rs with
  | [] => []
  | Ok (Some c) :: rest =>
      RCur (first_idx (c_uid c) seen 0) (c_sym c) (cur_name c) (c_sf c)
      :: robs_of rest (seen ++ [Some (c_uid c)])
  | Ok None :: rest => RNone :: robs_of rest (seen ++ [None])
  | Err e :: rest => RErr e :: robs_of rest (seen ++ [None])
  end.

Definition script_model (foreign : list str) (ops : list reg_op) : list robs * list str :=
  let '(rs, st) := run_trace iso_table (st_init foreign) ops in
  (robs_of rs [], map c_sym (st_units st)).

(* listings are compared as sets *)
Definition same_strs (a b : list str) : bool :=
  Nat.eqb (length a) (length b) &&
  forallb (fun x => existsb (str_eqb x) b) a &&
  forallb (fun x => existsb (str_eqb x) a) b.

Fixpoint m_check (c : mcase) : bool :=
  match c with
  | MQ q => q_check q
  | MNew dm a u e => obs_eqb (obs_res_qty (money_new dm a u)) e
  | MDiv dm p q e => obs_eqb (obs_numqty (qty_div_qty no_convs no_terms dm p q)) e
  | MMul dm p q e => obs_eqb (obs_numqty (qty_mul_qty no_terms dm p q)) e
  | MScript fg ops e us =>
      let '(m, l) := script_model fg ops in
      list_eqb robs_eqb m e && same_strs l us
  | MAll l => forallb m_check l
  end.

(* for replays: the model's own result *)
Inductive mres := MObs (o : obs) | MTrace (l : list robs) (units : list str) | MList (l : list mres).
Fixpoint m_model (c : mcase) : mres :=
  match c with
  | MQ q => MObs (q_model q)
  | MNew dm a u _ => MObs (obs_res_qty (money_new dm a u))
  | MDiv dm p q _ => MObs (obs_numqty (qty_div_qty no_convs no_terms dm p q))
  | MMul dm p q _ => MObs (obs_numqty (qty_mul_qty no_terms dm p q))
  | MScript fg ops _ _ => let '(m, l) := script_model fg ops in MTrace m l
  | MAll l => MList (map m_model l)
  end.
