(* Correspondence harness for the directory model (Model/Registry.v):
   a case = default rounding mode, a declaration script run from the initial
   directory (with the observed outcome of every step), a list of earlier
   operations (evaluation history: they fill the operation cache), a query and
   its observed result.  Used by C02, C10, C15, C16, C17. *)
From QV Require Import Model.Num Model.Rounding Model.Quantity Model.Dim Model.Registry
     Model.Rates Model.RegRates Corr.Common Corr.Obs.

Inductive mop :=
  | OMul (x y : mopd)
  | ODiv (x y : mopd)
  | OPow (x : mopd) (k : Z).

Inductive query :=
  | QOp (o : mop)
  | QDir (syms : list N) (clss : list N)          (* Unit(sym) for each, cls.units() for each *)
  | QMk (a : Q) (u : N) (via : option N)          (* Quantity(a, u) / cls(a, u) *)
  (* cls(1, u).equiv_amount(reference unit) for units of unquantized types with
     reference unit: the unit's scale as a user observes it *)
  | QScales (syms : list N)
  (* (a * u) * rate / rate * (a * u) (mul) or (a * u) / rate, the rate being
     ExchangeRate(ru, mult, rt, amt) *)
  | QRate (mul : bool) (a : Q) (u : N) (ru : N) (mult : Q) (rt : N) (amt : Q).

Inductive robs :=
  | RO (o : obs)
  | RPair (f : Q) (w : option N)
  | RDir (us : list (option (N * N))) (cs : list (option (list N)))
  | RScales (l : list (option Q)).

Record rcase := mkRCase {
  k_dm : mode;
  k_cat : bool;                        (* start from the predefined catalogue *)
  k_script : list decl;
  k_steps : list (option err);         (* observed outcome of every declaration *)
  k_pre : list mop;                    (* operations evaluated after the script *)
  k_late : list decl;                  (* declarations made after those operations *)
  k_late_steps : list (option err);
  k_query : query;
  k_exp : robs }.

Definition no_convs : convenv := fun _ => [].

(* the harness builds a quantity operand as  number * unit : it goes through
   the constructor (rounded to the quantum of a quantized type) *)
Definition stored (dm : mode) (s : state) (x : mopd) : mopd :=
  match x with
  | MQ a u => match find_unit s u with
              | Some ru => MQ (q_amt (mk_qty dm a (view s ru))) u
              | None => x
              end
  | _ => x
  end.

Definition run_mop (dm : mode) (s : state) (o : mop) : state * res mres :=
  let o := match o with
           | OMul x y => OMul (stored dm s x) (stored dm s y)
           | ODiv x y => ODiv (stored dm s x) (stored dm s y)
           | OPow x k => OPow (stored dm s x) k
           end in
  match o with
  | OMul x y => op_mul s dm x y
  | ODiv x y => op_div s dm no_convs x y
  | OPow x k => (s, op_pow s dm x k)
  end.

Definition obs_mres (r : res mres) : robs :=
  match r with
  | Ok (MQty q) => RO (obs_qty q)
  | Ok (MNum k) => RO (ONum k)
  | Ok (MPair f w) => RPair f w
  | Err e => RO (OErr e)
  end.

Fixpoint run_steps (dm : mode) (s : state) (ds : list decl) : state * list (option err) :=
  match ds with
  | [] => (s, [])
  | d :: r => let (s1, e) := step dm s d in
              let (s2, es) := run_steps dm s1 r in (s2, e :: es)
  end.

(* [pre]: the directory after the declaration script of the predefined
   catalogue (evaluated once per case file) *)
Definition reg_model (pre : state) (c : rcase) : list (option err) * robs :=
  let dm := k_dm c in
  let (s, es) := run_steps dm (if k_cat c then pre else init) (k_script c) in
  let s1 := fold_left (fun st o => fst (run_mop dm st o)) (k_pre c) s in
  let (s', es2) := run_steps dm s1 (k_late c) in
  (es ++ es2, match k_query c with
       | QOp o => obs_mres (snd (run_mop dm s' o))
       | QDir syms clss => RDir (map (obs_symbol s') syms) (map (obs_units s') clss)
       | QRate mul a u ru mult rt amt =>
           match mk_rate dm ru mult rt amt with
           | Err e => RO (OErr e)
           | Ok r =>
               let a' := match find_unit s' u with
                         | Some x => q_amt (mk_qty dm a (view s' x))
                         | None => a end in
               obs_mres (apply_rate s' dm mul a' u r)
           end
       | QScales syms =>
           RScales (map (fun sym =>
             match find_unit s' sym with
             | Some u => match find_cls s' (ru_cls u) with
                         | Some k => match rc_ref k, rc_quantum k with
                                     | Some _, None => ru_equiv u
                                     | _, _ => None
                                     end
                         | None => None
                         end
             | None => None
             end) syms)
       | QMk a u via =>
           match find_unit s' u with
           | None => RO (OErr EOther)
           | Some ru =>
               match via with
               | Some cid => if N.eqb cid (ru_cls ru)
                             then RO (obs_qty (mk_qty dm a (view s' ru)))
                             else RO (OErr EQuantityError)
               | None => RO (obs_qty (mk_qty dm a (view s' ru)))
               end
           end
       end).

Definition oerr_eqb (a b : option err) : bool := opt_eqb err_eqb a b.
Definition pair_eqb (a b : N * N) : bool := N.eqb (fst a) (fst b) && N.eqb (snd a) (snd b).

Definition robs_eqb (a b : robs) : bool :=
  match a, b with
  | RO x, RO y => obs_eqb x y
  | RPair f w, RPair g v => qeqb f g && opt_eqb N.eqb w v
  | RDir us cs, RDir us' cs' =>
      list_eqb (opt_eqb pair_eqb) us us' && list_eqb (opt_eqb (list_eqb N.eqb)) cs cs'
  | RScales l, RScales l' => list_eqb (opt_eqb qeqb) l l'
  | _, _ => false
  end.

Definition reg_check (pre : state) (c : rcase) : bool :=
  let (es, r) := reg_model pre c in
  list_eqb oerr_eqb es (k_steps c ++ k_late_steps c) && robs_eqb r (k_exp c).

(* the predefined script itself: every step accepted *)
Definition pre_state (ds : list decl) : state * bool :=
  let (s, es) := run_steps MHEVEN init ds in
  (s, forallb (fun e => match e with None => true | Some _ => false end) es).

(* a case file that uses the predefined catalogue although its script was
   rejected by the model fails as a whole *)
Definition reg_check_pre (p : state * bool) (c : rcase) : bool :=
  (negb (k_cat c) || snd p) && reg_check (fst p) c.
