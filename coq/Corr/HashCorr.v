(* Correspondence harness for C19: pairs of quantities / units / exchange
   rates with the observed a == b and hash(a) == hash(b). *)
From QV Require Import Model.Num Model.Rounding Model.Quantity Model.Rates Model.Hash
     Corr.Common Corr.Obs.

Inductive hcase :=
  | HQ (convs : list (N * list table)) (p q : qty) (eq : obs) (hash_eq : bool)
  | HU (u v : unit) (eq : obs) (hash_eq : bool)
  | HR (a b : rate) (eq : bool) (hash_eq : bool).

Fixpoint convs_of (l : list (N * list table)) (c : N) : list table :=
  match l with
  | [] => []
  | (k, ts) :: r => if N.eqb k c then ts else convs_of r c
  end.

(* the model predicts the result of ==; and when the keys are equivalent the
   observed hashes must be equal (different keys may collide: no claim) *)
Definition h_check (c : hcase) : bool :=
  match c with
  | HQ cv p q e h =>
      obs_eqb (obs_res_bool (qty_eq (convs_of cv) p q)) e &&
      (negb (hk_eqb (qty_hash p) (qty_hash q)) || h)
  | HU u v e h =>
      obs_eqb (obs_res_bool (unit_eq u v)) e &&
      (negb (hk_eqb (unit_hash u) (unit_hash v)) || h)
  | HR a b e h =>
      Bool.eqb (rate_eqb a b) e && (negb (hk_eqb (rate_hash a) (rate_hash b)) || h)
  end.

Definition h_model (c : hcase) : obs * bool :=
  match c with
  | HQ cv p q _ _ => (obs_res_bool (qty_eq (convs_of cv) p q), hk_eqb (qty_hash p) (qty_hash q))
  | HU u v _ _ => (obs_res_bool (unit_eq u v), hk_eqb (unit_hash u) (unit_hash v))
  | HR a b _ _ => (OBool (rate_eqb a b), hk_eqb (rate_hash a) (rate_hash b))
  end.
