(* Properties/C11.v — Money converter yields the right rate for every update
   history and date.  Statements only; proofs in Proofs/C11Proofs.v. *)
From Coq Require Import ZArith QArith List Bool.
From QV Require Import Model.Num Model.Rates Model.MoneyConv Proofs.C11Proofs Gen.MoneyConvImpl Proofs.GenMoneyConvEq
     Model.Effects Proofs.EffectsProofs Gen.EffectsImpl.
Import ListNotations.
Open Scope Z_scope.

(* For ALL histories of update calls (accepted and rejected ones, any
   spellings, any entries): the dictionary of the converter reached from a
   fresh one answers exactly with the LAST accepted entry for that
   (normalised period, term currency) ... *)
Theorem C11_refines : forall (b : N) (h : list upd) (v : validity) (c : N),
  tbl_get (cv_table (run h (conv_init b))) (v, c) = spec_lookup (accepted b h) v c.
Proof. exact refines. Qed.
Print Assumptions C11_refines.

(* ... and it is committed to the kind of validity of the accepted updates *)
Theorem C11_refines_kind : forall (b : N) (h : list upd),
  cv_kind (run h (conv_init b)) = spec_kind (accepted b h).
Proof. exact refines_kind. Qed.
Print Assumptions C11_refines_kind.

(* the stored rate from the base currency *)
Theorem C11_direct : forall b h dm t eff dflt,
  t <> b ->
  conv_get_rate (run h (conv_init b)) dm b t eff dflt
  = Ok (spec_rate_for (accepted b h) eff dflt t).
Proof. exact get_rate_direct. Qed.
Print Assumptions C11_direct.

(* its inverse towards the base currency (ExchangeRate.inverted, which
   rejects reciprocals below 10^-6) *)
Theorem C11_inverse : forall b h dm u eff dflt,
  u <> b ->
  conv_get_rate (run h (conv_init b)) dm u b eff dflt
  = match spec_rate_for (accepted b h) eff dflt u with
    | None => Ok None
    | Some r => some_rate (inverted dm r)
    end.
Proof. exact get_rate_inverse. Qed.
Print Assumptions C11_inverse.

(* the quotient of the two base rates otherwise *)
Theorem C11_quotient : forall b h dm u t eff dflt ur tr,
  u <> b -> t <> b -> u <> t ->
  spec_rate_for (accepted b h) eff dflt u = Some ur ->
  spec_rate_for (accepted b h) eff dflt t = Some tr ->
  conv_get_rate (run h (conv_init b)) dm u t eff dflt
  = some_rate (mk_rate dm u 1 t (qdiv (rate_of tr) (rate_of ur))).
Proof. exact get_rate_quotient. Qed.
Print Assumptions C11_quotient.

(* None when a needed entry is missing *)
Theorem C11_none : forall b h dm u t eff dflt,
  u <> t ->
  (u <> b /\ spec_rate_for (accepted b h) eff dflt u = None) \/
  (t <> b /\ spec_rate_for (accepted b h) eff dflt t = None) ->
  conv_get_rate (run h (conv_init b)) dm u t eff dflt = Ok None.
Proof. exact get_rate_none. Qed.
Print Assumptions C11_none.

(* date2validity maps a date to the period (of the committed kind) that
   contains it, and to no other *)
Theorem C11_date_in_period : forall k d v,
  (date2validity k d = Some v -> in_period v d /\ kind_of v = k) /\
  (proper_kind k -> kind_of v = k -> in_period v d -> date2validity k d = Some v).
Proof. exact date_in_period_both. Qed.
Print Assumptions C11_date_in_period.

(* a reported stored rate stems from an accepted entry for that currency whose
   period contains the date *)
Theorem C11_source_entry : forall h eff dflt c r,
  spec_rate_for h eff dflt c = Some r ->
  exists a, In a h /\ In r (au_rates a) /\ r_term r = c /\
            in_period (au_v a) (eff_date eff dflt).
Proof. exact spec_rate_source. Qed.
Print Assumptions C11_source_entry.

(* entries for other periods never influence the result: one update *)
Theorem C11_other_periods_irrelevant : forall st v es dm st' nv qdm u t eff dflt,
  wf st ->
  conv_update st v es dm = (st', None) ->
  norm_validity v = Ok nv ->
  date2validity (kind_of nv) (eff_date eff dflt) <> Some nv ->
  conv_get_rate st' qdm u t eff dflt = conv_get_rate st qdm u t eff dflt.
Proof. exact other_period_step. Qed.
Print Assumptions C11_other_periods_irrelevant.

(* ... every state reached from a fresh converter satisfies wf ... *)
Theorem C11_reachable_wf : forall b h, wf (run h (conv_init b)).
Proof. exact reachable_wf. Qed.
Print Assumptions C11_reachable_wf.

(* ... and anywhere in a history (once the converter is committed to a kind) *)
Theorem C11_other_periods_history : forall b h1 u h2 qdm c t eff dflt,
  cv_kind (run h1 (conv_init b)) <> None ->
  (forall nv, norm_validity (up_v u) = Ok nv ->
              date2validity (kind_of nv) (eff_date eff dflt) <> Some nv) ->
  conv_get_rate (run (h1 ++ u :: h2) (conv_init b)) qdm c t eff dflt
  = conv_get_rate (run (h1 ++ h2) (conv_init b)) qdm c t eff dflt.
Proof. exact other_periods_history. Qed.
Print Assumptions C11_other_periods_history.

(* however spelled: '2020' = 2020, '2020-03' = (2020, 3), 'YYYY-MM-DD' = date
   (equal normalised validity, hence the very same update) *)
Theorem C11_spelling : forall y m d,
  (0 <= y <= 9999 -> norm_validity (VStr (fmt4 y)) = norm_validity (VInt y)) /\
  (0 <= y <= 9999 -> 0 <= m <= 99 ->
     norm_validity (VStr (fmt4 y ++ [c_dash] ++ fmt2 m)) = norm_validity (VTuple y m)) /\
  (valid_date y m d = true ->
     norm_validity (VStr (fmt4 y ++ [c_dash] ++ fmt2 m ++ [c_dash] ++ fmt2 d))
     = norm_validity (VDate y m d)).
Proof. exact spelling_all. Qed.
Print Assumptions C11_spelling.

Theorem C11_spelling_same_update : forall st v1 v2 es dm,
  norm_validity v1 = norm_validity v2 ->
  conv_update st v1 es dm = conv_update st v2 es dm.
Proof. exact update_spelling. Qed.
Print Assumptions C11_spelling_same_update.

(* which tuples and ISO texts are accepted *)
Theorem C11_month_accepted : forall y m, 0 <= y <= 9999 -> 0 <= m <= 99 ->
  norm_validity (VTuple y m) = if valid_date y m 1 then Ok (KMonth y m) else Err EValueError.
Proof. exact norm_tuple. Qed.
Print Assumptions C11_month_accepted.

Theorem C11_day_accepted : forall y m d, 0 <= y <= 9999 -> 0 <= m <= 99 -> 0 <= d <= 99 ->
  norm_validity (VStr (fmt4 y ++ [c_dash] ++ fmt2 m ++ [c_dash] ++ fmt2 d))
  = if valid_date y m d then Ok (KDay y m d) else Err EValueError.
Proof. exact norm_day_text. Qed.
Print Assumptions C11_day_accepted.

(* mixing kinds of validity is rejected without changing the converter *)
Theorem C11_mixed_kind_rejected_unchanged : forall st v es dm nv k,
  cv_kind st = Some k -> norm_validity v = Ok nv -> kind_of nv <> k ->
  conv_update st v es dm = (st, Some EValueError).
Proof. exact mixed_kind_rejected. Qed.
Print Assumptions C11_mixed_kind_rejected_unchanged.

(* ANY failing update leaves the converter literally unchanged (repaired F5) *)
Theorem C11_failed_update_unchanged : forall st v es dm st' e,
  conv_update st v es dm = (st', Some e) -> st' = st.
Proof. exact failed_update_unchanged. Qed.
Print Assumptions C11_failed_update_unchanged.

(* ... and an update fails as soon as one entry is rejected, wherever it stands *)
Theorem C11_bad_entry_rejects : forall st v es1 x es2 dm e,
  entry_rate dm (cv_base st) x = Err e ->
  exists e', conv_update st v (es1 ++ x :: es2) dm = (st, Some e').
Proof. exact bad_entry_rejects. Qed.
Print Assumptions C11_bad_entry_rejects.

(* an accepted update stores rates from the base currency only *)
Theorem C11_rates_from_base : forall dm b es rs,
  build_rates dm b es = Ok rs -> forall r, In r rs -> r_unit r = b /\ r_term r <> b.
Proof. exact build_rates_unit. Qed.
Print Assumptions C11_rates_from_base.

(* the default effective date comes from the configured callable *)
Theorem C11_default_date : forall st dm u t dflt,
  conv_get_rate st dm u t None dflt = conv_get_rate st dm u t (Some dflt) dflt.
Proof. exact default_date. Qed.
Print Assumptions C11_default_date.

(* calling the converter multiplies the amount by exactly the reported rate *)
Theorem C11_call : forall st dm u a t eff dflt,
  (forall r, conv_get_rate st dm u t eff dflt = Ok (Some r) ->
     exists q, conv_call st dm u a t eff dflt = Ok q /\ q == a * rate_of r) /\
  (conv_get_rate st dm u t eff dflt = Ok None ->
     conv_call st dm u a t eff dflt = Err EUnitConversion).
Proof. exact call_both. Qed.
Print Assumptions C11_call.

(* "one for a currency and itself": the property's clause at full strength ... *)
Definition C11_identity_statement : Prop :=
  forall st dm c eff dflt,
    exists r, conv_get_rate st dm c c eff dflt = Ok (Some r) /\ rate_of r == 1.

(* ... is refuted by the faithful model (finding F8): get_rate(c, c) builds
   ExchangeRate(c, 1, c, 1), which raises ValueError — for EVERY converter *)
Theorem C11_identity_refuted : ~ C11_identity_statement.
Proof. exact identity_refuted. Qed.
Print Assumptions C11_identity_refuted.

Theorem C11_identity_always_raises : forall st dm c eff dflt,
  conv_get_rate st dm c c eff dflt = Err EValueError.
Proof. exact get_rate_identity. Qed.
Print Assumptions C11_identity_always_raises.

(* the inverse / quotient is reported only if it is representable: both
   entries stored, yet get_rate raises (quotient below 10^-6) *)
Theorem C11_derived_rate_may_raise :
  exists ur tr,
    spec_rate_for (accepted 0%N tiny_history) None (mkDate 2020 3 15) 2%N = Some ur /\
    spec_rate_for (accepted 0%N tiny_history) None (mkDate 2020 3 15) 3%N = Some tr /\
    conv_get_rate (run tiny_history (conv_init 0%N)) MHEVEN 2%N 3%N None (mkDate 2020 3 15)
    = Err EValueError.
Proof. exact derived_rate_may_raise. Qed.
Print Assumptions C11_derived_rate_may_raise.

(* ------------------------------------------------------------ non-vacuity *)

(* "2020", "2020-03", "2020-02-29" as code points *)
Example ex_text_year : fmt4 2020 = [50; 48; 50; 48]%N.
Proof. reflexivity. Qed.
Example ex_text_day :
  fmt4 2020 ++ [c_dash] ++ fmt2 2 ++ [c_dash] ++ fmt2 29
  = [50; 48; 50; 48; 45; 48; 50; 45; 50; 57]%N.
Proof. reflexivity. Qed.
Example ex_spellings :
  norm_validity (VStr (fmt4 2020)) = Ok (KYear 2020) /\
  norm_validity (VStr (fmt4 2020 ++ [c_dash] ++ fmt2 3)) = Ok (KMonth 2020 3) /\
  norm_validity (VStr (fmt4 2020 ++ [c_dash] ++ fmt2 2 ++ [c_dash] ++ fmt2 29)) = Ok (KDay 2020 2 29) /\
  norm_validity (VStr (fmt4 2021 ++ [c_dash] ++ fmt2 2 ++ [c_dash] ++ fmt2 29)) = Err EValueError /\
  norm_validity (VTuple 2020 13) = Err EValueError /\
  norm_validity (VInt 0) = Err EValueError /\
  valid_date 2020 2 29 = true /\ valid_date 1900 2 29 = false.
Proof. vm_compute. repeat split. Qed.

(* a history over EUR=0 USD=1 JPY=2 HKD=3 with monthly rates: overridden keys,
   an update for another month, a mixed-kind update, a failing entry in the
   middle of an update *)
Definition ex_history : list upd :=
  [ mkUpd (VTuple 2020 2) [EntOk 1%N (5 # 4) 1; EntOk 2%N (130 # 1) 1] MHEVEN;
    mkUpd (VStr (fmt4 2020 ++ [c_dash] ++ fmt2 3)) [EntOk 1%N (11 # 10) 1] MHEVEN;
    mkUpd (VInt 2020) [EntOk 1%N (3 # 1) 1] MHEVEN;                     (* mixed kind *)
    mkUpd (VTuple 2020 2) [EntOk 1%N (6 # 5) 1; EntOk 3%N (-3 # 1) 1] MHEVEN;  (* fails *)
    mkUpd (VTuple 2020 2) [EntOk 1%N (13 # 10) 1; EntOk 1%N (7 # 5) 1] MHEVEN ].

Example ex_accepted : length (accepted 0%N ex_history) = 3%nat.
Proof. vm_compute. reflexivity. Qed.

(* Feb 29 lies in 2020-02: the last accepted USD entry (1.4) counts *)
Example ex_direct :
  conv_get_rate (run ex_history (conv_init 0%N)) MHEVEN 0%N 1%N (Some (mkDate 2020 2 29)) (mkDate 2020 3 1)
  = Ok (Some (mkRate 0%N 1%N 1 (7 # 5))).
Proof. vm_compute. reflexivity. Qed.

(* Mar 1 (the default date) lies in 2020-03 *)
Example ex_default :
  conv_get_rate (run ex_history (conv_init 0%N)) MHEVEN 0%N 1%N None (mkDate 2020 3 1)
  = Ok (Some (mkRate 0%N 1%N 1 (11 # 10))).
Proof. vm_compute. reflexivity. Qed.

(* hypotheses of C11_quotient are satisfiable, with a rate as result *)
Example ex_quotient :
  exists ur tr r,
    spec_rate_for (accepted 0%N ex_history) (Some (mkDate 2020 2 28)) (mkDate 2020 3 1) 1%N = Some ur /\
    spec_rate_for (accepted 0%N ex_history) (Some (mkDate 2020 2 28)) (mkDate 2020 3 1) 2%N = Some tr /\
    conv_get_rate (run ex_history (conv_init 0%N)) MHEVEN 1%N 2%N (Some (mkDate 2020 2 28)) (mkDate 2020 3 1)
    = Ok (Some r) /\ r_amt r = (92857143 # 1000000).
Proof. do 3 eexists. vm_compute. repeat split. Qed.

Example ex_inverse :
  exists r,
    conv_get_rate (run ex_history (conv_init 0%N)) MHEVEN 2%N 0%N (Some (mkDate 2020 2 1)) (mkDate 2020 3 1)
    = Ok (Some r) /\ r_mult r = (100 # 1) /\ r_amt r = (769231 # 1000000).
Proof. eexists. vm_compute. repeat split. Qed.

(* JPY has no entry for March *)
Example ex_none :
  conv_get_rate (run ex_history (conv_init 0%N)) MHEVEN 1%N 2%N None (mkDate 2020 3 1) = Ok None.
Proof. vm_compute. reflexivity. Qed.

(* hypotheses of C11_mixed_kind_rejected_unchanged / C11_failed_update_unchanged *)
Example ex_mixed :
  let st := run ex_history (conv_init 0%N) in
  cv_kind st = Some KdMonth /\ norm_validity (VInt 2020) = Ok (KYear 2020) /\
  conv_update st (VInt 2020) [EntOk 1%N (3 # 1) 1] MHEVEN = (st, Some EValueError).
Proof. vm_compute. repeat split. Qed.

Example ex_failed :
  let st := run ex_history (conv_init 0%N) in
  conv_update st (VTuple 2020 2) [EntOk 1%N (6 # 5) 1; EntOk 3%N (-3 # 1) 1; EntOk 2%N (1 # 1) 1] MHEVEN
  = (st, Some EValueError).
Proof. vm_compute. reflexivity. Qed.

(* hypotheses of C11_other_periods_history: committed converter, an update for
   March, a date in February *)
Example ex_other_period :
  cv_kind (run (firstn 1 ex_history) (conv_init 0%N)) <> None /\
  (forall nv, norm_validity (VStr (fmt4 2020 ++ [c_dash] ++ fmt2 3)) = Ok nv ->
     date2validity (kind_of nv) (eff_date (Some (mkDate 2020 2 29)) (mkDate 2020 3 1)) <> Some nv).
Proof.
  split; [vm_compute; discriminate|].
  intros nv H. vm_compute in H. inversion H. vm_compute. discriminate.
Qed.

(* the hypothesis "already committed" is needed: the first update fixes the kind *)
Example ex_first_update_fixes_kind :
  conv_get_rate (run (kind_history_u :: kind_history_rest) (conv_init 0%N)) MHEVEN 0%N 1%N
                (Some (mkDate 2020 3 15)) (mkDate 2020 3 15) = Ok None /\
  exists r, conv_get_rate (run kind_history_rest (conv_init 0%N)) MHEVEN 0%N 1%N
                          (Some (mkDate 2020 3 15)) (mkDate 2020 3 15) = Ok (Some r).
Proof. exact first_update_fixes_kind. Qed.

Example ex_call :
  conv_call (run ex_history (conv_init 0%N)) MHEVEN 0%N (1234 # 100) 1%N None (mkDate 2020 3 1)
  = Ok (6787 # 500).
Proof. vm_compute. reflexivity. Qed.

(* the look-up side of the model IS the code: MoneyConverter._get_rate, get_rate
   and __call__ of src/quantity/money/__init__.py are re-translated on every run
   (Gen/MoneyConvImpl.v, fail-closed translator translate/mconv.py) and equal
   the model functions for every converter state and every query; the update
   side (validity spellings, construction of the rates) stays hand-modelled and
   tied by the correspondence check *)
Theorem C11_model_is_translated_code : forall st dm u t eff dflt a,
  get_rate_key_impl st t eff dflt = lookup_rate st t eff dflt /\
  get_rate_impl st dm u t eff dflt = conv_get_rate st dm u t eff dflt /\
  call_impl st dm u a t eff dflt = conv_call st dm u a t eff dflt.
Proof.
  intros. split; [apply get_rate_key_impl_eq|]. split; [apply get_rate_impl_eq | apply call_impl_eq].
Qed.
Print Assumptions C11_model_is_translated_code.

(* "mixing kinds of validity is rejected without changing the converter" (and so
   is every other rejected update) as a statement about the code's control flow:
   the body of MoneyConverter.update, re-translated on every run into the effect
   language of Model/Effects.v, raises only before its first write to the
   converter (kind of validity, rate table) *)
Theorem C11_update_raises_before_it_writes :
  forall w', ex_l converter_update_prog false Exc w' -> w' = false.
Proof. apply atomic_sound. vm_compute. reflexivity. Qed.
Print Assumptions C11_update_raises_before_it_writes.
