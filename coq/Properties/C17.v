(* Property C17 — results do not depend on evaluation history.  Statements only.
   "Value" of a result (factor, unit) = factor x definition of the unit in the
   group of values (exact amount in base units; the quantity type is determined
   by the dimension, one type per dimension: C15). *)
From Coq Require Import ZArith QArith Qabs List Bool.
From QV Require Import Model.Num Model.Rounding Model.Quantity Model.Dim Model.Registry
     Proofs.QuantityProofs Proofs.DimProofs Proofs.RegistryProofs Proofs.DirectoryProofs
     Proofs.C02Proofs Proofs.C15Proofs Gen.OpsImpl Proofs.GenOpsEq.

(* whatever was evaluated or declared before (any reachable directory, any
   reachable cache contents) a successful product denotes the product of the
   operands' values — which mentions neither the cache nor the order of
   declarations *)
Theorem C17_value_determined : forall s u v s' r,
  Inv s -> find_unit s (ru_id u) = Some u -> find_unit s (ru_id v) = Some v ->
  unit_mul s u v = (s', Ok r) ->
  val_ok s' (opnf KMul u v) r /\ Inv s' /\ st_units s' = st_units s /\
  st_termmap s' = st_termmap s /\ st_classes s' = st_classes s.
Proof. exact unit_mul_sound. Qed.
Print Assumptions C17_value_determined.

Theorem C17_quotient_value_determined : forall s u v s' r,
  Inv s -> find_unit s (ru_id u) = Some u -> find_unit s (ru_id v) = Some v ->
  unit_div s u v = (s', Ok r) ->
  val_ok s' (opnf KDiv u v) r /\ Inv s' /\ st_units s' = st_units s /\
  st_termmap s' = st_termmap s /\ st_classes s' = st_classes s.
Proof. exact unit_div_sound. Qed.
Print Assumptions C17_quotient_value_determined.

(* cached or recomputed: equal values *)
Theorem C17_cache_transparent : forall dm s u v s1 r1 s2 r2,
  Reach dm s -> find_unit s (ru_id u) = Some u -> find_unit s (ru_id v) = Some v ->
  unit_mul s u v = (s1, Ok r1) -> unit_mul (clear_cache s) u v = (s2, Ok r2) ->
  exists y1 y2, res_value s r1 = Some y1 /\ res_value s r2 = Some y2 /\ nf_eq y1 y2.
Proof. exact R_cache_transparent. Qed.
Print Assumptions C17_cache_transparent.

(* the invariants survive the evaluation of operations: reachable directories
   stay coherent however many operations were evaluated in between *)
Theorem C17_operations_keep_invariant : forall s u v s' r,
  Inv s -> find_unit s (ru_id u) = Some u -> find_unit s (ru_id v) = Some v ->
  unit_mul s u v = (s', r) -> Inv s'.
Proof.
  intros s u v s' r I Hu Hv H. destruct r as [r|e].
  - apply (unit_mul_sound s u v s' r I Hu Hv H).
  - destruct (unit_mul_undefined _ _ _ _ _ H) as (-> & _). exact I.
Qed.
Print Assumptions C17_operations_keep_invariant.

(* an undefined result is not cached: the directory is unchanged, and once a
   unit defined by the term (e.g. the reference unit of the missing type) is
   registered the operation is defined *)
Theorem C17_error_not_cached : forall s u v s' e,
  unit_mul s u v = (s', Err e) ->
  s' = s /\ e = EUndefinedResult /\ resolve s (nf_mul (ru_nf u) (ru_nf v)) = None.
Proof. exact unit_mul_undefined. Qed.
Print Assumptions C17_error_not_cached.

Theorem C17_error_not_sticky : forall s x k w,
  In (k, w) (st_termmap s) -> nf_eq k (mkNf 1 (nf_dim x)) -> resolve s x <> None.
Proof. exact resolve_defined. Qed.
Print Assumptions C17_error_not_sticky.

(* the cached unit operations ARE the code (Unit.__mul__ / __truediv__ with
   _UNIT_OP_CACHE, re-translated on every run into Gen/OpsImpl.v) *)
Theorem C17_model_is_translated_code : forall s u v,
  unit_mul_impl s u v = unit_mul s u v /\ unit_div_impl s u v = unit_div s u v.
Proof. intros s u v. split; [apply unit_mul_impl_eq | apply unit_div_impl_eq]. Qed.
Print Assumptions C17_model_is_translated_code.

(* non-vacuity: km*km before Area exists is undefined; after declaring Area it
   is defined, and evaluating it twice gives the same result *)
Definition ex17a : list decl :=
  [DeclClass 1 None (Some 1%N) 0%N None false; NewUnit 1 2 (DQty (1000 # 1) 1)].
Definition ex17b : decl := DeclClass 2 (Some [(1%N, 2%Z)]) None 3%N None false.
Example C17_example :
  let s := run MHEVEN init ex17a in
  match find_unit s 2 with
  | Some km =>
      snd (unit_mul s km km) = Err EUndefinedResult /\
      let s1 := fst (step MHEVEN s ex17b) in
      snd (unit_mul s1 km km) = Ok (1000000 # 1, Some 3%N) /\
      snd (unit_mul (fst (unit_mul s1 km km)) km km) = Ok (1000000 # 1, Some 3%N)
  | None => False
  end.
Proof. vm_compute. repeat split. Qed.
