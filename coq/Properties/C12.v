(* Property C12 — converter registration is last-in-first-out and restores
   prior behaviour.  Statements only; proofs in Proofs/C12Proofs.v, the
   machine in Model/ConvStack.v. *)
From Coq Require Import ZArith QArith List Bool.
From QV Require Import Model.Num Model.Quantity Model.ConvStack Proofs.C12Proofs
     Gen.ConvStackImpl Proofs.GenConvStackEq.
Import ListNotations.

(* ---------------------------------------------------------------- Money *)

(* After ANY sequence of register / remove / enter / leave / convert / list
   calls (failed ones included), started from ANY registry, the k-th entry of
   Money.registered_converters() is the k-th most recent registration of the
   history that no successful unregistration has cancelled ([scan] walks the
   history backwards and never looks at the machine's state). *)
Theorem C12_money_stack : forall ismc be ops s0 k,
  nth_error (listing (money_final ismc be s0 ops)) k =
  scan (listing s0) (rev (money_trace ismc be s0 ops)) k.
Proof. exact money_stack_refines. Qed.
Print Assumptions C12_money_stack.

(* ... and a conversion asks exactly that most recent active converter:
   its amount, or UnitConversionError when it has no rate or none is active —
   converters below it are not consulted. *)
Theorem C12_money_uses_top : forall ismc be ops s0 a f u,
  money_convert be (money_final ismc be s0 ops) a f u =
  spec_convert be (active (listing s0) (money_trace ismc be s0 ops)) a f u.
Proof. exact money_uses_top. Qed.
Print Assumptions C12_money_uses_top.

Theorem C12_money_lower_irrelevant : forall be be' s c a f u,
  be c = be' c ->
  money_convert be (s ++ [c]) a f u = money_convert be' (s ++ [c]) a f u.
Proof. exact money_lower_irrelevant. Qed.
Print Assumptions C12_money_lower_irrelevant.

(* Unregistering (directly or by __exit__) anything but the most recent
   converter raises and changes nothing: IndexError on an empty registry (the
   code indexes [-1] first), ValueError otherwise. *)
Theorem C12_remove_not_top_noop : forall ismc be s c o,
  (o = MRemove c \/ o = MLeave c) -> last_opt s <> Some c ->
  exists e, money_step ismc be s o = (s, RErr e) /\
            (s = [] -> e = EIndexError) /\ (s <> [] -> e = EValueError).
Proof. exact remove_not_top_noop. Qed.
Print Assumptions C12_remove_not_top_noop.

Theorem C12_remove_top_pops : forall ismc be s c o,
  (o = MRemove c \/ o = MLeave c) -> last_opt s = Some c ->
  money_step ismc be s o = (removelast s, RNone) /\
  listing (removelast s) = tl (listing s).
Proof. exact remove_top_pops. Qed.
Print Assumptions C12_remove_top_pops.

(* Every program built from with-blocks (arbitrary nesting and sequencing,
   conversions that may raise, raise statements, try/except) leaves the
   registry exactly as it found it — whether it ends normally or by an
   exception. *)
Theorem C12_balanced_restores : forall ismc be p s,
  blocks_only p = true -> exec_state ismc be p s = s.
Proof. exact balanced_restores. Qed.
Print Assumptions C12_balanced_restores.

(* hence every later call (conversion, listing, registration, ...) behaves as
   before the first block was entered *)
Theorem C12_balanced_restores_behaviour : forall ismc be p s o,
  blocks_only p = true ->
  money_step ismc be (exec_state ismc be p s) o = money_step ismc be s o.
Proof. exact balanced_restores_behaviour. Qed.
Print Assumptions C12_balanced_restores_behaviour.

(* one block: body runs with the entered converter on top; __exit__ does not
   raise; log and outcome (incl. a propagating exception) are the body's *)
Theorem C12_block_exec : forall ismc be c body s,
  ismc c = true -> blocks_only body = true ->
  exec ismc be (PBlock c body) s =
  (s, exec_log ismc be body (s ++ [c]), exec_outcome ismc be body (s ++ [c])).
Proof. exact block_exec. Qed.
Print Assumptions C12_block_exec.

Theorem C12_entered_is_used : forall be s c a f u,
  money_convert be (s ++ [c]) a f u = spec_convert be (Some c) a f u.
Proof. exact money_entered_is_used. Qed.
Print Assumptions C12_entered_is_used.

(* ------------------------------------------------------ other quantity types *)

Theorem C12_generic_idempotent_register : forall s c,
  (In c s -> gen_register s c = (s, RNone)) /\
  gen_register (fst (gen_register s c)) c = gen_register s c.
Proof. exact gen_idempotent_register. Qed.
Print Assumptions C12_generic_idempotent_register.

(* converting between different units: the amount comes from the most
   recently registered converter that returns one (all later registered ones
   returned None) ... *)
Theorem C12_generic_most_recent_first : forall be s a f u x,
  f <> u ->
  (gen_convert be s a f u = RAmt x <->
   exists older c newer, s = older ++ c :: newer /\
        conv_apply (be c) a f u = Some x /\
        forall d, In d newer -> conv_apply (be d) a f u = None).
Proof. exact gen_most_recent_first. Qed.
Print Assumptions C12_generic_most_recent_first.

(* ... and UnitConversionError is raised iff every registered converter
   returns None *)
Theorem C12_generic_none_raises : forall be s a f u,
  f <> u ->
  (gen_convert be s a f u = RErr EUnitConversion <->
   forall d, In d s -> conv_apply (be d) a f u = None).
Proof. exact gen_none_raises. Qed.
Print Assumptions C12_generic_none_raises.

Theorem C12_generic_remove_restores : forall be s c o,
  ~ In c s ->
  gen_remove (fst (gen_register s c)) c = (s, RNone) /\
  gen_step be (fst (gen_remove (fst (gen_register s c)) c)) o = gen_step be s o.
Proof. exact gen_remove_restores_full. Qed.
Print Assumptions C12_generic_remove_restores.

(* also with later registrations in between: the registry is the one in
   which the converter was never registered *)
Theorem C12_generic_remove_as_never_registered : forall s c l,
  ~ In c s -> gen_remove (s ++ c :: l) c = (s ++ l, RNone).
Proof. exact gen_remove_as_never_registered. Qed.
Print Assumptions C12_generic_remove_as_never_registered.

Theorem C12_generic_remove_absent : forall s c,
  ~ In c s -> gen_remove s c = (s, RErr EValueError).
Proof. exact gen_remove_absent. Qed.
Print Assumptions C12_generic_remove_absent.

Theorem C12_generic_no_duplicates : forall be ops s,
  NoDup s -> NoDup (fst (gen_run be s ops)).
Proof. exact gen_run_NoDup. Qed.
Print Assumptions C12_generic_no_duplicates.

(* ---------------------------------------------------------------- examples
   (non-vacuity: the hypotheses are satisfiable and the machine moves) *)

(* units 0 1 2; converter 0: 0->1 at 5/4 and 0->2 at 1/2; converter 1: 0->1 at 2;
   converter 2 has no rate 0->1; 3 is not a MoneyConverter *)
Definition ex_be : benv := fun c =>
  match c with
  | 0%N => [((0%N, 1%N), (5 # 4, 0%Q)); ((0%N, 2%N), (1 # 2, 0%Q))]
  | 1%N => [((0%N, 1%N), (2 # 1, 0%Q))]
  | 2%N => [((1%N, 0%N), (4 # 5, 0%Q))]
  | _ => []
  end.
Definition ex_ismc (c : N) : bool := N.ltb c 3.

Example C12_ex_sequence :
  money_run ex_ismc ex_be []
    [MConvert 10 0 1; MRemove 0; MEnter 0; MConvert 10 0 1; MRegister 1;
     MConvert 10 0 1; MConvert 10 0 2; MRemove 0; MRegister 3; MList; MLeave 1;
     MConvert 10 0 1; MEnter 2; MConvert 10 0 1; MRemove 2; MRemove 1; MLeave 0; MList]%N
  = ([], [RErr EUnitConversion; RErr EIndexError; RNone; RAmt (25 # 2); RNone;
          RAmt 20; RErr EUnitConversion; RErr EValueError; RErr ETypeError;
          RList [1; 0]%N; RNone;
          RAmt (25 # 2); RNone; RErr EUnitConversion; RNone; RErr EValueError;
          RNone; RList []]).
Proof. vm_compute. reflexivity. Qed.

(* nested blocks left by an exception: registry restored, exception propagates,
   the conversion afterwards is as before *)
Definition ex_prog : prog :=
  PSeq (POp (MConvert 10 0 1))
  (PSeq (PTry (PBlock 0 (PSeq (POp (MConvert 10 0 1))
                         (PBlock 1 (PSeq (POp (MConvert 10 0 1))
                                    (PSeq (PConvertU 10 0 2)      (* raises *)
                                          (POp (MConvert 10 0 1))))))))
        (PSeq (POp (MConvert 10 0 1)) (PBlock 2 (PRaise EKeyError))))%N.

Example C12_ex_blocks :
  blocks_only ex_prog = true /\
  exec ex_ismc ex_be ex_prog [] =
    ([], [RErr EUnitConversion; RAmt (25 # 2); RAmt 20; RErr EUnitConversion;
          RErr EUnitConversion], Raised EKeyError).
Proof. vm_compute. split; reflexivity. Qed.

(* a direct registration inside a block is NOT a block program: __exit__
   raises and the registry stays changed — the hypothesis of
   C12_balanced_restores is needed *)
Example C12_ex_unbalanced :
  exec ex_ismc ex_be (PBlock 0 (POp (MRegister 1))) []%N
  = ([0; 1]%N, [RNone], Raised EValueError).
Proof. vm_compute. reflexivity. Qed.

(* the backward walk on a history, without any machine *)
Example C12_ex_active :
  active [] [(MEnter 0, RNone); (MEnter 1, RNone); (MRemove 0, RErr EValueError);
             (MEnter 2, RNone); (MLeave 2, RNone); (MLeave 1, RNone)]%N = Some 0%N
  /\ active [7%N] [(MRemove 7, RNone)]%N = None
  /\ active [7%N] [(MRemove 3, RErr EValueError)]%N = Some 7%N.
Proof. vm_compute. repeat split. Qed.

(* generic type: converter 2 is the most recent but returns None for 0->1,
   converter 1 wins over converter 0; re-registering 0 does not move it *)
Example C12_ex_generic :
  gen_run ex_be []
    [GRegister 0; GRegister 1; GRegister 2; GRegister 0; GList; GConvert 10 0 1;
     GConvert 10 0 2; GConvert 10 2 1; GRemove 1; GConvert 10 0 1; GRemove 1; GList]%N
  = ([0; 2]%N, [RNone; RNone; RNone; RNone; RList [2; 1; 0]%N; RAmt 20; RAmt 5;
                RErr EUnitConversion; RNone; RAmt (25 # 2); RErr EValueError;
                RList [2; 0]%N]).
Proof. vm_compute. reflexivity. Qed.

(* the registration functions of the model ARE the code:
   MoneyMeta.register_converter / remove_converter (MoneyConverter.__enter__ /
   __exit__ checked to delegate to them) and QuantityMeta.register_converter /
   remove_converter / registered_converters are re-translated on every run
   (Gen/ConvStackImpl.v, fail-closed translator translate/cstack.py) and equal
   the model for every stack and every converter *)
Theorem C12_model_is_translated_code : forall ismc s c,
  money_register_impl ismc s c = money_register ismc s c /\
  money_remove_impl s c = money_remove s c /\
  gen_register_impl s c = gen_register s c /\
  gen_remove_impl s c = gen_remove s c /\
  listing_impl s = listing s.
Proof.
  intros. split; [apply money_register_impl_eq|]. split; [apply money_remove_impl_eq|].
  split; [apply gen_register_impl_eq|]. split; [apply gen_remove_impl_eq | apply listing_impl_eq].
Qed.
Print Assumptions C12_model_is_translated_code.
