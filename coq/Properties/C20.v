(* Property C20 — the predefined catalogue matches SI / the international
   yard and pound / IEC and its documentation.  Statements only.

   [the_catalogue] (Gen/Catalogue.v: cat_types, cat_units, cat_temp),
   [si_prefixes] (Gen/Prefixes.v) and [doc_sections], [doc_equivs],
   [doc_formulas], [doc_nonlinear_rows] (Gen/DocTables.v) are REGENERATED
   from /repo on every run; [si_ref], [si_ref_unit], [si_quantum],
   [si_prefix_ref], [si_temperature] (Ref/SIRef.v) are the hand-written
   independent reference.  [scale_of] is the model's own computation of a
   unit's scale from the declared definitions (Model/Catalogue.v).
   The data theorems quantify over EVERY element of the generated lists
   (14 types, 113 units, 20 prefixes, 97 + 3 documentation rows, 6 + 6
   temperature entries at the time of writing — whatever the lists contain
   when the check runs). *)
From Coq Require Import ZArith QArith Qabs List Bool String.
From QV Require Import Model.Num Model.Rounding Model.Quantity Model.Catalogue
     Gen.Catalogue Gen.Prefixes Gen.DocTables Ref.SIRef
     Proofs.QuantityProofs Proofs.C13Proofs Proofs.C01Proofs Proofs.C20Proofs.

(* every unit of a type with a reference unit gets a scale (the fuelled
   computation never runs dry, never meets an unknown symbol or a zero
   factor); units of a type without reference unit have none *)
Theorem C20_scales_defined : forall u, In u cat_units ->
  exists t, In t cat_types /\ ct_name t = cu_cls u /\
            (ct_ref t <> None <-> scale_of the_catalogue u <> None).
Proof. exact scales_defined. Qed.
Print Assumptions C20_scales_defined.

(* EVERY catalogue unit: the reference knows it under the same quantity type
   and the computed scale is exactly the SI / yard-pound / IEC value — or it
   is one of the three temperature units, which have no scale *)
Theorem C20_scales : forall u, In u cat_units ->
  match si_lookup si_ref (cu_sym u) with
  | Some (t, q) => t = cu_cls u /\ exists s, scale_of the_catalogue u = Some s /\ s == q
  | None => In (cu_sym u) si_temp_units /\ scale_of the_catalogue u = None
  end.
Proof. exact scales_match. Qed.
Print Assumptions C20_scales.

(* conversely: every unit of the reference exists in the catalogue with that
   type, the reference units are the catalogue's reference units, and the
   quanta agree *)
Theorem C20_reference_complete :
  (forall s t q, In (s, (t, q)) si_ref ->
     exists u, In u cat_units /\ cu_sym u = s /\ cu_cls u = t) /\
  (forall n r, In (n, r) si_ref_unit ->
     exists t, In t cat_types /\ ct_name t = n /\ ct_ref t = Some r) /\
  (forall t, In t cat_types ->
     ct_ref t = si_lookup si_ref_unit (ct_name t) /\
     match ct_quantum t, si_lookup si_quantum (ct_name t) with
     | Some a, Some b => a == b
     | None, None => True
     | _, _ => False
     end).
Proof. exact reference_complete. Qed.
Print Assumptions C20_reference_complete.

(* for EVERY unit with a definition — also units the reference might not
   know, also reference units of derived types — the scale is the product
   along the declared definition: numeric factors and component units'
   scales, each to its exponent; compound units = product of components *)
Theorem C20_chain_consistent : forall u items,
  In u cat_units -> cu_def u = Some items ->
  exists s, scale_of the_catalogue u = Some s /\ s == items_product cat_scale items.
Proof. exact chain_consistent. Qed.
Print Assumptions C20_chain_consistent.

Theorem C20_ref_scale_one : forall u,
  In u cat_units -> is_ref the_catalogue u = true -> scale_of the_catalogue u = Some 1.
Proof. exact ref_scale_one. Qed.
Print Assumptions C20_ref_scale_one.

(* the modelled assumption behind component-wise scales, checked on the data:
   every defined unit has the dimension of its type, and reference units of
   derived types are products of reference units *)
Theorem C20_coherence : forall u, In u cat_units ->
  unit_dim_ok the_catalogue u = true /\
  (is_ref the_catalogue u = true -> ref_def_ok the_catalogue u = true).
Proof. exact coherence. Qed.
Print Assumptions C20_coherence.

(* every SI prefix of the library: symbol known to SI with that name and
   exponent, factor = 10^exponent *)
Theorem C20_prefixes : forall p, In p si_prefixes ->
  exists name e, si_lookup si_prefix_ref (p_abbr p) = Some (name, e) /\
                 e = p_exp p /\ lower_first (p_name p) = name /\
                 prefix_factor prefix_base p == (10 # 1) ^ e.
Proof. exact prefixes_match. Qed.
Print Assumptions C20_prefixes.

(* the library defines 20 of the 24 SI prefixes; missing: the 2022 additions *)
Theorem C20_prefixes_coverage :
  prefixes_missing = ["q"; "r"; "R"; "Q"]%string /\ List.length si_prefixes = 20%nat.
Proof. exact prefixes_coverage. Qed.
Print Assumptions C20_prefixes_coverage.

(* documentation, unit tables: every row's equivalent is the computed scale *)
Theorem C20_doc_tables : forall s r, In s doc_sections -> In r (ds_rows s) ->
  exists u x, In u cat_units /\ cu_sym u = dr_sym r /\ cu_cls u = ds_type s /\
              is_ref the_catalogue u = false /\
              scale_of the_catalogue u = Some x /\ x == dr_equiv r.
Proof. exact doc_rows_match. Qed.
Print Assumptions C20_doc_tables.

(* ... and nothing is missing: a section per type with the right reference
   unit, every non-reference unit tabulated under its type *)
Theorem C20_doc_complete :
  (forall t, In t cat_types ->
     exists s, In s doc_sections /\ ds_type s = ct_name t) /\
  (forall s, In s doc_sections ->
     exists t, In t cat_types /\ ct_name t = ds_type s /\ ct_ref t = ds_ref s) /\
  (forall u x, In u cat_units -> is_ref the_catalogue u = false ->
     scale_of the_catalogue u = Some x ->
     exists s r, In s doc_sections /\ ds_type s = cu_cls u /\ In r (ds_rows s) /\
                 dr_sym r = cu_sym u) /\
  (forall u, In u cat_units -> scale_of the_catalogue u = None ->
     exists n, In ((cu_cls u, cu_sym u), n) doc_nonlinear_rows).
Proof. exact doc_complete. Qed.
Print Assumptions C20_doc_complete.

(* documentation, temperature formulas: each is the registered conversion,
   for ALL amounts x *)
Theorem C20_doc_formulas : forall f x, In f doc_formulas ->
  exists u v y, view_sym the_catalogue (df_from f) = Some u /\
    view_sym the_catalogue (df_to f) = Some v /\
    equiv_amount (cat_convenv the_catalogue) (mkQty x u) v = Ok (Some y) /\
    y == (x + df_pre f) * df_factor f + df_post f.
Proof. exact doc_formulas_match. Qed.
Print Assumptions C20_doc_formulas.

(* documentation, temperature fixed points: EVERY entry equals the computed
   value (`=`) or rounds to it at the printed number of places (`≅`) *)
Theorem C20_doc_equivs : forall e, In e doc_equivs -> doc_equiv_holds e.
Proof. exact doc_equivs_match. Qed.
Print Assumptions C20_doc_equivs.

(* the registered temperature table is [K] = [°C] + 273.15 and
   [°F] = [°C] * 9/5 + 32 in all six directions, for ALL amounts *)
Theorem C20_temperature : forall su sv f o x, In ((su, sv), (f, o)) si_temperature ->
  exists u v y, view_sym the_catalogue su = Some u /\ view_sym the_catalogue sv = Some v /\
    equiv_amount (cat_convenv the_catalogue) (mkQty x u) v = Ok (Some y) /\
    y == f * x + o.
Proof. exact temperature_matches. Qed.
Print Assumptions C20_temperature.

(* ANY amount, ANY two catalogue units of one reference type, any registered
   converters, any default rounding mode: convert multiplies by exactly the
   ratio of the REFERENCE scales ([mk_amt] rounds only for a unit with a
   quantum) *)
Theorem C20_any_amount : forall ce dm a su sv t ru rv u v,
  si_lookup si_ref su = Some (t, ru) -> si_lookup si_ref sv = Some (t, rv) ->
  view_sym the_catalogue su = Some u -> view_sym the_catalogue sv = Some v ->
  exists r, convert ce dm (mkQty a u) v = Ok r /\ q_unit r = v /\
            q_amt r == mk_amt dm (a * (ru / rv)) v.
Proof. exact any_amount. Qed.
Print Assumptions C20_any_amount.

(* the 12 types without a quantum: exact *)
Theorem C20_any_amount_exact : forall ce dm a su sv t ru rv u v,
  si_lookup si_ref su = Some (t, ru) -> si_lookup si_ref sv = Some (t, rv) ->
  view_sym the_catalogue su = Some u -> view_sym the_catalogue sv = Some v ->
  si_lookup si_quantum t = None ->
  exists r, convert ce dm (mkQty a u) v = Ok r /\ q_unit r = v /\
            q_amt r == a * (ru / rv) /\ q_amt r * rv == a * ru.
Proof. exact any_amount_exact. Qed.
Print Assumptions C20_any_amount_exact.

(* the type with a quantum (DataVolume, one bit): whole numbers of quanta
   convert exactly and stay whole *)
Theorem C20_any_amount_on_grid : forall ce dm a su sv t ru rv u v k,
  si_lookup si_ref su = Some (t, ru) -> si_lookup si_ref sv = Some (t, rv) ->
  view_sym the_catalogue su = Some u -> view_sym the_catalogue sv = Some v ->
  si_lookup si_quantum t = Some k ->
  exists qu qv, u_quantum u = Some qu /\ u_quantum v = Some qv /\
    qu * ru == k /\ qv * rv == k /\
    (on_grid a qu ->
     exists r, convert ce dm (mkQty a u) v = Ok r /\ q_unit r = v /\
               q_amt r == a * (ru / rv) /\ on_grid (q_amt r) qv).
Proof. exact any_amount_on_grid. Qed.
Print Assumptions C20_any_amount_on_grid.

(* ---- non-vacuity ------------------------------------------------------------ *)
Open Scope string_scope.
Definition conv_amt (a : Q) (su sv : string) : option Q :=
  match view_sym the_catalogue su, view_sym the_catalogue sv with
  | Some u, Some v =>
      match convert (cat_convenv the_catalogue) MHEVEN (mkQty a u) v with
      | Ok r => Some (Qred (q_amt r))
      | Err _ => None
      end
  | _, _ => None
  end.

Definition conv_is (a : Q) (su sv : string) (q : Q) : bool :=
  match conv_amt a su sv with Some x => Qeq_bool x q | None => false end.

Example C20_sizes : (List.length cat_types, List.length cat_units,
                     List.length si_ref, List.length doc_equivs,
                     List.length doc_formulas) = (14, 113, 110, 6, 6)%nat.
Proof. vm_compute. reflexivity. Qed.
Example C20_doc_rows : List.length (concat (map ds_rows doc_sections)) = 97%nat.
Proof. vm_compute. reflexivity. Qed.
Example C20_premises_mi_m :
  si_lookup si_ref "mi" = Some ("Length", SIRef.mile) /\
  si_lookup si_ref "m" = Some ("Length", 1%Q) /\
  (exists u, view_sym the_catalogue "mi" = Some u) /\
  (exists v, view_sym the_catalogue "m" = Some v) /\
  si_lookup si_quantum "Length" = None.
Proof. vm_compute. repeat split; eexists; reflexivity. Qed.
Example C20_one_mile : conv_is 1 "mi" "m" (1609344 # 1000)%Q = true.
Proof. vm_compute. reflexivity. Qed.
Example C20_one_kWh : conv_is 1 "kWh" "J" (3600000 # 1)%Q = true.
Proof. vm_compute. reflexivity. Qed.
Example C20_one_inch : conv_is 1 "in" "m" (254 # 10000)%Q = true.
Proof. vm_compute. reflexivity. Qed.
Example C20_one_pound : conv_is 1 "lb" "kg" (45359237 # 100000000)%Q = true.
Proof. vm_compute. reflexivity. Qed.
Example C20_one_KiB_in_bits : conv_is 1 "KiB" "b" (8192 # 1)%Q = true.
Proof. vm_compute. reflexivity. Qed.
Example C20_boiling : conv_is 100 "°C" "°F" (212 # 1)%Q = true.
Proof. vm_compute. reflexivity. Qed.
Example C20_kWh_is_compound :
  exists u, find_unit the_catalogue "kWh" = Some u /\
            cu_def u = Some [DUnit "kW" 1; DUnit "h" 1] /\
            Qeq_bool (cat_scale "kWh") (cat_scale "kW" * cat_scale "h") = true.
Proof. eexists. vm_compute. repeat split. Qed.
Example C20_quantized_premise : si_lookup si_quantum "DataVolume" = Some (1 # 8)%Q.
Proof. reflexivity. Qed.
(* regression for the repaired finding F10: `0 °C = 273,25 K` is rejected *)
Example C20_former_bad_row_rejected :
  doc_equiv_ok the_catalogue (mkDocEquiv "°C" (Qmake 0 1) "K" (Qmake 27325 100) true 2) = false.
Proof. exact former_bad_row_rejected. Qed.
Example C20_fixed_point_now : In (mkDocEquiv "°C" (Qmake 0 1) "K" (Qmake 5463 20) true 2) doc_equivs.
Proof. vm_compute. tauto. Qed.
