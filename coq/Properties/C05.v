(* Property C05 — quantized types hold the nearest multiple of the quantum,
   rounded once.  Statements only.  Products/quotients/powers of quantities and
   exchange-rate application are covered by C02 / C10 on the registry and money
   models (same constructor choke point [mk_qty]). *)
From Coq Require Import ZArith QArith Qabs List Bool.
From QV Require Import Model.Registry Proofs.GenQuantumEq.
From QV Require Import Gen.QuantityImpl Model.Alloc Gen.AllocImpl Proofs.GenAllocEq.
From QV Require Import Model.Num Model.Rounding Model.Quantity
     Proofs.RoundingQ Proofs.QuantityProofs Proofs.C13Proofs Proofs.C01Proofs
     Proofs.C03C04Proofs Proofs.C05Proofs.

(* the constructor puts every amount on the unit's grid *)
Theorem C05_constructor_on_grid : forall dm a u qu, u_quantum u = Some qu ->
  on_grid (q_amt (mk_qty dm a u)) qu.
Proof. exact mk_on_grid. Qed.
Print Assumptions C05_constructor_on_grid.

(* ... selecting the multiple the default mode prescribes (C13's definition) *)
Theorem C05_constructor_rounds_by_mode : forall m a qu,
  exists n, round_to_quantum m a qu == inject_Z n * qu /\ RoundsToQ m (a / qu) n.
Proof. exact round_to_quantum_spec. Qed.
Print Assumptions C05_constructor_rounds_by_mode.

(* less than one quantum away; at most half under the half modes; never on the
   wrong side under the directed modes *)
Theorem C05_error_lt_quantum : forall m a qu, 0 < qu ->
  Qabs (round_to_quantum m a qu - a) < qu.
Proof. exact round_error_lt. Qed.
Print Assumptions C05_error_lt_quantum.
Theorem C05_error_le_half_quantum : forall m a qu, 0 < qu -> half_mode m = true ->
  Qabs (round_to_quantum m a qu - a) <= (1 # 2) * qu.
Proof. exact round_error_half. Qed.
Print Assumptions C05_error_le_half_quantum.
Theorem C05_floor_side : forall a qu, 0 < qu -> round_to_quantum MFLOOR a qu <= a.
Proof. exact round_floor_side. Qed.
Print Assumptions C05_floor_side.
Theorem C05_ceiling_side : forall a qu, 0 < qu -> a <= round_to_quantum MCEIL a qu.
Proof. exact round_ceiling_side. Qed.
Print Assumptions C05_ceiling_side.
Theorem C05_down_side : forall a qu, 0 < qu -> Qabs (round_to_quantum MDOWN a qu) <= Qabs a.
Proof. exact round_down_side. Qed.
Print Assumptions C05_down_side.
Theorem C05_up_side : forall a qu, 0 < qu -> Qabs a <= Qabs (round_to_quantum MUP a qu).
Proof. exact round_up_side. Qed.
Print Assumptions C05_up_side.

(* every producing operation = constructor applied to the exact result on the
   stored operands: one rounding *)
Theorem C05_operations_round_once : forall ce dm a u,
  qty_neg dm (mkQty a u) = mk_qty dm (- a) u /\
  qty_abs dm (mkQty a u) = mk_qty dm (Qabs a) u /\
  (forall k, exists x, qty_mul_num dm (mkQty a u) k = mk_qty dm x u /\ x == a * k) /\
  (forall k, ~ k == 0 -> exists x, qty_div_num dm (mkQty a u) k = Ok (mk_qty dm x u) /\ x == a / k) /\
  (forall v, lin u = true -> lin v = true -> same_cls u v = true ->
     exists x, convert ce dm (mkQty a u) v = Ok (mk_qty dm x v) /\ x == a * (scale u / scale v)) /\
  (forall sub b v, lin u = true -> lin v = true -> same_cls u v = true ->
     exists x, qty_addsub sub ce dm (mkQty a u) (mkQty b v) = Ok (mk_qty dm x u) /\
               x == pm sub a (b * (scale v / scale u))).
Proof. exact ops_round_once. Qed.
Print Assumptions C05_operations_round_once.

(* whatever sequence of operations produced it, a quantity of a quantized
   type is on its unit's grid (induction over the producing operations) *)
Theorem C05_every_produced_quantity_on_grid : forall ce dm q,
  Produced ce dm q -> forall qu, u_quantum (q_unit q) = Some qu -> on_grid (q_amt q) qu.
Proof. exact produced_on_grid. Qed.
Print Assumptions C05_every_produced_quantity_on_grid.

(* THE MODEL IS THE CODE: the statements that close Quantity.__new__ (from
   `quantum = unit.quantum` to `return qty`, the single choke point through
   which every instance is made) are re-translated from
   src/quantity/__init__.py on every run (Gen/AllocImpl.v, translate/alloc.py:
   `Decimal(x, 0)` is decimalfp's rounding to an integer under the default
   mode).  The generated function is the constructor [mk_qty] the theorems above
   are about: same unit, same value, and identical on every quantised unit. *)
Theorem C05_constructor_is_translated_code : forall dm a u,
  q_unit (mk_qty_impl dm a u) = q_unit (mk_qty dm a u) /\
  q_amt (mk_qty_impl dm a u) == q_amt (mk_qty dm a u) /\
  (forall qu, u_quantum u = Some qu -> mk_qty_impl dm a u = mk_qty dm a u).
Proof.
  intros. split; [rewrite mk_qty_impl_unit; unfold mk_qty; destruct (u_quantum u); reflexivity|].
  split; [apply mk_qty_impl_value|].
  intros qu H. rewrite (mk_qty_impl_eq dm a u), H. reflexivity.
Qed.
Print Assumptions C05_constructor_is_translated_code.

(* ... and the per-unit quantum that the constructor divides by: Unit.quantum is
   re-translated on every run and is the quantum of the unit views the directory
   model hands to the quantity layer — the quantum of the unit's type divided by
   the unit's scale (the code's assertion "a type with a quantum has a reference
   unit" is the error branch) *)
Theorem C05_unit_quantum_is_translated_code : forall s u k,
  find_cls s (ru_cls u) = Some k -> ru_sf u = None ->
  match unit_quantum_impl (rc_quantum k) (view s u) with
  | Ok o => u_quantum (view s u) = o
  | Err _ => u_quantum (view s u) = None
  end.
Proof. exact view_quantum_is_translated_code. Qed.
Print Assumptions C05_unit_quantum_is_translated_code.

(* ... and so are the unary operators: abs() and negation build their result
   through the constructor, + returns the operand itself *)
Theorem C05_unary_operators_are_translated_code : forall dm is_dec p,
  qty_abs_impl dm is_dec p = Ok (qty_abs dm p) /\
  qty_neg_impl dm is_dec p = Ok (qty_neg dm p) /\
  qty_pos_impl dm is_dec p = Ok p.
Proof. exact qty_unary_impl_eq. Qed.
Print Assumptions C05_unary_operators_are_translated_code.

Definition ex_kB := mkUnit 1 11 true (Some (1000 # 1)) (Some (1 # 8000)).
Example C05_one_seventh_kB :
  map (fun m => Qred (q_amt (mk_qty m (1 # 7) ex_kB))) [MHEVEN; MCEIL; MFLOOR]
  = [1143 # 8000; 1143 # 8000; 571 # 4000].
Proof. vm_compute. reflexivity. Qed.
