(* Properties/C07.v — Term algebra is an exact commutative group with a
   canonical form.  Statements only; proofs in Proofs/C07*.v.

   E : env is the element environment (norm_sort_key, is_base_elem, str,
   normalized_definition, conversion class and scale of every element);
   env_sound E are the hypotheses on it (Proofs/C07Reduce.v), decidable for a
   finite table (table_ok, C07_table_ok_sound; evaluated on the table of every
   correspondence case).  den E : term -> nform is the denotation in the
   group G = Q* x Z^(base elements) of Model/Dim.v; nf_eq is equality in G. *)
From Coq Require Import ZArith QArith List.
From QV Require Import Gen.TermOpsImpl Proofs.GenTermOpsEq.
From QV Require Import Model.Num Model.Dim Model.Term Proofs.DimProofs
     Proofs.C07Reduce Proofs.C07Shape Proofs.C07Proofs.
Import ListNotations.
Open Scope Z_scope.

(* every path of Term._reduce_items (1-item path, the 2-item fast paths, the
   general path; iterator or tuple input; keep_item_order or not) preserves
   the denoted value.  For n_items = Some 2 the real code raises ValueError
   when the input does not have exactly two items; its callers pass the true
   length. *)
Theorem C07_reduce_den : forall E, env_sound E -> forall lazy n keep l,
  nf_eq (den E (reduce_items E lazy n keep l)) (den E l).
Proof. exact reduce_den. Qed.
Print Assumptions C07_reduce_den.

Theorem C07_construct_den : forall E, env_sound E -> forall sized reduce l,
  nf_eq (den E (mk_term E sized reduce l)) (den E l).
Proof. exact mk_term_den. Qed.
Print Assumptions C07_construct_den.

(* product, quotient, number*term, term/number, number/term, reciprocal and
   integer power compute the group operation *)
Theorem C07_ops : forall E, env_sound E -> forall s t q k,
  nf_eq (den E (mul E s t)) (nf_mul (den E s) (den E t)) /\
  nf_eq (den E (div E s t)) (nf_mul (den E s) (nf_inv (den E t))) /\
  nf_eq (den E (mul_num E s q)) (nf_scale q (den E s)) /\
  nf_eq (den E (div_num E s q)) (nf_scale (/ q) (den E s)) /\
  nf_eq (den E (rdiv_num E q s)) (nf_scale q (nf_inv (den E s))) /\
  nf_eq (den E (reciprocal s)) (nf_inv (den E s)) /\
  nf_eq (den E (pow E s k)) (nf_pow (den E s) k).
Proof. exact ops_den. Qed.
Print Assumptions C07_ops.

(* terms over non-zero numbers denote elements of the group (non-zero factor,
   canonical exponent vector) — the group laws are DimProofs.nf_mul_comm,
   nf_mul_assoc, nf_mul_one_l, nf_mul_inv_r, nf_pow_add, ... *)
Theorem C07_den_in_group : forall E, env_sound E -> forall l,
  items_ok l = true -> nf_wf (den E l).
Proof. exact den_in_group. Qed.
Print Assumptions C07_den_in_group.

Theorem C07_group_laws : forall x y z, nf_wf x -> nf_wf y -> nf_wf z ->
  nf_eq (nf_mul x y) (nf_mul y x) /\
  nf_eq (nf_mul x (nf_mul y z)) (nf_mul (nf_mul x y) z) /\
  nf_eq (nf_mul nf_one x) x /\
  nf_eq (nf_mul x (nf_inv x)) nf_one.
Proof. exact group_laws. Qed.
Print Assumptions C07_group_laws.

(* normalisation preserves the denoted value *)
Theorem C07_norm_den : forall E, env_sound E -> forall t,
  nf_eq (den E (normalized E t)) (den E t).
Proof. exact norm_den. Qed.
Print Assumptions C07_norm_den.

(* the hypotheses are decidable for an environment given by a finite table *)
Theorem C07_table_ok_sound : forall tbl,
  table_ok tbl = true -> env_sound (env_of_table tbl).
Proof. exact table_ok_sound. Qed.
Print Assumptions C07_table_ok_sound.

(* normalisation yields the canonical form (Model/Term.v `canonical`): at most
   one numeric item, it is first, has exponent 1 and a value <> 1 (and <> 0);
   all other items are base elements, exponent <> 0, strictly increasing in
   (norm_sort_key, str) — hence each at most once *)
Theorem C07_norm_shape : forall E, env_sound E -> forall t,
  items_ok t = true -> canonical E (normalized E t) = true.
Proof. exact norm_shape. Qed.
Print Assumptions C07_norm_shape.

(* normalisation is idempotent: the normal form of a normal form is itself *)
Theorem C07_norm_idem : forall E, env_sound E -> forall t,
  items_ok t = true -> normalized E (normalized E t) = normalized E t.
Proof. exact norm_idem. Qed.
Print Assumptions C07_norm_idem.

(* two terms are equal (==) exactly when they denote the same rational factor
   and the same exponent for every base element (both directions) *)
Theorem C07_eq_iff_den : forall E, env_sound E -> forall s t,
  items_ok s = true -> items_ok t = true ->
  (term_eqb E s t = true <-> nf_eq (den E s) (den E t)).
Proof. exact eq_iff_den. Qed.
Print Assumptions C07_eq_iff_den.

(* equal terms hash equal: what __hash__ hashes (the items of the normal
   form, numbers by value) is the same list *)
Theorem C07_hash : forall E, env_sound E -> forall s t,
  items_ok s = true -> term_eqb E s t = true -> hash_key E s = hash_key E t.
Proof. exact eq_hash. Qed.
Print Assumptions C07_hash.

(* no operation introduces an inexact number: a typing fact of the model —
   every numeric element of every term is a ratio of integers (there is no
   float in the model; its tie to the code is the correspondence, where an
   observed float is the marker TFloat that never equals a model result) *)
Theorem C07_exact : forall (E : env) (t : term),
  Forall exact_item (normalized E t) /\ forall s k, Forall exact_item (pow E (mul E s t) k).
Proof. exact exact_ops. Qed.
Print Assumptions C07_exact.

(* ---- the hypotheses are satisfiable: metre, kilometre, second, km/h, EUR, USD ---- *)
Definition ex_table : list (N * elem_info) :=
  [ (0%N, mkInfo 2 true  [109%N] [(El 0%N, 1)] 2%N (Some 1%Q));                        (* m *)
    (1%N, mkInfo 2 false [107%N; 109%N] [(Num (1000 # 1), 1); (El 0%N, 1)] 2%N (Some (1000 # 1)));  (* km *)
    (2%N, mkInfo 3 true  [115%N] [(El 2%N, 1)] 3%N (Some 1%Q));                        (* s *)
    (3%N, mkInfo 6 false [107%N; 109%N; 47%N; 104%N]
              [(Num (5 # 18), 1); (El 0%N, 1); (El 2%N, -1)] 6%N (Some (5 # 18)));     (* km/h *)
    (4%N, mkInfo 15 true [69%N; 85%N; 82%N] [(El 4%N, 1)] 15%N None);                  (* EUR *)
    (5%N, mkInfo 15 true [85%N; 83%N; 68%N] [(El 5%N, 1)] 15%N None) ].                (* USD *)

(* THE MODEL IS THE CODE (operator layer): Term.__mul__ / __rmul__, __truediv__,
   __rtruediv__, __pow__, reciprocal and _reciprocal are re-translated from
   src/quantity/term.py on every run (Gen/TermOpsImpl.v, fail-closed ast translator
   translate/termops.py: which item lists are chained in which order, which operand
   is inverted, the item a number contributes, the length handed to _reduce_items,
   the exponent arithmetic, whether the constructor reduces again) and are equal,
   for every element table and all operands, to the operations the theorems above
   are about.  _reduce_items, __init__, normalized, __eq__ and __hash__ stay
   hand-modelled (Model/Term.v) and are tied to the code by the correspondence. *)
Theorem C07_operators_are_translated_code : forall (E : env) (s t : term) (q : Q) (k : Z),
  term_mul_impl E s t = Some (mul E s t) /\
  term_mul_num_impl E s q = Some (mul_num E s q) /\
  term_div_impl E s t = Some (div E s t) /\
  term_div_num_impl E s q = Some (div_num E s q) /\
  term_rdiv_num_impl E s q = Some (rdiv_num E q s) /\
  term_pow_impl E s k = Some (pow E s k) /\
  term_reciprocal_impl E s = Some (reciprocal s).
Proof. exact term_ops_impl_eq. Qed.
Print Assumptions C07_operators_are_translated_code.

Example C07_hypotheses_satisfiable : table_ok ex_table = true.
Proof. vm_compute. reflexivity. Qed.

Example C07_env_sound_example : env_sound (env_of_table ex_table).
Proof. apply C07_table_ok_sound. exact C07_hypotheses_satisfiable. Qed.

(* km * km/h / s  normalises to  (2500/9) m^2 s^-2;  USD*EUR == EUR*USD *)
Example C07_example_norm :
  normalized (env_of_table ex_table)
    (mk_term (env_of_table ex_table) true true [(El 1%N, 1); (El 3%N, 1); (El 2%N, -1)])
  = [(Num (2500 # 9), 1); (El 0%N, 2); (El 2%N, -2)]
  /\ term_eqb (env_of_table ex_table) [(El 5%N, 1); (El 4%N, 1)] [(El 4%N, 1); (El 5%N, 1)] = true
  /\ term_eqb (env_of_table ex_table) [(El 1%N, 1)] [(Num (1000 # 1), 1); (El 0%N, 1)] = true
  /\ term_eqb (env_of_table ex_table) [(El 4%N, 1)] [(El 5%N, 1)] = false.
Proof. vm_compute. repeat split. Qed.
