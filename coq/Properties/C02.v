(* Property C02 — products, quotients and powers respect dimensions and scales.
   Statements only.

   [Reach dm s]: s is the directory reached from the initial one by ANY finite
   history of declarations of types and units (each satisfying [guard]: numeric
   factors non-zero; a definition in a type with reference unit refers to units
   that have a scale; an explicit reference symbol for a derived type
   presupposes reference units of the types of its definition).
   [val_ok s x (f, w)]: f * (definition of unit w) denotes exactly x in the
   group of values (rational factor x exponent of every base unit); for
   w = None: x is dimensionless and f is its factor.
   [opnf KMul u v] / [opnf KDiv u v]: product / quotient of the units' values.
   [build s dm amt (f, w)]: the plain number amt * f when w = None, otherwise the
   quantity constructed ONCE (constructor mk_qty: one rounding for quantized
   types) from the amount amt * f and the unit w. *)
From Coq Require Import ZArith QArith Qabs List Bool.
From QV Require Import Model.Num Model.Rounding Model.Quantity Model.Dim Model.Registry
     Proofs.QuantityProofs Proofs.DimProofs Proofs.DimPush Proofs.RegistryProofs
     Proofs.DirectoryProofs Proofs.DimInv Proofs.C02Proofs Proofs.C02Dim Proofs.C02Undef
     Gen.QuantityImpl Gen.OpsImpl Proofs.GenOpsEq.

(* resolution of a term against the directory: what it returns denotes the term *)
Theorem C02_resolve_sound : forall dm s x r,
  Reach dm s -> resolve s x = Some r -> val_ok s x r.
Proof. intros dm s x r R. apply resolve_sound. apply (Reach_inv dm s R). Qed.
Print Assumptions C02_resolve_sound.

(* ... and it fails precisely when no registered unit is defined by the term
   or by the term without its numeric factor *)
Theorem C02_undefined_iff : forall s x,
  resolve s x = None <->
  nf_dim x <> [] /\
  (forall k w, In (k, w) (st_termmap s) -> ~ nf_eq k x /\ ~ nf_eq k (mkNf 1 (nf_dim x))).
Proof. exact resolve_none_iff. Qed.
Print Assumptions C02_undefined_iff.

(* quantity * quantity *)
Theorem C02_mul_quantities : forall dm s (R : Reach dm s) a u b v ru rv s' r,
  find_unit s u = Some ru -> find_unit s v = Some rv ->
  op_mul s dm (MQ a u) (MQ b v) = (s', Ok r) ->
  exists fw, unit_mul s ru rv = (s', Ok fw) /\ val_ok s' (opnf KMul ru rv) fw /\
             build s dm (qmul a b) fw = Ok r /\ Inv s'.
Proof. exact R_mul_qq. Qed.
Print Assumptions C02_mul_quantities.

Theorem C02_mul_quantity_unit : forall dm s (R : Reach dm s) a u v ru rv s' r,
  find_unit s u = Some ru -> find_unit s v = Some rv ->
  op_mul s dm (MQ a u) (MU v) = (s', Ok r) ->
  exists fw, unit_mul s ru rv = (s', Ok fw) /\ val_ok s' (opnf KMul ru rv) fw /\
             build s dm a fw = Ok r.
Proof. exact R_mul_qu. Qed.
Print Assumptions C02_mul_quantity_unit.

Theorem C02_mul_unit_quantity : forall dm s (R : Reach dm s) u b v ru rv s' r,
  find_unit s u = Some ru -> find_unit s v = Some rv ->
  op_mul s dm (MU u) (MQ b v) = (s', Ok r) ->
  exists fw, unit_mul s ru rv = (s', Ok fw) /\ val_ok s' (opnf KMul ru rv) fw /\
             build s dm b fw = Ok r.
Proof. exact R_mul_uq. Qed.
Print Assumptions C02_mul_unit_quantity.

Theorem C02_mul_units : forall dm s (R : Reach dm s) u v ru rv s' r,
  find_unit s u = Some ru -> find_unit s v = Some rv ->
  op_mul s dm (MU u) (MU v) = (s', Ok r) ->
  exists fw, r = MPair (fst fw) (snd fw) /\ val_ok s' (opnf KMul ru rv) fw.
Proof. exact R_mul_uu. Qed.
Print Assumptions C02_mul_units.

(* a product fails only with UndefinedResultError, exactly when the resolution
   finds no unit, and the directory (cache included) is unchanged *)
Theorem C02_mul_undefined : forall s dm x y s' e,
  op_mul s dm x y = (s', Err e) ->
  e = EOther \/
  (s' = s /\ e = EUndefinedResult /\
   exists ru rv, resolve s (nf_mul (ru_nf ru) (ru_nf rv)) = None).
Proof. exact mul_undefined. Qed.
Print Assumptions C02_mul_undefined.

(* quotients across types; unit / quantity divides by the amount *)
Theorem C02_div_quantities : forall dm s ce (R : Reach dm s) a u b v ru rv s' r,
  find_unit s u = Some ru -> find_unit s v = Some rv -> ru_cls ru <> ru_cls rv ->
  op_div s dm ce (MQ a u) (MQ b v) = (s', Ok r) ->
  ~ b == 0 /\
  exists fw, unit_div s ru rv = (s', Ok fw) /\ val_ok s' (opnf KDiv ru rv) fw /\
             build s dm (qdiv a b) fw = Ok r.
Proof. exact R_div_qq. Qed.
Print Assumptions C02_div_quantities.

Theorem C02_div_unit_quantity : forall dm s ce (R : Reach dm s) u b v ru rv s' r,
  find_unit s u = Some ru -> find_unit s v = Some rv ->
  op_div s dm ce (MU u) (MQ b v) = (s', Ok r) ->
  ~ b == 0 /\
  exists fw, unit_div s ru rv = (s', Ok fw) /\ val_ok s' (opnf KDiv ru rv) fw /\
             mk_result s dm (qdiv (fst fw) b) (snd fw) = Ok r.
Proof. exact R_div_uq. Qed.
Print Assumptions C02_div_unit_quantity.

(* unit / unit in every reachable directory (same type: ratio of the scales and
   the dimensions cancel; other type: resolution) *)
Theorem C02_div_units : forall s u v s' r,
  Inv s -> find_unit s (ru_id u) = Some u -> find_unit s (ru_id v) = Some v ->
  unit_div s u v = (s', Ok r) ->
  val_ok s' (opnf KDiv u v) r /\ Inv s' /\ st_units s' = st_units s /\
  st_termmap s' = st_termmap s /\ st_classes s' = st_classes s.
Proof. exact unit_div_sound. Qed.
Print Assumptions C02_div_units.

(* powers and reflected division: amount^k (resp. k / amount) times the factor,
   rounded once *)
Theorem C02_pow_quantity : forall dm s (R : Reach dm s) a u ru k r,
  find_unit s u = Some ru -> k <> 0%Z -> k <> 1%Z ->
  op_pow s dm (MQ a u) k = Ok r ->
  exists fw, unit_pow s ru k = Ok fw /\ val_ok s (nf_pow (ru_nf ru) k) fw /\
             build s dm (qpow a k) fw = Ok r.
Proof. exact R_pow_q. Qed.
Print Assumptions C02_pow_quantity.

Theorem C02_number_div_quantity : forall dm s ce (R : Reach dm s) k a u ru s' r,
  find_unit s u = Some ru ->
  op_div s dm ce (MN k) (MQ a u) = (s', Ok r) ->
  s' = s /\ ~ a == 0 /\
  exists fw, unit_pow s ru (-1) = Ok fw /\ val_ok s (nf_pow (ru_nf ru) (-1)) fw /\
             build s dm (qdiv k a) fw = Ok r.
Proof. exact R_rdiv_nq. Qed.
Print Assumptions C02_number_div_quantity.

(* what [build] produces: the plain exact number when the dimensions cancel,
   otherwise ONE application of the constructor *)
Theorem C02_cancel_gives_number : forall s dm amt fw k,
  build s dm amt fw = Ok (MNum k) -> snd fw = None /\ k == amt * fst fw.
Proof. exact build_num. Qed.
Print Assumptions C02_cancel_gives_number.

Theorem C02_result_constructed_once : forall s dm amt fw q,
  build s dm amt fw = Ok (MQty q) ->
  exists w wu, snd fw = Some w /\ find_unit s w = Some wu /\
               q = mk_qty dm (qmul amt (fst fw)) (view s wu).
Proof. exact build_qty. Qed.
Print Assumptions C02_result_constructed_once.

(* a plain number scales the amount and keeps type and unit *)
Theorem C02_scalar : forall s dm ce a u ru k,
  find_unit s u = Some ru ->
  op_mul s dm (MQ a u) (MN k) = (s, Ok (MQty (mk_qty dm (qmul a k) (view s ru)))) /\
  op_mul s dm (MN k) (MQ a u) = (s, Ok (MQty (mk_qty dm (qmul a k) (view s ru)))) /\
  (~ k == 0 -> op_div s dm ce (MQ a u) (MN k)
               = (s, Ok (MQty (mk_qty dm (qdiv a k) (view s ru))))).
Proof. exact scalar_keeps_unit. Qed.
Print Assumptions C02_scalar.

(* the quantity type of the result has EXACTLY the combined dimension: the
   dimension (over base types) of the result unit's type is the product /
   quotient / power of the operands' types' dimensions ([rc_dim]: exponent of
   every base type; one type per dimension by C15_one_class_per_dimension) *)
Theorem C02_result_type_has_combined_dimension : forall dm s (o : opk) u v r w wu cu cv cw,
  Reach dm s -> In u (st_units s) -> In v (st_units s) ->
  val_ok s (opnf o u v) r -> snd r = Some w -> find_unit s w = Some wu ->
  find_cls s (ru_cls u) = Some cu -> find_cls s (ru_cls v) = Some cv ->
  find_cls s (ru_cls wu) = Some cw ->
  rc_dim cw = match o with
              | KMul => dv_mul (rc_dim cu) (rc_dim cv)
              | KDiv => dv_mul (rc_dim cu) (dv_inv (rc_dim cv))
              end.
Proof. exact R_result_type. Qed.
Print Assumptions C02_result_type_has_combined_dimension.

Theorem C02_power_type_has_combined_dimension : forall dm s u k r w wu cu cw,
  Reach dm s -> In u (st_units s) ->
  val_ok s (nf_pow (ru_nf u) k) r -> snd r = Some w -> find_unit s w = Some wu ->
  find_cls s (ru_cls u) = Some cu -> find_cls s (ru_cls wu) = Some cw ->
  rc_dim cw = dv_scale k (rc_dim cu).
Proof. exact R_result_type_pow. Qed.
Print Assumptions C02_power_type_has_combined_dimension.

(* UndefinedResultError only when no declared type (with reference unit) —
   resp. no declared unit — corresponds to the dimension: if the reference unit
   of a declared type has the result's dimension, or a unit is defined by the
   result's term without numeric factor, the resolution succeeds *)
Theorem C02_defined_if_type_declared : forall dm s x c r ru,
  Reach dm s -> In c (st_classes s) -> rc_ref c = Some r -> find_unit s r = Some ru ->
  nf_dim x = nf_dim (ru_nf ru) -> resolve s x <> None.
Proof. exact R_defined_if_type_declared. Qed.
Print Assumptions C02_defined_if_type_declared.

Theorem C02_defined_if_unit_declared : forall dm s x u,
  Reach dm s -> In u (st_units s) -> nf_eq (ru_nf u) (mkNf 1 (nf_dim x)) -> resolve s x <> None.
Proof. exact R_defined_if_unit_declared. Qed.
Print Assumptions C02_defined_if_unit_declared.

(* ... and CONVERSELY: when no declared quantity type has the combined
   dimension, no registered unit can be defined by the product / quotient, so
   the resolution fails (UndefinedResultError) — "precisely when" *)
Theorem C02_mul_undefined_if_no_type : forall dm s u v cu cv,
  Reach dm s -> In u (st_units s) -> In v (st_units s) ->
  find_cls s (ru_cls u) = Some cu -> find_cls s (ru_cls v) = Some cv ->
  nf_dim (nf_mul (ru_nf u) (ru_nf v)) <> [] ->
  (forall c, In c (st_classes s) -> rc_dim c <> dv_mul (rc_dim cu) (rc_dim cv)) ->
  resolve s (nf_mul (ru_nf u) (ru_nf v)) = None.
Proof. exact R_mul_undefined_if_no_type. Qed.
Print Assumptions C02_mul_undefined_if_no_type.

Theorem C02_div_undefined_if_no_type : forall dm s u v cu cv,
  Reach dm s -> In u (st_units s) -> In v (st_units s) ->
  find_cls s (ru_cls u) = Some cu -> find_cls s (ru_cls v) = Some cv ->
  nf_dim (nf_mul (ru_nf u) (nf_inv (ru_nf v))) <> [] ->
  (forall c, In c (st_classes s) -> rc_dim c <> dv_mul (rc_dim cu) (dv_inv (rc_dim cv))) ->
  resolve s (nf_mul (ru_nf u) (nf_inv (ru_nf v))) = None.
Proof. exact R_div_undefined_if_no_type. Qed.
Print Assumptions C02_div_undefined_if_no_type.

(* the operators the theorems above are about ARE the code: Unit.__mul__,
   __truediv__, __rtruediv__, _pow, __pow__ and Quantity.__mul__, __truediv__,
   __rtruediv__, __pow__ of src/quantity/__init__.py are re-translated on every
   run, once per kind of second operand (Gen/OpsImpl.v, fail-closed translator
   translate/oplayer.py), and — combined by Python's operator dispatch
   (mul_code, div_code, pow_code in Proofs/GenOpsEq.v) — are equal to the model's
   operators on every state, every cache content and all operands *)
Theorem C02_model_is_translated_code : forall s dm ce,
  (forall u v, unit_mul_impl s u v = unit_mul s u v) /\
  (forall u v, unit_div_impl s u v = unit_div s u v) /\
  (forall u k, unit_pow_impl s u k = (s, unit_pow s u k)) /\
  (forall x y, op_mul s dm x y = mul_code s dm ce x y) /\
  (forall x y, op_div s dm ce x y = div_code s dm ce x y) /\
  (forall x k, op_pow s dm x k = pow_code s dm ce x k).
Proof.
  intros s dm ce. split; [exact (unit_mul_impl_eq s)|]. split; [exact (unit_div_impl_eq s)|].
  split; [exact (unit_pow_impl_eq s)|]. split; [exact (op_mul_is_code s dm ce)|].
  split; [exact (op_div_is_code s dm ce) | exact (op_pow_is_code s dm ce)].
Qed.
Print Assumptions C02_model_is_translated_code.

(* a float operand is taken at its exact value *)
Theorem C02_float_operands_like_rationals : forall s dm ce,
  (forall u k, U_mul_real s dm ce u k = U_mul_num s dm ce u k) /\
  (forall u k, U_div_real s dm ce u k = U_div_num s dm ce u k) /\
  (forall u k, U_rdiv_real s dm ce u k = U_rdiv_num s dm ce u k) /\
  (forall a u k, Q_mul_real s dm ce a u k = Q_mul_num s dm ce a u k) /\
  (forall a u k, Q_div_real s dm ce a u k = Q_div_num s dm ce a u k) /\
  (forall a u k, Q_rdiv_real s dm ce a u k = Q_rdiv_num s dm ce a u k).
Proof. exact real_operands_like_rationals. Qed.
Print Assumptions C02_float_operands_like_rationals.

(* non-vacuity: a reachable directory with Length (m, km = 1000 m) and
   Area = Length**2 (reference unit m2): 3 km * 2 km = 6 000 000 m2 *)
Definition ex_script : list decl :=
  [DeclClass 1 None (Some 1%N) 0%N None false;
   NewUnit 1 2 (DQty (1000 # 1) 1);
   DeclClass 2 (Some [(1%N, 2%Z)]) None 3%N None false].
Example C02_example_reachable : guarded MHEVEN init ex_script = true.
Proof. vm_compute. reflexivity. Qed.
Example C02_example_product :
  match snd (op_mul (run MHEVEN init ex_script) MHEVEN (MQ 3 2) (MQ 2 2)) with
  | Ok (MQty q) => N.eqb (u_id (q_unit q)) 3 && Qeq_bool (q_amt q) (6000000 # 1)
  | _ => false
  end = true.
Proof. vm_compute. reflexivity. Qed.
