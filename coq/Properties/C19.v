(* Property C19 — objects that compare equal hash equal.  Statements only.
   Hash keys (Model/Hash.v) are the data the implementation hands to Python's
   hash(); [hk_eqb] identifies equal rationals and identical objects (assumption:
   Python hashes equal numbers and identical objects equally — sampled by the
   correspondence on every run). *)
From Coq Require Import ZArith QArith Qabs List Bool.
From QV Require Import Model.Num Model.Rounding Model.Quantity Model.Rates Model.Hash
     Model.Dim Model.Term Proofs.QuantityProofs Proofs.C19Proofs Proofs.C07Sem Proofs.C07Reduce
     Proofs.C07Shape Proofs.C07Canon Proofs.C07Proofs
     Model.Registry Proofs.DirectoryProofs Proofs.C02Proofs Proofs.ViewInv Gen.HashImpl Proofs.GenHashEq.

(* quantities: across different units of their type (1 km and 1000 m), decimal
   or fraction amounts alike (amounts are rationals); no converter registered *)
Theorem C19_quantities : forall ce p q,
  view_ok (q_unit p) -> view_ok (q_unit q) -> id_determines (q_unit p) (q_unit q) ->
  (forall s, u_scale (q_unit p) = Some s -> ~ s == 0) ->
  ce (u_cls (q_unit q)) = [] ->
  qty_eq ce p q = Ok true -> hk_eqb (qty_hash p) (qty_hash q) = true.
Proof. exact qty_eq_hash. Qed.
Print Assumptions C19_quantities.

(* the same statement for quantities related only through a registered
   converter is FALSE on the faithful model (known finding C19-converter-equal):
   their equality depends on mutable global state *)
Theorem C19_converter_equal_refuted :
  exists ce p q, qty_eq ce p q = Ok true /\ hk_eqb (qty_hash p) (qty_hash q) = false.
Proof. exact converter_equal_hash_refuted. Qed.
Print Assumptions C19_converter_equal_refuted.

(* units of one type with the same scale *)
Theorem C19_units : forall u v,
  view_ok u -> view_ok v -> unit_eq u v = Ok true -> hk_eqb (unit_hash u) (unit_hash v) = true.
Proof. exact unit_eq_hash. Qed.
Print Assumptions C19_units.

(* terms *)
Theorem C19_terms : forall E, env_sound E -> forall s t,
  items_ok s = true -> term_eqb E s t = true -> hash_key E s = hash_key E t.
Proof. exact eq_hash. Qed.
Print Assumptions C19_terms.

(* exchange rates *)
Theorem C19_rates : forall a b, rate_eqb a b = true -> hk_eqb (rate_hash a) (rate_hash b) = true.
Proof. exact rate_eq_hash. Qed.
Print Assumptions C19_rates.

(* the hash keys of the model ARE what the code hands to hash(): Unit.__hash__,
   Quantity.__hash__ and ExchangeRate.__hash__ (with quotation, rate) are
   re-translated on every run (Gen/HashImpl.v, fail-closed translator
   translate/hashes.py).  The code tests only whether the unit has a scale; the
   model also asks for the type's reference unit; they agree wherever a scale
   exists only in types with a reference unit, which holds for the views of every
   unit of every reachable directory *)
Theorem C19_model_is_translated_code :
  (forall u, scale_needs_ref u -> unit_hash_impl u = unit_hash u) /\
  (forall p, scale_needs_ref (q_unit p) -> qty_hash_impl p = qty_hash p) /\
  (forall r, rate_hash_impl r = rate_hash r).
Proof.
  split; [exact unit_hash_impl_eq|]. split; [exact qty_hash_impl_eq | exact rate_hash_impl_eq].
Qed.
Print Assumptions C19_model_is_translated_code.

Theorem C19_translated_code_in_every_reachable_directory : forall dm s u a,
  Reach dm s -> In u (st_units s) ->
  unit_hash_impl (view s u) = unit_hash (view s u) /\
  qty_hash_impl (mkQty a (view s u)) = qty_hash (mkQty a (view s u)).
Proof.
  intros dm s u a R Iu.
  assert (H : scale_needs_ref (view s u)).
  { intros Hs. assert (L : lin (view s u) = true) by (apply (view_lin dm s u R Iu); exact Hs).
    unfold lin in L. apply andb_true_iff in L. exact (proj1 L). }
  split; [apply unit_hash_impl_eq, H | apply qty_hash_impl_eq, H].
Qed.
Print Assumptions C19_translated_code_in_every_reachable_directory.

(* non-vacuity: 1 km == 1000 m with equal keys *)
Definition ex_km := mkUnit 2 3 true (Some (1000 # 1)) None.
Definition ex_m := mkUnit 1 3 true (Some (1 # 1)) None.
Example C19_km_m :
  qty_eq (fun _ => []) (mkQty 1 ex_km) (mkQty (1000 # 1) ex_m) = Ok true /\
  hk_eqb (qty_hash (mkQty 1 ex_km)) (qty_hash (mkQty (1000 # 1) ex_m)) = true /\
  hk_eqb (qty_hash (mkQty 1 ex_km)) (qty_hash (mkQty (1 # 1) ex_m)) = false.
Proof. vm_compute. repeat split. Qed.
