(* Property C01 — unit conversion within a quantity type is exact and coherent.
   Statements only.  [lin u]: u belongs to a type with reference unit and has
   a non-zero scale; [scale u] is the unit's scale; how declarations produce
   scales (product of the factors along the chain of definitions) is
   Model/Registry + C15/C20. *)
From Coq Require Import ZArith QArith Qabs List Bool.
From QV Require Import Gen.QuantityImpl Proofs.GenQuantityEq Model.Num Model.Rounding Model.Quantity Model.Dim Model.Registry
     Proofs.QuantityProofs Proofs.C13Proofs Proofs.C01Proofs Proofs.RegistryProofs
     Proofs.DirectoryProofs Proofs.C02Proofs Proofs.ViewInv.

(* target unit, and the amount multiplied by exactly the ratio of the scales
   (then the constructor, which rounds only for types with a quantum) *)
Theorem C01_factor : forall ce dm a u v,
  lin u = true -> lin v = true -> same_cls u v = true ->
  exists r, convert ce dm (mkQty a u) v = Ok r /\ q_unit r = v /\
            q_amt r == mk_amt dm (a * (scale u / scale v)) v.
Proof. exact convert_lin. Qed.
Print Assumptions C01_factor.

(* no quantum: exact, and the value in reference units is unchanged *)
Theorem C01_exact_value : forall ce dm a u v,
  lin u = true -> lin v = true -> same_cls u v = true -> u_quantum v = None ->
  exists r, convert ce dm (mkQty a u) v = Ok r /\ q_unit r = v /\
            q_amt r == a * (scale u / scale v) /\
            q_amt r * scale v == a * scale u.
Proof. exact convert_exact. Qed.
Print Assumptions C01_exact_value.

(* the converted quantity equals the original (both operand orders) *)
Theorem C01_equal : forall ce dm a u v,
  lin u = true -> lin v = true -> same_cls u v = true -> u_quantum v = None ->
  id_ok u v -> id_ok v u ->
  exists r, convert ce dm (mkQty a u) v = Ok r /\
            qty_eq ce r (mkQty a u) = Ok true /\ qty_eq ce (mkQty a u) r = Ok true.
Proof. exact convert_equal. Qed.
Print Assumptions C01_equal.

(* converting back returns the identical amount *)
Theorem C01_roundtrip : forall ce dm a u v,
  lin u = true -> lin v = true -> same_cls u v = true ->
  u_quantum u = None -> u_quantum v = None ->
  exists r r', convert ce dm (mkQty a u) v = Ok r /\ convert ce dm r u = Ok r' /\
               q_unit r' = u /\ q_amt r' == a.
Proof. exact convert_roundtrip. Qed.
Print Assumptions C01_roundtrip.

(* through any intermediate unit = directly *)
Theorem C01_via : forall ce dm a u w v,
  lin u = true -> lin w = true -> lin v = true ->
  same_cls u w = true -> same_cls u v = true ->
  u_quantum w = None -> u_quantum v = None ->
  exists r1 r2 r, convert ce dm (mkQty a u) w = Ok r1 /\ convert ce dm r1 v = Ok r2 /\
                  convert ce dm (mkQty a u) v = Ok r /\
                  q_unit r2 = v /\ q_unit r = v /\ q_amt r2 == q_amt r.
Proof. exact convert_via. Qed.
Print Assumptions C01_via.

(* types with a quantum: all units share one absolute grid, an on-grid amount
   is converted without rounding and stays on the grid *)
Theorem C01_quantized_exact : forall ce dm a u v qu qv,
  lin u = true -> lin v = true -> same_cls u v = true ->
  u_quantum u = Some qu -> u_quantum v = Some qv -> ~ qv == 0 ->
  qu * scale u == qv * scale v ->
  on_grid a qu ->
  exists r, convert ce dm (mkQty a u) v = Ok r /\ q_unit r = v /\
            q_amt r == a * (scale u / scale v) /\ on_grid (q_amt r) qv.
Proof. exact convert_quantized_exact. Qed.
Print Assumptions C01_quantized_exact.

(* another quantity type: IncompatibleUnitsError *)
Theorem C01_incompatible : forall ce dm q v,
  same_cls (q_unit q) v = false -> convert ce dm q v = Err EIncompatibleUnits.
Proof. exact convert_other_type. Qed.
Print Assumptions C01_incompatible.

(* the premises above are what every directory PRODUCES: in any directory
   reachable by declarations a unit with a scale is linear ([lin]) ... *)
Theorem C01_reachable_views_are_linear : forall dm s u,
  Reach dm s -> In u (st_units s) -> ru_equiv u <> None -> lin (view s u) = true.
Proof. exact view_lin. Qed.
Print Assumptions C01_reachable_views_are_linear.

(* ... all units of a quantized type share one absolute grid ... *)
Theorem C01_reachable_views_share_grid : forall dm s u c q e,
  Reach dm s -> In u (st_units s) -> find_cls s (ru_cls u) = Some c ->
  rc_quantum c = Some q -> ru_equiv u = Some e -> ru_sf u = None ->
  exists qu, u_quantum (view s u) = Some qu /\ qu * e == q.
Proof. exact view_shared_grid. Qed.
Print Assumptions C01_reachable_views_share_grid.

(* ... and conversion between two scaled units of one unquantized type is the
   exact ratio of their scales, the scale being what the unit's chain of
   definitions denotes (C15_scale_denotes_definition) *)
Theorem C01_in_every_reachable_directory : forall dm s ce a u v eu ev c,
  Reach dm s -> In u (st_units s) -> In v (st_units s) -> ru_cls u = ru_cls v ->
  ru_equiv u = Some eu -> ru_equiv v = Some ev ->
  find_cls s (ru_cls v) = Some c -> rc_quantum c = None -> ru_sf v = None ->
  exists r, convert ce dm (mkQty a (view s u)) (view s v) = Ok r /\ q_unit r = view s v /\
            q_amt r == a * (eu / ev) /\ q_amt r * ev == a * eu.
Proof. exact convert_on_directory. Qed.
Print Assumptions C01_in_every_reachable_directory.

(* THE MODEL IS THE CODE: the functions below are re-translated from
   src/quantity/__init__.py on every run (Gen/QuantityImpl.v, fail-closed ast
   translator translate/qlayer.py) and are equal, on all inputs, to the model
   functions the theorems above are about *)
Theorem C01_model_is_translated_code : forall ce dm q to u v,
  convert_impl ce dm q to = convert ce dm q to /\
  equiv_amount_impl ce q to = equiv_amount ce q to /\
  get_factor_impl u v = get_factor u v /\
  unit_eq_impl u v = unit_eq u v.
Proof.
  intros. split; [apply convert_impl_eq|]. split; [apply equiv_amount_impl_eq|].
  split; [apply get_factor_impl_eq | apply unit_eq_impl_eq].
Qed.
Print Assumptions C01_model_is_translated_code.

(* non-vacuity: mi -> km -> in on concrete views *)
Definition ex_mi := mkUnit 1 3 true (Some (1609344 # 1000)) None.
Definition ex_km := mkUnit 2 3 true (Some (1000 # 1)) None.
Definition ex_in := mkUnit 3 3 true (Some (254 # 10000)) None.
Example C01_premises : lin ex_mi = true /\ lin ex_km = true /\ lin ex_in = true /\
  same_cls ex_mi ex_km = true /\ same_cls ex_mi ex_in = true.
Proof. vm_compute. repeat split. Qed.
Example C01_mile_in_inches :
  match convert (fun _ => []) MHEVEN (mkQty 1 ex_mi) ex_in with
  | Ok r => Qeq_bool (q_amt r) (63360 # 1) | Err _ => false end = true.
Proof. vm_compute. reflexivity. Qed.
