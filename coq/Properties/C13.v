(* Property C13 — quantize and round follow the requested rounding mode exactly.
   Only statements; every proof is `exact <lemma>`.  [floordiv_rounded] and
   [quantize_fraction] are GENERATED from /repo on every run. *)
From Coq Require Import ZArith QArith Qabs List Bool.
From QV Require Import Gen.QuantityImpl Model.Alloc Gen.AllocImpl Proofs.GenAllocEq.
From QV Require Import Model.Num Model.Rounding Gen.RoundingImpl Model.Quantity
     Proofs.RoundingImplSpec Proofs.RoundingRef Proofs.RoundingUnique
     Proofs.RoundingProofs Proofs.RoundingQ Proofs.QuantityProofs Proofs.C13Proofs.

(* the code's own rounding of x/y (fraction path of quantize) meets the
   declarative definition of all eight modes *)
Theorem C13_fraction_path : forall m x y, (0 < y)%Z ->
  exists n, floordiv_rounded x y m = Some n /\ RoundsTo m x y n.
Proof. exact floordiv_rounded_spec. Qed.
Print Assumptions C13_fraction_path.

(* the definition of the modes leaves exactly one result *)
Theorem C13_mode_determines_result : forall m x y n1 n2, (0 < y)%Z ->
  RoundsTo m x y n1 -> RoundsTo m x y n2 -> n1 = n2.
Proof. exact RoundsTo_unique. Qed.
Print Assumptions C13_mode_determines_result.

(* … and depends on the value only, not on numerator/denominator chosen *)
Theorem C13_value_only : forall m q q' n, q == q' ->
  (RoundsToQ m q n <-> RoundsToQ m q' n).
Proof. exact RoundsToQ_compat. Qed.
Print Assumptions C13_value_only.

(* what the mode guarantees: error < 1 quantum, <= 1/2 under half modes,
   never on the wrong side under directed modes *)
Theorem C13_error_lt_one : forall m q n, RoundsToQ m q n -> Qabs (inject_Z n - q) < 1.
Proof. exact RoundsToQ_lt_one. Qed.
Print Assumptions C13_error_lt_one.
Theorem C13_error_le_half : forall m q n, half_mode m = true -> RoundsToQ m q n ->
  Qabs (inject_Z n - q) <= 1 # 2.
Proof. exact RoundsToQ_le_half. Qed.
Print Assumptions C13_error_le_half.
Theorem C13_floor_side : forall q n, RoundsToQ MFLOOR q n -> inject_Z n <= q.
Proof. exact RoundsToQ_floor. Qed.
Print Assumptions C13_floor_side.
Theorem C13_ceiling_side : forall q n, RoundsToQ MCEIL q n -> q <= inject_Z n.
Proof. exact RoundsToQ_ceil. Qed.
Print Assumptions C13_ceiling_side.
Theorem C13_down_side : forall q n, RoundsToQ MDOWN q n -> Qabs (inject_Z n) <= Qabs q.
Proof. exact RoundsToQ_down. Qed.
Print Assumptions C13_down_side.
Theorem C13_up_side : forall q n, RoundsToQ MUP q n -> Qabs q <= Qabs (inject_Z n).
Proof. exact RoundsToQ_up. Qed.
Print Assumptions C13_up_side.

(* quantize: receiver's unit and type, the multiple of the quantum (converted
   to the receiver's unit) selected by the explicit or default mode; then the
   constructor (which only rounds when the type declares a quantum) *)
Theorem C13_quantize : forall ce dm is_dec a u b v rm,
  lin u = true -> lin v = true -> same_cls u v = true ->
  ~ a == 0 -> ~ b == 0 ->
  let m := eff_mode dm rm in
  let nq := b * (scale v / scale u) in
  exists n r,
    quantize ce dm is_dec (mkQty a u) (mkQty b v) rm = Ok r /\
    RoundsToQ m (a / nq) n /\
    q_unit r = u /\
    q_amt r == mk_amt dm (inject_Z n * nq) u.
Proof. exact quantize_spec. Qed.
Print Assumptions C13_quantize.

Theorem C13_quantize_zero : forall ce dm is_dec a u b v rm,
  lin u = true -> lin v = true -> same_cls u v = true -> a == 0 ->
  quantize ce dm is_dec (mkQty a u) (mkQty b v) rm = Ok (mkQty a u).
Proof. exact quantize_zero. Qed.
Print Assumptions C13_quantize_zero.

(* decimal and fraction representation of the amount give the same result *)
Theorem C13_repr_independent : forall ce dm p quant rm,
  quantize ce dm true p quant rm = quantize ce dm false p quant rm.
Proof. exact quantize_repr_independent. Qed.
Print Assumptions C13_repr_independent.

Theorem C13_quantum_of_other_type : forall ce dm is_dec p quant rm,
  same_cls (q_unit p) (q_unit quant) = false ->
  quantize ce dm is_dec p quant rm = Err ETypeError.
Proof. exact quantize_other_type. Qed.
Print Assumptions C13_quantum_of_other_type.

Theorem C13_no_reference_unit : forall ce dm is_dec p quant rm,
  u_has_ref (q_unit p) = false ->
  quantize ce dm is_dec p quant rm = Err ETypeError.
Proof. exact quantize_no_ref_unit. Qed.
Print Assumptions C13_no_reference_unit.

Theorem C13_round : forall dm (is_dec : bool) a u nd,
  let m := if is_dec then dm else MHEVEN in
  let r := qty_round dm is_dec (mkQty a u) nd in
  exists n, RoundsToQ m (a / pow10 (- nd)) n /\
            q_unit r = u /\
            q_amt r == mk_amt dm (inject_Z n * pow10 (- nd)) u.
Proof. exact round_spec. Qed.
Print Assumptions C13_round.

(* THE MODEL IS THE CODE: Quantity.quantize and Quantity.__round__ are
   re-translated from src/quantity/__init__.py on every run (Gen/AllocImpl.v,
   translate/alloc.py) and are equal, on all inputs, modes and both
   representations of the amount, to the model functions the theorems above are
   about.  The Fraction path calls the GENERATED _quantize_fraction
   (C13_floordiv_rounded_* are about that one); decimalfp's Decimal.quantize and
   builtin round are the callee models dec_quantize / py_round (trusted base). *)
Theorem C13_model_is_translated_code : forall ce dm is_dec p quant rm nd,
  quantize_impl ce dm is_dec p quant rm = quantize ce dm is_dec p quant rm /\
  qty_round_impl dm is_dec p nd = Ok (qty_round dm is_dec p nd).
Proof. intros. split; [apply quantize_impl_eq | apply qty_round_impl_eq]. Qed.
Print Assumptions C13_model_is_translated_code.

(* non-vacuity: concrete linear units of one class; a tie under every mode *)
Definition ex_m  := mkUnit 1 7 true (Some 1) None.
Definition ex_km := mkUnit 2 7 true (Some (1000 # 1)) None.
Example C13_premises_satisfiable :
  lin ex_m = true /\ lin ex_km = true /\ same_cls ex_km ex_m = true.
Proof. vm_compute. repeat split. Qed.
Example C13_tie_table :
  map (fun m => match quantize (fun _ => []) MHEVEN false (mkQty (-5 # 2000) ex_km)
                                (mkQty 1 ex_m) (Some m) with
                | Ok r => Qnum (Qred (q_amt r * 1000)) | Err _ => 99%Z end) all_modes
  = [-2; -2; -2; -3; -2; -2; -3; -3]%Z.
Proof. vm_compute. reflexivity. Qed.
