(* C06 — Allocation conserves the total and deviates by less than one quantum.

   Model: Model/Alloc.v (allocate = sum of the ratios, fractions, portions via
   the constructor, remainder by subtraction, sorted (error, index) list,
   break-on-zero dispersal loop).  Proofs: Proofs/C06Proofs.v.

   Hypotheses shared by the theorems, and why:
   - [uq_ok u]   : the quantum of the receiver's unit, if any, is positive;
   - [ugrid u a] / [on_grid a qu] : the receiver's amount is a multiple of
     its unit's quantum.  Every quantity built by the constructor satisfies
     it (C06_receiver_constructed; C05_reachable_grid for all operations).
   - [~ qsum ks == 0] : the ratios have a non-zero total; implied by
     "non-empty and all positive" (C06_positive_total).  A zero total raises
     ZeroDivisionError, an empty list TypeError (error-branch theorems).
   Non-mutation of the receiver is vacuous in a pure model: harness only. *)
From Coq Require Import ZArith QArith Qabs List Bool.
From QV Require Import Gen.QuantityImpl Gen.AllocImpl Proofs.GenAllocEq.
From QV Require Import Model.Num Model.Rounding Gen.RoundingImpl Model.Quantity Model.Alloc
     Proofs.RoundingQ Proofs.QuantityProofs Proofs.C01Proofs Proofs.C03C04Proofs
     Proofs.C06Proofs.
Import ListNotations.
Open Scope Q_scope.

(* ---- every successful allocation: any ratios, both flag values ---------- *)
Theorem C06_conservation : forall ce dm self ratios disperse ps r,
  uq_ok (q_unit self) -> ugrid (q_unit self) (q_amt self) ->
  allocate ce dm self ratios disperse = Ok (ps, r) ->
  qsum (map q_amt ps) + q_amt r == q_amt self.
Proof. exact p_conservation. Qed.
Print Assumptions C06_conservation.

Theorem C06_unit_type : forall ce dm self ratios disperse ps r,
  uq_ok (q_unit self) -> ugrid (q_unit self) (q_amt self) ->
  allocate ce dm self ratios disperse = Ok (ps, r) ->
  length ps = length ratios /\
  Forall (fun p => q_unit p = q_unit self) ps /\ q_unit r = q_unit self.
Proof. exact p_unit_type. Qed.
Print Assumptions C06_unit_type.

Theorem C06_on_grid : forall ce dm self ratios disperse ps r qu,
  u_quantum (q_unit self) = Some qu -> 0 < qu -> on_grid (q_amt self) qu ->
  allocate ce dm self ratios disperse = Ok (ps, r) ->
  Forall (fun p => on_grid (q_amt p) qu) ps /\ on_grid (q_amt r) qu.
Proof. exact p_on_grid. Qed.
Print Assumptions C06_on_grid.

Theorem C06_receiver_constructed : forall dm x u, ugrid u (q_amt (mk_qty dm x u)).
Proof. exact p_receiver_constructed. Qed.
Print Assumptions C06_receiver_constructed.

Theorem C06_positive_total : forall ks,
  ks <> [] -> Forall (fun k => 0 < k) ks -> ~ qsum ks == 0.
Proof. exact p_positive_total. Qed.
Print Assumptions C06_positive_total.

(* ---- number ratios ------------------------------------------------------ *)
Theorem C06_exact_no_quantum : forall ce dm self ks disperse,
  u_quantum (q_unit self) = None -> ks <> [] -> ~ qsum ks == 0 ->
  exists ps r, allocate ce dm self (map RNum ks) disperse = Ok (ps, r) /\
    Forall2 (fun p k => q_amt p == q_amt self * (k / qsum ks)) ps ks /\ q_amt r == 0.
Proof. exact allocate_numbers_no_quantum. Qed.
Print Assumptions C06_exact_no_quantum.

(* all 8 modes, both flag values: also AFTER the dispersal every portion is
   a multiple of the quantum and less than one quantum from its exact share *)
Theorem C06_grid_and_bound : forall ce dm self ks disperse qu,
  u_quantum (q_unit self) = Some qu -> 0 < qu -> on_grid (q_amt self) qu ->
  ks <> [] -> ~ qsum ks == 0 ->
  exists ps r, allocate ce dm self (map RNum ks) disperse = Ok (ps, r) /\
    Forall (fun p => on_grid (q_amt p) qu) ps /\
    Forall2 (fun p k => Qabs (q_amt p - q_amt self * (k / qsum ks)) < qu) ps ks.
Proof. exact p_grid_and_bound. Qed.
Print Assumptions C06_grid_and_bound.

Theorem C06_remainder_zero_if_dispersed : forall ce dm self ks ps r qu,
  u_quantum (q_unit self) = Some qu -> 0 < qu -> on_grid (q_amt self) qu ->
  ks <> [] -> ~ qsum ks == 0 ->
  allocate ce dm self (map RNum ks) true = Ok (ps, r) -> q_amt r == 0.
Proof. exact p_dispersed_zero. Qed.
Print Assumptions C06_remainder_zero_if_dispersed.

Theorem C06_remainder_bound_otherwise : forall ce dm self ks ps r qu,
  u_quantum (q_unit self) = Some qu -> 0 < qu -> on_grid (q_amt self) qu ->
  ks <> [] -> ~ qsum ks == 0 ->
  allocate ce dm self (map RNum ks) false = Ok (ps, r) ->
  Qabs (q_amt r) < qcount ks * qu /\
  (half_mode dm = true -> Qabs (q_amt r) <= qcount ks * ((1 # 2) * qu)).
Proof. exact p_not_dispersed_bound. Qed.
Print Assumptions C06_remainder_bound_otherwise.

(* ---- the same for fractions proportional to ANY list of values with a
   non-zero total (what numbers and quantities are instances of) ----------- *)
Theorem C06_shares_no_quantum : forall ce dm self fs vs disperse,
  u_quantum (q_unit self) = None -> vs <> [] -> ~ qsum vs == 0 -> proportional fs vs ->
  exists ps r, alloc_core ce dm self fs disperse = Ok (ps, r) /\
    Forall2 (fun p v => q_amt p == q_amt self * (v / qsum vs)) ps vs /\ q_amt r == 0.
Proof. exact shares_no_quantum. Qed.
Print Assumptions C06_shares_no_quantum.

Theorem C06_shares_quantum : forall ce dm self fs vs disperse qu,
  u_quantum (q_unit self) = Some qu -> 0 < qu -> ugrid (q_unit self) (q_amt self) ->
  vs <> [] -> ~ qsum vs == 0 -> proportional fs vs ->
  exists ps r, alloc_core ce dm self fs disperse = Ok (ps, r) /\
    Forall2 (fun p v => Qabs (q_amt p - q_amt self * (v / qsum vs)) < qu) ps vs /\
    (disperse = true -> q_amt r == 0) /\
    (disperse = false ->
       Qabs (q_amt r) < qcount vs * qu /\
       (half_mode dm = true -> Qabs (q_amt r) <= qcount vs * ((1 # 2) * qu))).
Proof. exact shares_quantum. Qed.
Print Assumptions C06_shares_quantum.

(* ---- quantity ratios.
   [C06_quantity_ratios_linear]: ratios of one type whose units are linear
   (reference unit, non-zero scale); the ratio type is unquantized, or it is
   quantized and the ratios lie on its grid (ratio_type_ok) — then allocate
   runs the core on fractions proportional to the reference values.
   [C06_quantity_ratios_same_unit]: ratios that all carry one and the same
   unit, of any type (e.g. money amounts of one currency) — fractions
   proportional to the amounts.  Together with C06_shares_* these give the
   property; the two corollaries below spell it out for linear ratio types.
   PARTIAL with respect to "quantities of one type": NOT covered are types
   without reference unit in MIXED units (table converters).  For affine
   tables the property is FALSE (C06_affine_ratio_type_refuted); for
   offset-free tables it is expected to hold but is not proved. ------------ *)
Theorem C06_quantity_ratios_linear : forall ce dm self q0 qs disperse,
  ratio_type_ok q0 qs -> Forall (ratio_unit_ok (q_unit q0)) (q0 :: qs) ->
  ~ qsum (map refv (q0 :: qs)) == 0 ->
  exists fs, proportional fs (map refv (q0 :: qs)) /\
    allocate ce dm self (map RQty (q0 :: qs)) disperse = alloc_core ce dm self fs disperse.
Proof. exact allocate_quantities. Qed.
Print Assumptions C06_quantity_ratios_linear.

Theorem C06_quantity_ratios_same_unit : forall ce dm self q0 qs disperse,
  uq_ok (q_unit q0) ->
  Forall (fun q => q_unit q = q_unit q0 /\ ugrid (q_unit q0) (q_amt q)) (q0 :: qs) ->
  ~ qsum (map q_amt (q0 :: qs)) == 0 ->
  exists fs, proportional fs (map q_amt (q0 :: qs)) /\
    allocate ce dm self (map RQty (q0 :: qs)) disperse = alloc_core ce dm self fs disperse.
Proof. exact allocate_quantities_same_unit. Qed.
Print Assumptions C06_quantity_ratios_same_unit.

Theorem C06_quantity_ratios_no_quantum_partial : forall ce dm self q0 qs disperse,
  ratio_type_ok q0 qs -> Forall (ratio_unit_ok (q_unit q0)) (q0 :: qs) ->
  ~ qsum (map refv (q0 :: qs)) == 0 ->
  u_quantum (q_unit self) = None ->
  exists ps r, allocate ce dm self (map RQty (q0 :: qs)) disperse = Ok (ps, r) /\
    Forall2 (fun p v => q_amt p == q_amt self * (v / qsum (map refv (q0 :: qs))))
            ps (map refv (q0 :: qs)) /\ q_amt r == 0.
Proof. exact allocate_quantities_no_quantum. Qed.
Print Assumptions C06_quantity_ratios_no_quantum_partial.

Theorem C06_quantity_ratios_quantum_partial : forall ce dm self q0 qs disperse qu,
  ratio_type_ok q0 qs -> Forall (ratio_unit_ok (q_unit q0)) (q0 :: qs) ->
  ~ qsum (map refv (q0 :: qs)) == 0 ->
  u_quantum (q_unit self) = Some qu -> 0 < qu -> ugrid (q_unit self) (q_amt self) ->
  exists ps r, allocate ce dm self (map RQty (q0 :: qs)) disperse = Ok (ps, r) /\
    Forall2 (fun p v => Qabs (q_amt p - q_amt self * (v / qsum (map refv (q0 :: qs)))) < qu)
            ps (map refv (q0 :: qs)) /\
    (disperse = true -> q_amt r == 0) /\
    (disperse = false ->
       Qabs (q_amt r) < qcount (map refv (q0 :: qs)) * qu /\
       (half_mode dm = true ->
        Qabs (q_amt r) <= qcount (map refv (q0 :: qs)) * ((1 # 2) * qu))).
Proof. exact allocate_quantities_quantum. Qed.
Print Assumptions C06_quantity_ratios_quantum_partial.

(* ---- error branches (what the code does outside the property's domain) -- *)
Theorem C06_empty_ratios : forall ce dm self disperse,
  allocate ce dm self [] disperse = Err ETypeError.
Proof. exact allocate_empty. Qed.
Print Assumptions C06_empty_ratios.

Theorem C06_zero_total : forall ce dm self k ks disperse, qsum (k :: ks) == 0 ->
  allocate ce dm self (map RNum (k :: ks)) disperse = Err EZeroDivision.
Proof. exact allocate_numbers_zero_total. Qed.
Print Assumptions C06_zero_total.

Theorem C06_mixed_number_quantity : forall ce dm self k q l disperse,
  allocate ce dm self (RNum k :: RQty q :: l) disperse = Err ETypeError /\
  allocate ce dm self (RQty q :: RNum k :: l) disperse = Err ETypeError.
Proof. exact p_mixed_number_quantity. Qed.
Print Assumptions C06_mixed_number_quantity.

Theorem C06_ratios_of_other_type : forall ce dm self p q l disperse,
  same_cls (q_unit p) (q_unit q) = false ->
  allocate ce dm self (RQty p :: RQty q :: l) disperse = Err EIncompatibleUnits.
Proof. exact p_other_type. Qed.
Print Assumptions C06_ratios_of_other_type.

(* without quantum and without any assumption on the fractions: exact shares
   and zero remainder, or the code's assertion fails *)
Theorem C06_no_quantum_any_fractions : forall ce dm self fs disperse,
  u_quantum (q_unit self) = None -> fs <> [] ->
  (exists ps r, alloc_core ce dm self fs disperse = Ok (ps, r) /\ q_amt r == 0 /\
                Forall2 (fun p f => q_amt p == q_amt self * f) ps fs) \/
  (alloc_core ce dm self fs disperse = Err EAssertion /\ ~ qsum fs == 1).
Proof. exact core_no_quantum_any. Qed.
Print Assumptions C06_no_quantum_any_fractions.

(* ---- concrete instances (non-vacuity) and refutations -------------------- *)
Definition noconv : convenv := fun _ => [].
Definition eur : unit := mkUnit 0 0 false None (Some (1 # 100)).
Definition kg : unit := mkUnit 1 1 true (Some 1) None.
Definition gram : unit := mkUnit 2 1 true (Some (1 # 1000)) None.
Definition degC : unit := mkUnit 3 2 false None None.
Definition kelvin : unit := mkUnit 4 2 false None None.
Definition tempconv : convenv :=
  fun c => if N.eqb c 2 then [[((3%N, 4%N), (1, 27315 # 100))]] else [].
Definition amounts (x : res (list qty * qty)) : option (list Q * Q) :=
  match x with Ok (ps, r) => Some (map q_amt ps, q_amt r) | Err _ => None end.

(* the hypotheses are satisfiable: 10.00 EUR is on the cent grid, 1:1:1 is a
   non-empty positive ratio list *)
Example C06_ex_hypotheses :
  u_quantum (q_unit (mkQty 10 eur)) = Some (1 # 100) /\ 0 < 1 # 100 /\
  on_grid (q_amt (mkQty 10 eur)) (1 # 100) /\ [1; 1; 1] <> [] /\ ~ qsum [1; 1; 1] == 0.
Proof.
  split; [reflexivity|]. split; [reflexivity|]. split; [exists 1000%Z; reflexivity|].
  split; [discriminate|]. intros H. discriminate H.
Qed.

(* 10.00 split 1:1:1 with quantum 0.01: 3.34, 3.33, 3.33, remainder 0 *)
Example C06_ex_thirds_dispersed :
  amounts (allocate noconv MHEVEN (mkQty 10 eur) [RNum 1; RNum 1; RNum 1] true)
  = Some ([167 # 50; 333 # 100; 333 # 100], 0).
Proof. vm_compute. reflexivity. Qed.

Example C06_ex_thirds_not_dispersed :
  amounts (allocate noconv MHEVEN (mkQty 10 eur) [RNum 1; RNum 1; RNum 1] false)
  = Some ([333 # 100; 333 # 100; 333 # 100], 1 # 100).
Proof. vm_compute. reflexivity. Qed.

(* negative remainder (CEILING: 3 x 3.34 = 10.02): descending order, the
   quantum is taken back from the last two portions *)
Example C06_ex_thirds_ceiling :
  amounts (allocate noconv MCEIL (mkQty 10 eur) [RNum 1; RNum 1; RNum 1] true)
  = Some ([167 # 50; 333 # 100; 333 # 100], 0).
Proof. vm_compute. reflexivity. Qed.

Example C06_ex_unquantized :
  amounts (allocate noconv MHEVEN (mkQty 10 kg) [RNum 1; RNum 2; RNum (1 # 2)] true)
  = Some ([20 # 7; 40 # 7; 10 # 7], 0).
Proof. vm_compute. reflexivity. Qed.

(* quantity ratios in mixed units: 2 kg : 500 g : 0.5 kg *)
Example C06_ex_quantity_ratios :
  amounts (allocate noconv MHEVEN (mkQty 10 eur)
             [RQty (mkQty 2 kg); RQty (mkQty 500 gram); RQty (mkQty (1 # 2) kg)] true)
  = Some ([667 # 100; 167 # 100; 83 # 50], 0).
Proof. vm_compute. reflexivity. Qed.

(* the hypotheses on quantity ratios are satisfiable: kg / g are linear units
   of one unquantized type *)
Example C06_ex_quantity_hypotheses :
  ratio_type_ok (mkQty 2 kg) [mkQty 500 gram] /\
  Forall (ratio_unit_ok kg) [mkQty 2 kg; mkQty 500 gram] /\
  ~ qsum (map refv [mkQty 2 kg; mkQty 500 gram]) == 0.
Proof.
  split; [left; reflexivity|]. split; [repeat constructor|]. intros H. vm_compute in H. discriminate H.
Qed.

(* a quantized ratio type: bytes and bits on the one-bit grid (1/8 B) *)
Example C06_ex_quantized_ratio_type :
  let byte := mkUnit 5 3 true (Some 1) (Some (1 # 8)) in
  let bit := mkUnit 6 3 true (Some (1 # 8)) (Some 1) in
  ratio_type_ok (mkQty 3 byte) [mkQty 5 bit] /\
  Forall (ratio_unit_ok byte) [mkQty 3 byte; mkQty 5 bit] /\
  amounts (allocate noconv MHEVEN (mkQty 10 eur) [RQty (mkQty 3 byte); RQty (mkQty 5 bit)] true)
  = Some ([207 # 25; 43 # 25], 0).
Proof.
  cbv zeta. split.
  - right. exists (1 # 8). split; [intros H; discriminate H|].
    constructor; [exists (1 # 8); split; [reflexivity|]; split; [reflexivity|]; exists 24%Z; reflexivity|].
    constructor; [exists 1; split; [reflexivity|]; split; [reflexivity|]; exists 5%Z; reflexivity|].
    constructor.
  - split; [repeat constructor|]. vm_compute. reflexivity.
Qed.

(* The bound under the half-modes is attained on exact ties, so it cannot be
   strict: 1 split 1:1 with quantum 1 under HALF_UP gives 1, 1, remainder -1
   = 2 portions x half a quantum. *)
Theorem C06_half_bound_strict_refuted :
  exists dm self ks ps r qu,
    half_mode dm = true /\ u_quantum (q_unit self) = Some qu /\ 0 < qu /\
    on_grid (q_amt self) qu /\ Forall (fun k => 0 < k) ks /\
    allocate noconv dm self (map RNum ks) false = Ok (ps, r) /\
    ~ Qabs (q_amt r) < qcount ks * ((1 # 2) * qu).
Proof.
  exists MHUP, (mkQty 1 (mkUnit 0 0 false None (Some 1))), [1; 1]. do 2 eexists. exists 1.
  split; [reflexivity|]. split; [reflexivity|]. split; [reflexivity|].
  split; [exists 1%Z; reflexivity|].
  split; [repeat constructor|].
  split; [vm_compute; reflexivity|].
  vm_compute. intros H. discriminate H.
Qed.
Print Assumptions C06_half_bound_strict_refuted.

(* THE MODEL IS THE CODE: Quantity.allocate is re-translated from
   src/quantity/__init__.py on every run (Gen/AllocImpl.v, fail-closed ast
   translator translate/alloc.py: the statement skeleton is checked, every
   condition, error term, update and exit test is translated) and is equal, on
   all inputs, to the model function the theorems above are about; the
   subtraction and the sum of the portions go through the translated
   __sub__ / __add__ *)
Theorem C06_model_is_translated_code : forall ce dm self ratios fs disperse,
  allocate_impl ce dm self ratios disperse = allocate ce dm self ratios disperse /\
  alloc_core_impl ce dm self fs disperse = alloc_core ce dm self fs disperse.
Proof. intros. split; [apply allocate_impl_eq | apply alloc_core_impl_eq]. Qed.
Print Assumptions C06_model_is_translated_code.

(* "Quantities of one type" as ratios do NOT always work: for a type without
   reference unit whose units are related by an affine table converter
   (temperature), ratio / total uses the total converted into each ratio's
   own unit, the fractions do not add up to 1, and an unquantized receiver
   fails the code's assertion (a quantized one returns a remainder of many
   quanta).  Python: Mass(10).allocate([Temperature(20, CELSIUS),
   Temperature(300, KELVIN)]) raises AssertionError. *)
Theorem C06_affine_ratio_type_refuted :
  exists ce dm self p q,
    same_cls (q_unit p) (q_unit q) = true /\ 0 < q_amt p /\ 0 < q_amt q /\
    u_quantum (q_unit self) = None /\
    allocate ce dm self [RQty p; RQty q] true = Err EAssertion.
Proof.
  exists tempconv, MHEVEN, (mkQty 10 kg), (mkQty 20 degC), (mkQty 300 kelvin).
  split; [reflexivity|]. split; [reflexivity|]. split; [reflexivity|].
  split; [reflexivity|]. vm_compute. reflexivity.
Qed.
Print Assumptions C06_affine_ratio_type_refuted.

Example C06_ex_affine_quantized_remainder :
  amounts (allocate tempconv MHEVEN (mkQty 10 eur)
             [RQty (mkQty 20 degC); RQty (mkQty 300 kelvin)] true)
  = Some ([213 # 50; 937 # 100], - (363 # 100)).
Proof. vm_compute. reflexivity. Qed.
