(* Property C18 — construction is exact and the text form round-trips.
   Statements only.

   Strings are lists of code points.  [show_num] / [parse_num] stand for the
   dependency's numeric printer (str of Decimal / Fraction) and parser
   (Decimal(s), then Fraction(s); [Err e] = the exception that left it).  They
   are universally quantified; where a statement needs them to fit together it
   carries the premise [num_contract show_num parse_num]:
     for all a:  parse_num (show_num a) = Ok a' with a' == a,
                 show_num a contains no U+0020,
                 show_num a is non-empty and does not start with whitespace.
   [toy_show]/[toy_parse] (decimal "n" / "n/d" over code points) satisfy the
   contract (C18_contract_satisfiable); the real dependency is checked against
   it on every run by the correspondence.
   [dir_wf d]: symbols unique, unit identities unique.
   [edge_clean s]: s has no leading and no trailing Unicode whitespace.
   [accepts c u]: the called class is the generic factory or u's own class.
   [stored q]: q's amount is on the grid of its unit's quantum (what every
   constructed quantity satisfies, C05). *)
From Coq Require Import ZArith QArith Qabs List Bool.
From QV Require Import Model.Num Model.Rounding Model.Quantity Model.Text
     Proofs.QuantityProofs Proofs.C13Proofs Proofs.C01Proofs Proofs.C05Proofs
     Proofs.C18Proofs.

(* numbers: exactly the given rational; rounded (once, default mode) only if
   the unit has a quantum *)
Theorem C18_exact_value : forall dm c a u, accepts c u ->
  exists r, mk_from_number dm c (NFinite a) (UUnit u) = Ok r /\ q_unit r = u /\
            q_amt r == mk_amt dm a u /\
            (u_quantum u = None -> q_amt r == a) /\
            (forall qu, u_quantum u = Some qu -> q_amt r == round_to_quantum dm a qu).
Proof. exact exact_value. Qed.
Print Assumptions C18_exact_value.

(* default unit, refusal of the generic factory without unit, of a foreign
   unit, of non-numbers *)
Theorem C18_number_dispatch : forall dm a,
  (forall c r, c_ref c = Some r -> accepts c r ->
      mk_from_number dm c (NFinite a) UNone = Ok (mk_qty dm a r)) /\
  (forall c, c_ref c = None -> mk_from_number dm c (NFinite a) UNone = Err EQuantityError) /\
  mk_from_number dm generic (NFinite a) UNone = Err EQuantityError /\
  (forall c k u, c_cls c = Some k -> k <> u_cls u ->
      mk_from_number dm c (NFinite a) (UUnit u) = Err EQuantityError) /\
  (forall c ua, mk_from_number dm c NOther ua = Err ETypeError).
Proof. exact number_dispatch. Qed.
Print Assumptions C18_number_dispatch.

(* str(q) = amount, one blank, symbol *)
Theorem C18_str_shape : forall show_num d q s, symbol_of d (q_unit q) = Some s ->
  qty_str show_num d q = show_num (q_amt q) ++ blank :: s.
Proof. exact str_shape. Qed.
Print Assumptions C18_str_shape.

(* format(q) without a spec (and with the default spec) is str(q) *)
Theorem C18_format_default : forall show_num d q,
  qty_format show_num d [] q = qty_str show_num d q /\
  qty_format show_num d dflt_format_spec q = qty_str show_num d q.
Proof. exact format_default. Qed.
Print Assumptions C18_format_default.

(* ROUND TRIP through the generic factory or q's own type: same unit (hence
   same type), amount = constructor applied to the same rational; identical
   amount for every stored quantity *)
Theorem C18_roundtrip : forall show_num parse_num, num_contract show_num parse_num ->
  forall d ce dm c q s,
  dir_wf d -> In (s, q_unit q) d -> edge_clean s -> accepts c (q_unit q) ->
  exists r, parse_qty parse_num d ce dm c UNone (qty_str show_num d q) = Ok r /\
            q_unit r = q_unit q /\
            q_amt r == mk_amt dm (q_amt q) (q_unit q) /\
            (stored q -> q_amt r == q_amt q).
Proof. exact roundtrip. Qed.
Print Assumptions C18_roundtrip.

(* ... also with whitespace before the amount, additional whitespace between
   amount and symbol, and after the symbol *)
Theorem C18_roundtrip_padded : forall show_num parse_num, num_contract show_num parse_num ->
  forall d ce dm c q s ws0 ws1 ws2,
  dir_wf d -> In (s, q_unit q) d -> edge_clean s -> accepts c (q_unit q) ->
  all_space ws0 -> all_space ws1 -> all_space ws2 ->
  exists r, parse_qty parse_num d ce dm c UNone
              (ws0 ++ show_num (q_amt q) ++ blank :: ws1 ++ s ++ ws2) = Ok r /\
            q_unit r = q_unit q /\
            q_amt r == mk_amt dm (q_amt q) (q_unit q) /\
            (stored q -> q_amt r == q_amt q).
Proof. exact roundtrip_padded. Qed.
Print Assumptions C18_roundtrip_padded.

(* str(q) given to another type is refused *)
Theorem C18_roundtrip_other_class : forall show_num parse_num, num_contract show_num parse_num ->
  forall d ce dm c k q s,
  dir_wf d -> In (s, q_unit q) d -> edge_clean s ->
  c_cls c = Some k -> k <> u_cls (q_unit q) ->
  parse_qty parse_num d ce dm c UNone (qty_str show_num d q) = Err EQuantityError.
Proof. exact roundtrip_other_class. Qed.
Print Assumptions C18_roundtrip_other_class.

(* explicit different unit = parse, then convert (errors of convert included),
   for every text and every called class *)
Theorem C18_other_unit : forall parse_num d ce dm c u text q,
  parse_qty parse_num d ce dm generic UNone text = Ok q ->
  same_unit u (q_unit q) = false ->
  parse_qty parse_num d ce dm c (UUnit u) text = convert ce dm q u.
Proof. exact other_unit. Qed.
Print Assumptions C18_other_unit.

Theorem C18_same_unit_explicit : forall parse_num d ce dm c text q,
  parse_qty parse_num d ce dm generic UNone text = Ok q -> accepts c (q_unit q) ->
  parse_qty parse_num d ce dm c (UUnit (q_unit q)) text = Ok q.
Proof. exact same_unit_explicit. Qed.
Print Assumptions C18_same_unit_explicit.

(* malformed text, for EVERY text: [number_part] = text up to the first blank
   after lstrip, [symbol_part] = the stripped remainder *)
Theorem C18_malformed : forall parse_num d ce dm text,
  (forall c ua, (parse_num (number_part text) = Err EValueError \/
                 parse_num (number_part text) = Err ETypeError \/
                 parse_num (number_part text) = Err EZeroDivision) ->
       parse_qty parse_num d ce dm c ua text = Err EQuantityError) /\
  (forall c ua a s, parse_num (number_part text) = Ok a -> symbol_part text = Some s ->
       lookup_sym d s = None -> parse_qty parse_num d ce dm c ua text = Err EQuantityError) /\
  (forall c a, parse_num (number_part text) = Ok a -> symbol_part text = None ->
       c_ref c = None -> parse_qty parse_num d ce dm c UNone text = Err EQuantityError) /\
  (forall c a r, parse_num (number_part text) = Ok a -> symbol_part text = None ->
       c_ref c = Some r -> accepts c r ->
       parse_qty parse_num d ce dm c UNone text = Ok (mk_qty dm a r)).
Proof. exact malformed. Qed.
Print Assumptions C18_malformed.

(* empty / all-whitespace text *)
Theorem C18_blank_text : forall parse_num d ce dm c ua ws, all_space ws ->
  (parse_num [] = Err EValueError \/ parse_num [] = Err ETypeError) ->
  parse_qty parse_num d ce dm c ua ws = Err EQuantityError.
Proof. exact blank_text. Qed.
Print Assumptions C18_blank_text.

(* only U+0020 separates amount and symbol ('5\tm' is one unparsable number) *)
Theorem C18_only_blank_separates : forall text,
  ~ In blank (lstrip text) -> number_part text = lstrip text /\ symbol_part text = None.
Proof. exact only_blank_separates. Qed.
Print Assumptions C18_only_blank_separates.

(* the exceptions the constructor does NOT translate: anything but
   TypeError / ValueError / ZeroDivisionError of the numeric parser passes
   through (ZeroDivisionError of Fraction('1/0') did so before repo commit
   046398b; regression cases in corpus/C18) *)
Theorem C18_malformed_parser_exception_escapes : forall parse_num d ce dm c ua text e,
  parse_num (number_part text) = Err e ->
  e <> EValueError -> e <> ETypeError -> e <> EZeroDivision ->
  parse_qty parse_num d ce dm c ua text = Err e.
Proof. exact parser_exception_escapes. Qed.
Print Assumptions C18_malformed_parser_exception_escapes.

(* DEVIATION (DESIGN F9): a symbol with edge whitespace does not round-trip;
   the stripped symbol decides: unknown -> QuantityError, known -> the OTHER
   unit is returned *)
Theorem C18_edge_symbol_outcome : forall show_num parse_num, num_contract show_num parse_num ->
  forall d ce dm c q s, dir_wf d -> In (s, q_unit q) d ->
  (lookup_sym d (strip s) = None ->
     parse_qty parse_num d ce dm c UNone (qty_str show_num d q) = Err EQuantityError) /\
  (forall v, lookup_sym d (strip s) = Some v -> accepts c v ->
     exists r, parse_qty parse_num d ce dm c UNone (qty_str show_num d q) = Ok r /\
               q_unit r = v).
Proof. exact edge_symbol_outcome. Qed.
Print Assumptions C18_edge_symbol_outcome.

Theorem C18_edge_blank_refuted :
  (exists d q s, dir_wf d /\ In (s, q_unit q) d /\
     parse_qty toy_parse d no_conv MHEVEN generic UNone (qty_str toy_show d q)
       = Err EQuantityError) /\
  (exists d q s r, dir_wf d /\ In (s, q_unit q) d /\
     parse_qty toy_parse d no_conv MHEVEN generic UNone (qty_str toy_show d q) = Ok r /\
     same_unit (q_unit r) (q_unit q) = false).
Proof. exact edge_blank_refuted. Qed.
Print Assumptions C18_edge_blank_refuted.

(* the contract is satisfiable: a decimal printer/parser pair *)
Theorem C18_contract_satisfiable : num_contract toy_show toy_parse.
Proof. exact toy_contract. Qed.
Print Assumptions C18_contract_satisfiable.

(* ---- non-vacuity: instances of the hypotheses ---- *)
Example C18_ex_dir_wf : dir_wf ex_dir.
Proof. exact ex_dir_wf. Qed.
Example C18_ex_edge_clean : edge_clean [97; 32; 98]%N /\ ~ edge_clean [32; 120]%N.
Proof. split; [split; reflexivity | intros [H _]; discriminate]. Qed.
Example C18_ex_toy_show :
  map toy_show [0 # 1; -7 # 3; 12 # 1; 1 # 100]%Q
  = [[48]; [45; 55; 47; 51]; [49; 50]; [49; 47; 49; 48; 48]]%N.
Proof. vm_compute. reflexivity. Qed.
Example C18_ex_roundtrip_inner_blank :
  parse_qty toy_parse ex_dir no_conv MHEVEN generic UNone
    (qty_str toy_show ex_dir (mkQty (-7 # 3) ex_ab)) = Ok (mkQty (-7 # 3) ex_ab).
Proof. exact ex_inner_blank. Qed.
Example C18_ex_zero_denominator :
  toy_parse [49; 47; 48]%N = Err EZeroDivision /\
  parse_qty toy_parse ex_dir no_conv MHEVEN generic UNone [49; 47; 48; 32; 120]%N
    = Err EQuantityError.
Proof. exact ex_zero_denominator. Qed.
Example C18_ex_malformed :
  map (parse_qty toy_parse ex_dir no_conv MHEVEN generic UNone)
      [[]; [32; 32]; [49; 50]; [49; 32; 113]; [120; 32; 49]; [49; 9; 120]]%N
  = [Err EQuantityError; Err EQuantityError; Err EQuantityError;
     Err EQuantityError; Err EQuantityError; Err EQuantityError].
Proof. vm_compute. reflexivity. Qed.
