(* Property C08 — money never mixes currencies implicitly and follows ISO 4217.
   Statements only; proofs in Proofs/C08Proofs.v.

   Reading guide.  A currency is seen by the quantity layer as a unit of a
   class without reference unit whose quantum is its smallest fraction
   ([cur_unit], [currency_view]).  [mixed_pair ce c d]: c and d are two
   different units (distinct identities) of one such class and the class has
   no converter in [ce] — "two different currencies, no money converter
   active".  The registry of currencies is the state machine of
   Model/MoneyOps.v; [reachable t st]: st arises from a fresh interpreter by
   any history of register_currency / new_unit calls and declarations of other
   classes, over the ISO database t.  [iso_table] is GENERATED from
   iso_4217.xml on every run (Gen/IsoTable.v). *)
From Coq Require Import ZArith QArith Qabs List Bool.
From QV Require Import Gen.FractionImpl Proofs.GenFractionEq.
From QV Require Import Model.Num Model.Rounding Model.Quantity Model.MoneyOps Gen.IsoTable
     Proofs.RoundingQ Proofs.QuantityProofs Proofs.C13Proofs Proofs.C01Proofs
     Proofs.C03C04Proofs Proofs.C05Proofs Proofs.C08Proofs.
Import ListNotations.
Open Scope Q_scope.

(* ---------------- two different currencies, no converter ---------------- *)

Theorem C08_mixed_add_sub : forall ce dm c d, mixed_pair ce c d -> forall sub a b,
  qty_addsub sub ce dm (mkQty a c) (mkQty b d) = Err EUnitConversion.
Proof. exact mixed_addsub. Qed.
Print Assumptions C08_mixed_add_sub.

Theorem C08_mixed_div : forall ce te dm c d, mixed_pair ce c d -> forall a b,
  qty_div_qty ce te dm (mkQty a c) (mkQty b d) = Err EUnitConversion.
Proof. exact mixed_div. Qed.
Print Assumptions C08_mixed_div.

Theorem C08_mixed_compare : forall ce c d, mixed_pair ce c d -> forall op a b,
  qty_cmp ce op (mkQty a c) (mkQty b d) = Err EUnitConversion.
Proof. exact mixed_cmp. Qed.
Print Assumptions C08_mixed_compare.

Theorem C08_mixed_convert : forall ce dm c d, mixed_pair ce c d -> forall a,
  convert ce dm (mkQty a c) d = Err EUnitConversion.
Proof. exact mixed_convert. Qed.
Print Assumptions C08_mixed_convert.

Theorem C08_mixed_eq : forall ce c d, mixed_pair ce c d -> forall a b,
  qty_eq ce (mkQty a c) (mkQty b d) = Ok false.
Proof. exact mixed_eq. Qed.
Print Assumptions C08_mixed_eq.

(* money * money is undefined — under the explicit hypothesis that the
   directory of declared units has no unit for the product term of the two
   money units (no quantity type defined as Money**2 has been declared); it
   then holds for two different currencies and for one currency alike.
   PARTIAL: that the hypothesis holds in every state reachable without such a
   declaration (an invariant of the term directory, Model/Registry.v) is not
   proved here; it is validated by the correspondence on every run, with and
   without the predefined catalogue loaded. *)
Theorem C08_mixed_mul_partial : forall te dm p q,
  te false (q_unit p) (q_unit q) = None ->
  qty_mul_qty te dm p q = Err EUndefinedResult.
Proof. exact money_mul_undefined. Qed.
Print Assumptions C08_mixed_mul_partial.

(* the hypothesis [mixed_pair] is what registration produces: two registered
   currencies with different codes, in any reachable state, Money without
   converter — and the pair is symmetric, so everything above holds in both
   operand orders *)
Theorem C08_mixed_registered : forall t ce mc st c d, reachable t st ->
  In c (st_units st) -> In d (st_units st) -> c_sym c <> c_sym d -> ce mc = [] ->
  mixed_pair ce (cur_unit mc c) (cur_unit mc d) /\
  mixed_pair ce (cur_unit mc d) (cur_unit mc c).
Proof.
  intros t ce mc st c d R Hc Hd Hs Hce. split.
  - exact (registered_mixed_reachable t ce mc st c d R Hc Hd Hs Hce).
  - apply mixed_pair_sym. exact (registered_mixed_reachable t ce mc st c d R Hc Hd Hs Hce).
Qed.
Print Assumptions C08_mixed_registered.

(* ---------------- within one currency ---------------------------------- *)

(* +, -, neg, abs, * and / by a number, convert to itself: an amount of the
   same currency (same unit, hence class Money) on the currency's grid;
   money / money of one currency is the plain quotient of the amounts (zero
   divisor: ZeroDivisionError); ==, <, <=, >, >= compare the amounts *)
Theorem C08_same_currency_closed : forall ce te dm c sf, currency_view c sf -> forall a b,
  (forall sub, exists r, qty_addsub sub ce dm (mkQty a c) (mkQty b c) = Ok r /\
       r = mk_qty dm (if sub then qsub a b else qadd a b) c /\ in_currency c sf r) /\
  in_currency c sf (qty_neg dm (mkQty a c)) /\
  in_currency c sf (qty_abs dm (mkQty a c)) /\
  (forall k, in_currency c sf (qty_mul_num dm (mkQty a c) k)) /\
  (forall k, ~ k == 0 -> exists r, qty_div_num dm (mkQty a c) k = Ok r /\ in_currency c sf r) /\
  (exists r, convert ce dm (mkQty a c) c = Ok r /\ r = mk_qty dm a c /\ in_currency c sf r) /\
  (~ b == 0 -> qty_div_qty ce te dm (mkQty a c) (mkQty b c) = Ok (RNum (qdiv a b))) /\
  (b == 0 -> qty_div_qty ce te dm (mkQty a c) (mkQty b c) = Err EZeroDivision) /\
  qty_eq ce (mkQty a c) (mkQty b c) = Ok (qeqb a b) /\
  (forall op, qty_cmp ce op (mkQty a c) (mkQty b c) = Ok (cmp_q op a b)).
Proof. exact same_currency_closed. Qed.
Print Assumptions C08_same_currency_closed.

(* ... and on amounts that are multiples of the smallest fraction (all
   constructed amounts are, see below) +, -, neg, abs lose nothing *)
Theorem C08_same_currency_exact : forall ce dm c sf, currency_view c sf -> ~ sf == 0 ->
  forall a b, on_grid a sf -> on_grid b sf ->
  (forall sub, exists r, qty_addsub sub ce dm (mkQty a c) (mkQty b c) = Ok r /\
       q_unit r = c /\ q_amt r == (if sub then a - b else a + b)) /\
  q_amt (qty_neg dm (mkQty a c)) == - a /\
  q_amt (qty_abs dm (mkQty a c)) == Qabs a.
Proof. exact same_currency_exact. Qed.
Print Assumptions C08_same_currency_exact.

(* ---------------- every amount is rounded to the smallest fraction ------ *)

Theorem C08_rounded_to_fraction : forall dm a c sf, u_quantum c = Some sf ->
  let r := q_amt (mk_qty dm a c) in
  on_grid r sf /\
  (0 < sf ->
     Qabs (r - a) < sf /\
     (half_mode dm = true -> Qabs (r - a) <= (1 # 2) * sf) /\
     (dm = MFLOOR -> r <= a) /\ (dm = MCEIL -> a <= r) /\
     (dm = MDOWN -> Qabs r <= Qabs a) /\ (dm = MUP -> Qabs a <= Qabs r)).
Proof. exact rounded_to_fraction. Qed.
Print Assumptions C08_rounded_to_fraction.

(* the constructor itself: defined unless the smallest fraction is zero *)
Theorem C08_constructor_defined : forall dm a c sf, u_quantum c = Some sf ->
  (~ sf == 0 -> money_new dm a c = Ok (mk_qty dm a c)) /\
  (sf == 0 -> money_new dm a c = Err EZeroDivision).
Proof. exact money_new_ok. Qed.
Print Assumptions C08_constructor_defined.

(* ---------------- registration ------------------------------------------ *)

(* in every reachable state, registering the code of ANY registered currency
   returns that very object (same identity, name, fraction) and leaves the
   registry unchanged *)
Theorem C08_register_registered : forall t st c, reachable t st -> In c (st_units st) ->
  register_currency t st (CodeStr (c_sym c)) = Ok (c, st) /\
  step t st (OpRegister (CodeStr (c_sym c))) = st.
Proof. exact register_registered_reachable. Qed.
Print Assumptions C08_register_registered.

(* whatever a registration returned, the second registration — immediately or
   after any further history — returns the identical object, state unchanged *)
Theorem C08_register_idempotent : forall t st code c st1, reachable t st ->
  register_currency t st code = Ok (c, st1) ->
  register_currency t st1 code = Ok (c, st1) /\
  forall ops, register_currency t (run t st1 ops) code = Ok (c, run t st1 ops).
Proof. exact register_idempotent_reachable. Qed.
Print Assumptions C08_register_idempotent.

(* one currency per code, one identity per currency *)
Theorem C08_registry_injective : forall t st c d, reachable t st ->
  In c (st_units st) -> In d (st_units st) ->
  (c_sym c = c_sym d -> c = d) /\ (c_uid c = c_uid d -> c = d).
Proof. exact reachable_distinct. Qed.
Print Assumptions C08_registry_injective.

(* ---------------- the bundled ISO 4217 table ----------------------------- *)

(* for EVERY usable row of the generated table (exhaustive: 281 rows, 167
   codes) and every state in which the code is still free — in particular the
   fresh interpreter — registration yields the row's code and name and a
   smallest fraction equal to 10^-minor units (positive) *)
Theorem C08_iso_table : forall r, In r iso_table -> row_usable r = true ->
  exists m, row_minor r = Some m /\ (0 <= m)%Z /\
  forall st, sym_taken st (row_code r) = false ->
  exists c, register_currency iso_table st (CodeStr (row_code r)) = Ok (c, st_add st c) /\
            c_sym c = row_code r /\ c_name c = Some (row_name r) /\ cur_name c = row_name r /\
            c_sf c == (10 # 1) ^ (- m) /\ 0 < c_sf c /\ c_uid c = st_next st.
Proof. exact iso_table_registration. Qed.
Print Assumptions C08_iso_table.

(* every other row of the table (no minor units: metals, bond market units,
   test code, "no currency") is rejected, as long as no user currency took
   the code *)
Theorem C08_iso_table_rejected : forall r, In r iso_table -> row_usable r = false ->
  forall st, find_unit st (row_code r) = None ->
  register_currency iso_table st (CodeStr (row_code r)) = Err EValueError.
Proof. exact iso_table_rejection. Qed.
Print Assumptions C08_iso_table_rejected.

(* unknown codes — every string without usable row, and every non-string —
   are rejected with ValueError and the registry is unchanged *)
Theorem C08_unknown_rejected : forall t st,
  (forall s, iso_lookup t s = None -> find_unit st s = None ->
     register_currency t st (CodeStr s) = Err EValueError /\
     step t st (OpRegister (CodeStr s)) = st) /\
  register_currency t st CodeOther = Err EValueError /\
  step t st (OpRegister CodeOther) = st.
Proof. exact unknown_rejected. Qed.
Print Assumptions C08_unknown_rejected.

Theorem C08_unknown_characterised : forall t s,
  iso_lookup t s = None <-> forall r, In r t -> row_usable r = true -> row_code r <> s.
Proof. exact iso_lookup_none_iff. Qed.
Print Assumptions C08_unknown_characterised.

(* a failing registration / declaration leaves no trace *)
Theorem C08_failed_step_unchanged : forall t st op e,
  fst (run_op t st op) = Err e -> snd (run_op t st op) = st.
Proof. exact failed_step_unchanged. Qed.
Print Assumptions C08_failed_step_unchanged.

(* ---------------- user-defined currencies -------------------------------- *)

(* the smallest fraction of a new currency, exactly as the code decides it *)
Theorem C08_new_currency_fraction_rules : forall mu sf f,
  resolve_fraction mu sf = Ok f <->
  (mu = MinNone /\ sf = SfNone /\ f = 1 # 100) \/
  (exists z, mu = MinInt z /\ (0 <= z)%Z /\ sf = SfNone /\ f = pow10 (- z)) \/
  (exists v p, mu = MinNone /\ sf = SfDec v p /\ f = v /\ 0 < v /\
               exists k, (1 < k)%Z /\ v * inject_Z k == 1) \/
  (exists z v p, mu = MinInt z /\ (0 <= z)%Z /\ sf = SfDec v p /\ z = p /\ f = v).
Proof. exact resolve_fraction_ok_iff. Qed.
Print Assumptions C08_new_currency_fraction_rules.

(* a created currency carries the given symbol and name, a fresh identity,
   and — unless minor_unit AND smallest_fraction were both given — a positive
   fraction of which 1 is an integral multiple *)
Theorem C08_new_currency_valid : forall st sym name mu sf c st',
  new_unit st sym name mu sf = Ok (c, st') ->
  (exists s, sym = SymStr s /\ s <> [] /\ sym_taken st s = false /\ c_sym c = s) /\
  c_name c = name /\ c_uid c = st_next st /\ st' = st_add st c /\
  resolve_fraction mu sf = Ok (c_sf c) /\
  (sf = SfNone \/ mu = MinNone ->
     0 < c_sf c /\ exists k, (1 <= k)%Z /\ c_sf c * inject_Z k == 1).
Proof. exact new_currency_valid. Qed.
Print Assumptions C08_new_currency_valid.

(* THE MODEL IS THE CODE: the validation part of MoneyMeta.new_unit (which smallest
   fraction a currency gets from minor_unit / smallest_fraction, and which
   combinations are rejected with which exception) is re-translated from
   src/quantity/money/__init__.py on every run (Gen/FractionImpl.v, fail-closed
   symbolic execution per kind of argument, translate/fraction.py) and is equal, on
   all inputs, to the model function the theorems above are about *)
Theorem C08_fraction_rule_is_translated_code : forall mu sf,
  resolve_fraction_impl mu sf = resolve_fraction mu sf.
Proof. exact resolve_fraction_impl_eq. Qed.
Print Assumptions C08_fraction_rule_is_translated_code.

(* ---------------- non-vacuity -------------------------------------------- *)

Definition s_EUR : str := [69; 85; 82]%N.
Definition s_USD : str := [85; 83; 68]%N.
Definition s_JPY : str := [74; 80; 89]%N.
Definition s_BHD : str := [66; 72; 68]%N.
Definition s_XAU : str := [88; 65; 85]%N.

Definition reg1 (s : str) : option (str * Q * N) :=
  match register_currency iso_table (st_init []) (CodeStr s) with
  | Ok (c, _) => Some (cur_name c, Qred (c_sf c), c_uid c)
  | Err _ => None
  end.

(* "Euro", 1/100 *)
Example C08_ex_EUR : reg1 s_EUR = Some ([69; 117; 114; 111]%N, 1 # 100, 0%N).
Proof. vm_compute. reflexivity. Qed.
(* "Yen", 0 minor units: 1 *)
Example C08_ex_JPY : reg1 s_JPY = Some ([89; 101; 110]%N, 1 # 1, 0%N).
Proof. vm_compute. reflexivity. Qed.
(* "Bahraini Dinar", 3 minor units: 1/1000 *)
Example C08_ex_BHD : reg1 s_BHD =
  Some ([66; 97; 104; 114; 97; 105; 110; 105; 32; 68; 105; 110; 97; 114]%N, 1 # 1000, 0%N).
Proof. vm_compute. reflexivity. Qed.
(* gold has no minor units: rejected *)
Example C08_ex_XAU : reg1 s_XAU = None.
Proof. vm_compute. reflexivity. Qed.

(* the table: 281 rows, 265 usable, 167 distinct registrable codes *)
Example C08_ex_table_size :
  (length iso_table, length (filter row_usable iso_table),
   length (nodup (list_eq_dec N.eq_dec) (map row_code (filter row_usable iso_table))))
  = (281, 265, 167)%nat.
Proof. vm_compute. reflexivity. Qed.

(* EUR then USD then EUR again: the third call returns the first object; the
   two views form a mixed pair and every mixed operation behaves as stated *)
Definition ex_state : mstate :=
  run iso_table (st_init []) [OpRegister (CodeStr s_EUR); OpRegister (CodeStr s_USD)].
Definition ex_eur : unit := mkUnit 0 7 false None (Some (1 # 100)).
Definition ex_usd : unit := mkUnit 1 7 false None (Some (1 # 100)).

Example C08_ex_views :
  map (cur_unit 7) (st_units ex_state) = [ex_eur; ex_usd] /\
  match register_currency iso_table ex_state (CodeStr s_EUR) with
  | Ok (c, st) => (c_uid c, length (st_units st))
  | Err _ => (99%N, 0%nat)
  end = (0%N, 2%nat).
Proof. vm_compute. split; reflexivity. Qed.

Example C08_ex_mixed_pair : mixed_pair (fun _ => []) ex_eur ex_usd.
Proof. split; reflexivity. Qed.

Example C08_ex_mixed_ops :
  (qty_add (fun _ => []) MHEVEN (mkQty 5 ex_eur) (mkQty 3 ex_usd),
   qty_cmp (fun _ => []) CLt (mkQty 5 ex_eur) (mkQty 3 ex_usd),
   qty_eq (fun _ => []) (mkQty 5 ex_eur) (mkQty 3 ex_usd),
   qty_div_qty (fun _ => []) (fun _ _ _ => None) MHEVEN (mkQty 5 ex_eur) (mkQty 3 ex_usd),
   qty_mul_qty (fun _ _ _ => None) MHEVEN (mkQty 5 ex_eur) (mkQty 3 ex_usd),
   qty_div_qty (fun _ => []) (fun _ _ _ => None) MHEVEN (mkQty 5 ex_eur) (mkQty 2 ex_eur))
  = (Err EUnitConversion, Err EUnitConversion, Ok false, Err EUnitConversion,
     Err EUndefinedResult, Ok (RNum (5 # 2))).
Proof. vm_compute. reflexivity. Qed.

(* 0.125 EUR under the eight default modes *)
Example C08_ex_rounding :
  map (fun m => Qred (q_amt (mk_qty m (1 # 8) ex_eur))) all_modes
  = [3 # 25; 13 # 100; 3 # 25; 3 # 25; 3 # 25; 3 # 25; 13 # 100; 13 # 100].
Proof. vm_compute. reflexivity. Qed.

(* the quirk of MoneyMeta.new_unit (DESIGN appendix A): with minor_unit given,
   only the number of fractional digits of smallest_fraction is compared — a
   zero fraction passes and every amount of that currency is a
   ZeroDivisionError *)
Example C08_ex_zero_fraction_quirk :
  match new_unit (st_init []) (SymStr [90; 90; 90]%N) None (MinInt 2) (SfDec 0 2) with
  | Ok (c, _) => Some (c_sf c, money_new MHEVEN 5 (cur_unit 7 c))
  | Err _ => None
  end = Some (0, Err EZeroDivision).
Proof. vm_compute. reflexivity. Qed.

(* ---------------- money x money on the directory model ---------------- *)
(* The hypothesis of C08_mixed_mul_partial ("no unit is registered for the
   product term") is discharged on the directory model (Model/Registry.v) for
   every directory reachable by declarations in which no type of dimension
   Money**2 exists: there the product of two currencies resolves to nothing,
   hence UndefinedResultError. *)
From QV Require Model.Registry Model.Dim Proofs.RegistryProofs Proofs.DirectoryProofs
     Proofs.C02Proofs Proofs.C02Undef.
Theorem C08_money_times_money_undefined : forall dm s u v cm,
  C02Proofs.Reach dm s ->
  In u (Registry.st_units s) -> In v (Registry.st_units s) ->
  Registry.find_cls s (Registry.ru_cls u) = Some cm ->
  Registry.find_cls s (Registry.ru_cls v) = Some cm ->
  Dim.nf_dim (Dim.nf_mul (Registry.ru_nf u) (Registry.ru_nf v)) <> [] ->
  (forall c, In c (Registry.st_classes s) ->
     Registry.rc_dim c <> Dim.dv_mul (Registry.rc_dim cm) (Registry.rc_dim cm)) ->
  snd (Registry.unit_mul (RegistryProofs.clear_cache s) u v) = Err EUndefinedResult.
Proof. exact C02Undef.R_money_times_money_undefined. Qed.
Print Assumptions C08_money_times_money_undefined.
