(* Property C04 — equality and ordering agree with exact reference values.
   Statements only.  In the model amounts are exact rationals, so the result
   cannot depend on whether the implementation holds a Decimal or a Fraction;
   that tie is the correspondence (both representations are generated). *)
From Coq Require Import ZArith QArith Qabs List Bool.
From QV Require Import Gen.QuantityImpl Proofs.GenQuantityEq Model.Num Model.Rounding Model.Quantity
     Proofs.QuantityProofs Proofs.C13Proofs Proofs.C01Proofs Proofs.C03C04Proofs.

(* each ordering operator = the operator on the reference values *)
Theorem C04_order_ref : forall ce op a u b v,
  lin u = true -> lin v = true -> same_cls u v = true -> id_ok u v ->
  pos_scale u -> pos_scale v ->
  qty_cmp ce op (mkQty a u) (mkQty b v) = Ok (cmp_q op (a * scale u) (b * scale v)).
Proof. exact cmp_ref. Qed.
Print Assumptions C04_order_ref.

Theorem C04_equality_ref : forall ce a u b v,
  lin u = true -> lin v = true -> same_cls u v = true -> id_ok u v ->
  qty_eq ce (mkQty a u) (mkQty b v) = Ok (qeqb (a * scale u) (b * scale v)).
Proof. exact eq_ref. Qed.
Print Assumptions C04_equality_ref.

(* hence, on reference values x y z: equivalence, total order, trichotomy *)
Theorem C04_eq_reflexive : forall x, qeqb x x = true.
Proof. exact qeqb_refl. Qed.
Print Assumptions C04_eq_reflexive.
Theorem C04_eq_symmetric : forall x y, qeqb x y = qeqb y x.
Proof. exact qeqb_sym. Qed.
Print Assumptions C04_eq_symmetric.
Theorem C04_eq_transitive : forall x y z, qeqb x y = true -> qeqb y z = true -> qeqb x z = true.
Proof. exact qeqb_trans. Qed.
Print Assumptions C04_eq_transitive.
Theorem C04_le_transitive : forall x y z, qleb x y = true -> qleb y z = true -> qleb x z = true.
Proof. exact cmp_q_le_trans. Qed.
Print Assumptions C04_le_transitive.
Theorem C04_lt_transitive : forall x y z, qltb x y = true -> qltb y z = true -> qltb x z = true.
Proof. exact cmp_q_lt_trans. Qed.
Print Assumptions C04_lt_transitive.
Theorem C04_le_total : forall x y, qleb x y = true \/ qleb y x = true.
Proof. exact cmp_q_le_total. Qed.
Print Assumptions C04_le_total.
Theorem C04_trichotomy : forall x y,
  (qltb x y = true /\ qeqb x y = false /\ qltb y x = false) \/
  (qltb x y = false /\ qeqb x y = true /\ qltb y x = false) \/
  (qltb x y = false /\ qeqb x y = false /\ qltb y x = true).
Proof. exact cmp_q_trichotomy. Qed.
Print Assumptions C04_trichotomy.
Theorem C04_le_is_lt_or_eq : forall x y, qleb x y = orb (qltb x y) (qeqb x y).
Proof. exact cmp_q_le_iff_lt_or_eq. Qed.
Print Assumptions C04_le_is_lt_or_eq.

(* units of one type compare by their scale *)
Theorem C04_units_order_by_scale : forall op u v,
  lin u = true -> lin v = true -> same_cls u v = true -> pos_scale v ->
  unit_cmp op u v = Ok (cmp_q op (scale u) (scale v)).
Proof. exact unit_cmp_scale. Qed.
Print Assumptions C04_units_order_by_scale.
Theorem C04_units_equal_by_scale : forall u v,
  lin u = true -> lin v = true -> same_cls u v = true ->
  unit_eq u v = Ok (qeqb (scale u) (scale v)).
Proof. exact unit_eq_scale. Qed.
Print Assumptions C04_units_equal_by_scale.

(* THE MODEL IS THE CODE: equality and ordering as re-translated from
   src/quantity/__init__.py on every run equal the model functions above *)
Theorem C04_model_is_translated_code : forall ce p q op u v,
  qty_eq_impl ce p q = qty_eq ce p q /\ qty_cmp_impl ce p q op = qty_cmp ce op p q /\
  unit_eq_impl u v = unit_eq u v /\ unit_cmp_impl u v op = unit_cmp op u v.
Proof.
  intros. split; [apply qty_eq_impl_eq|]. split; [apply qty_cmp_impl_eq|].
  split; [apply unit_eq_impl_eq | apply unit_cmp_impl_eq].
Qed.
Print Assumptions C04_model_is_translated_code.

Definition ex_km := mkUnit 1 7 true (Some (1000 # 1)) None.
Definition ex_m  := mkUnit 2 7 true (Some 1) None.
Example C04_premises : lin ex_km = true /\ lin ex_m = true /\ same_cls ex_km ex_m = true
  /\ (0 < scale ex_km)%Q /\ (0 < scale ex_m)%Q.
Proof. vm_compute. repeat split. Qed.
Example C04_km_vs_m :
  qty_eq (fun _ => []) (mkQty 1 ex_km) (mkQty (1000 # 1) ex_m) = Ok true /\
  qty_cmp (fun _ => []) CLt (mkQty 1 ex_km) (mkQty (1001 # 1) ex_m) = Ok true.
Proof. vm_compute. split; reflexivity. Qed.
