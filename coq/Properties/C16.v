(* Property C16 — rejected declarations leave no trace.  Statements only. *)
From Coq Require Import ZArith QArith Qabs List Bool.
From QV Require Import Model.Num Model.Rounding Model.Quantity Model.Dim Model.Registry
     Proofs.QuantityProofs Proofs.DimProofs Proofs.RegistryProofs Proofs.DirectoryProofs
     Proofs.C02Proofs Proofs.C15Proofs
     Model.Effects Proofs.EffectsProofs Gen.EffectsImpl.

(* The model executes a type declaration in the order of the code's side
   effects: checks of __new__, registration of the reference unit (symbol map,
   term map), registration of the type — [decl_class] returns the directory as
   it is when the exception is raised.  In every coherent directory a raised
   exception means the directory is literally unchanged: all checks that can
   fail come before the first write. *)
Theorem C16_step_error_noop : forall dm s d s' e,
  CInv s -> step dm s d = (s', Some e) -> s' = s.
Proof. exact step_error_noop. Qed.
Print Assumptions C16_step_error_noop.

Theorem C16_type_declaration_error_noop : forall s id def ref_sym auto quantum money s' e,
  CInv s -> decl_class s id def ref_sym auto quantum money = (s', Some e) -> s' = s.
Proof. exact decl_class_error_noop. Qed.
Print Assumptions C16_type_declaration_error_noop.

(* for every reachable directory and every declaration: either accepted (and
   all invariants continue to hold, nothing existing changes) or rejected with
   the directory — hence every observation: Unit(symbol), cls.units(), the
   factory — exactly as before *)
Theorem C16_accepted_or_untouched : forall dm s d s' e,
  AllInv s -> guard dm s d = true -> step dm s d = (s', e) ->
  AllInv s' /\ ext s s' /\ (e <> None -> s' = s).
Proof. exact step_ok. Qed.
Print Assumptions C16_accepted_or_untouched.

Theorem C16_reachable_rejection_noop : forall dm s d s' e,
  Reach dm s -> step dm s d = (s', Some e) ->
  s' = s /\ (forall sym, obs_symbol s' sym = obs_symbol s sym) /\
  (forall cid, obs_units s' cid = obs_units s cid).
Proof.
  intros dm s d s' e R H.
  assert (E : s' = s) by (eapply step_error_noop; [apply (Reach_inv dm s R) | exact H]).
  subst. auto.
Qed.
Print Assumptions C16_reachable_rejection_noop.

(* the same as a statement about the CODE's control flow, for all inputs: the
   bodies of the declaring methods (QuantityMeta._make_unit, _make_ref_unit,
   new_unit, derive_unit_from, MoneyMeta.new_unit, register_currency,
   MoneyConverter.update) are re-translated on every run into the effect
   language of Model/Effects.v (Gen/EffectsImpl.v; Guard = may raise, Write = a
   write to a directory, registry or converter table).  Each passes the check
   [atomic]; by EffectsProofs.atomic_sound (proved once, for every program of the
   language) an execution that ends in an exception has written nothing *)
Theorem C16_declaring_methods_raise_before_they_write :
  forall p, In p declaring_methods -> forall w', ex_l p false Exc w' -> w' = false.
Proof.
  intros p H. apply atomic_sound.
  assert (A : forallb atomic declaring_methods = true) by (vm_compute; reflexivity).
  rewrite forallb_forall in A. apply A, H.
Qed.
Print Assumptions C16_declaring_methods_raise_before_they_write.

(* the check is not vacuous: it rejects the shapes of the seeded changes (a write
   before the duplicate-symbol check; the kind of validity fixed before the rates
   are built) *)
Example C16_atomic_rejects :
  atomic [Guard; Write; If [Guard; Raise] [Guard; Write]; Write; Return] = false /\
  atomic [Guard; If [Write] [If [Raise] []]; Guard; Write] = false /\
  atomic make_unit_prog = true /\ atomic converter_update_prog = true.
Proof. vm_compute. repeat split. Qed.

(* non-vacuity: a second type for Length**2 with its own reference symbol is
   rejected and the symbol stays free for a later valid declaration *)
Definition ex16 : list decl :=
  [DeclClass 1 None (Some 1%N) 0%N None false;
   DeclClass 2 (Some [(1%N, 2%Z)]) None 3%N None false].
Example C16_example :
  let s := run MHEVEN init ex16 in
  snd (step MHEVEN s (DeclClass 3 (Some [(1%N, 2%Z)]) (Some 5%N) 0%N None false)) = Some EValueError /\
  find_unit (fst (step MHEVEN s (DeclClass 3 (Some [(1%N, 2%Z)]) (Some 5%N) 0%N None false))) 5 = None /\
  snd (step MHEVEN s (NewUnit 1 5 (DQty (1000 # 1) 1))) = None.
Proof. vm_compute. repeat split. Qed.
