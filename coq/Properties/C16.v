(* Property C16 — rejected declarations leave no trace.  Statements only. *)
From Coq Require Import ZArith QArith Qabs List Bool.
From QV Require Import Model.Num Model.Rounding Model.Quantity Model.Dim Model.Registry
     Proofs.QuantityProofs Proofs.DimProofs Proofs.RegistryProofs Proofs.DirectoryProofs
     Proofs.C02Proofs Proofs.C15Proofs.

(* The model executes a type declaration in the order of the code's side
   effects: checks of __new__, registration of the reference unit (symbol map,
   term map), registration of the type — [decl_class] returns the directory as
   it is when the exception is raised.  In every coherent directory a raised
   exception means the directory is literally unchanged: all checks that can
   fail come before the first write. *)
Theorem C16_step_error_noop : forall dm s d s' e,
  CInv s -> step dm s d = (s', Some e) -> s' = s.
Proof. exact step_error_noop. Qed.
Print Assumptions C16_step_error_noop.

Theorem C16_type_declaration_error_noop : forall s id def ref_sym auto quantum money s' e,
  CInv s -> decl_class s id def ref_sym auto quantum money = (s', Some e) -> s' = s.
Proof. exact decl_class_error_noop. Qed.
Print Assumptions C16_type_declaration_error_noop.

(* for every reachable directory and every declaration: either accepted (and
   all invariants continue to hold, nothing existing changes) or rejected with
   the directory — hence every observation: Unit(symbol), cls.units(), the
   factory — exactly as before *)
Theorem C16_accepted_or_untouched : forall dm s d s' e,
  AllInv s -> guard dm s d = true -> step dm s d = (s', e) ->
  AllInv s' /\ ext s s' /\ (e <> None -> s' = s).
Proof. exact step_ok. Qed.
Print Assumptions C16_accepted_or_untouched.

Theorem C16_reachable_rejection_noop : forall dm s d s' e,
  Reach dm s -> step dm s d = (s', Some e) ->
  s' = s /\ (forall sym, obs_symbol s' sym = obs_symbol s sym) /\
  (forall cid, obs_units s' cid = obs_units s cid).
Proof.
  intros dm s d s' e R H.
  assert (E : s' = s) by (eapply step_error_noop; [apply (Reach_inv dm s R) | exact H]).
  subst. auto.
Qed.
Print Assumptions C16_reachable_rejection_noop.

(* non-vacuity: a second type for Length**2 with its own reference symbol is
   rejected and the symbol stays free for a later valid declaration *)
Definition ex16 : list decl :=
  [DeclClass 1 None (Some 1%N) 0%N None false;
   DeclClass 2 (Some [(1%N, 2%Z)]) None 3%N None false].
Example C16_example :
  let s := run MHEVEN init ex16 in
  snd (step MHEVEN s (DeclClass 3 (Some [(1%N, 2%Z)]) (Some 5%N) 0%N None false)) = Some EValueError /\
  find_unit (fst (step MHEVEN s (DeclClass 3 (Some [(1%N, 2%Z)]) (Some 5%N) 0%N None false))) 5 = None /\
  snd (step MHEVEN s (NewUnit 1 5 (DQty (1000 # 1) 1))) = None.
Proof. vm_compute. repeat split. Qed.
