(* Property C03 — addition, subtraction and comparison never mix quantity types;
   sums are exact by reference value.  Statements only. *)
From Coq Require Import ZArith QArith Qabs List Bool.
From QV Require Import Gen.QuantityImpl Proofs.GenQuantityEq Model.Num Model.Rounding Model.Quantity
     Proofs.QuantityProofs Proofs.C13Proofs Proofs.C01Proofs Proofs.C03C04Proofs.

Theorem C03_mixed_add_sub : forall sub ce dm p q,
  same_cls (q_unit p) (q_unit q) = false ->
  qty_addsub sub ce dm p q = Err EIncompatibleUnits.
Proof. exact addsub_other_type. Qed.
Print Assumptions C03_mixed_add_sub.

Theorem C03_mixed_order : forall ce op p q,
  same_cls (q_unit p) (q_unit q) = false ->
  qty_cmp ce op p q = Err EIncompatibleUnits.
Proof. exact cmp_other_type. Qed.
Print Assumptions C03_mixed_order.

Theorem C03_mixed_equality_false : forall ce p q,
  same_cls (q_unit p) (q_unit q) = false -> qty_eq ce p q = Ok false.
Proof. exact eq_other_type. Qed.
Print Assumptions C03_mixed_equality_false.

(* a plain number on either side: TypeError, no value *)
Theorem C03_number_add_sub : forall sub ce dm x y,
  (exists k, x = OpNum k) \/ (exists k, y = OpNum k) ->
  op_addsub sub ce dm x y = Err ETypeError.
Proof. exact addsub_number. Qed.
Print Assumptions C03_number_add_sub.
Theorem C03_number_order : forall ce op x y,
  (exists k, x = OpNum k) \/ (exists k, y = OpNum k) ->
  op_cmp ce op x y = Err ETypeError.
Proof. exact cmp_number. Qed.
Print Assumptions C03_number_order.
Theorem C03_number_equality_false : forall ce p k,
  op_eq ce (OpQty p) (OpNum k) = Ok false /\ op_eq ce (OpNum k) (OpQty p) = Ok false.
Proof. exact eq_number. Qed.
Print Assumptions C03_number_equality_false.

(* left operand's unit; amount = a +- b converted, then the constructor *)
Theorem C03_sum_unit_and_amount : forall sub ce dm a u b v,
  lin u = true -> lin v = true -> same_cls u v = true ->
  exists r, qty_addsub sub ce dm (mkQty a u) (mkQty b v) = Ok r /\ q_unit r = u /\
            q_amt r == mk_amt dm (pm sub a (b * (scale v / scale u))) u.
Proof. exact addsub_lin. Qed.
Print Assumptions C03_sum_unit_and_amount.

(* reference value of the result = sum / difference of reference values *)
Theorem C03_sum_reference_value : forall sub ce dm a u b v,
  lin u = true -> lin v = true -> same_cls u v = true -> u_quantum u = None ->
  exists r, qty_addsub sub ce dm (mkQty a u) (mkQty b v) = Ok r /\ q_unit r = u /\
            refv r == pm sub (refv (mkQty a u)) (refv (mkQty b v)).
Proof. exact addsub_refv. Qed.
Print Assumptions C03_sum_reference_value.

(* the same for quantized types: on-grid operands, no rounding *)
Theorem C03_sum_quantized_exact : forall sub ce dm a u b v qu qv,
  lin u = true -> lin v = true -> same_cls u v = true ->
  u_quantum u = Some qu -> u_quantum v = Some qv -> ~ qu == 0 ->
  qu * scale u == qv * scale v ->
  on_grid a qu -> on_grid b qv ->
  exists r, qty_addsub sub ce dm (mkQty a u) (mkQty b v) = Ok r /\ q_unit r = u /\
            refv r == pm sub (refv (mkQty a u)) (refv (mkQty b v)) /\
            on_grid (q_amt r) qu.
Proof. exact addsub_quantized_exact. Qed.
Print Assumptions C03_sum_quantized_exact.

Theorem C03_commutative_by_value : forall ce dm a u b v,
  lin u = true -> lin v = true -> same_cls u v = true ->
  u_quantum u = None -> u_quantum v = None ->
  exists r1 r2, qty_add ce dm (mkQty a u) (mkQty b v) = Ok r1 /\
                qty_add ce dm (mkQty b v) (mkQty a u) = Ok r2 /\
                q_unit r1 = u /\ q_unit r2 = v /\ refv r1 == refv r2.
Proof. exact add_comm_value. Qed.
Print Assumptions C03_commutative_by_value.

Theorem C03_associative_by_value : forall ce dm a u b v c w,
  lin u = true -> lin v = true -> lin w = true ->
  same_cls u v = true -> same_cls v w = true ->
  u_quantum u = None -> u_quantum v = None ->
  exists s1 r1 s2 r2,
    qty_add ce dm (mkQty a u) (mkQty b v) = Ok s1 /\ qty_add ce dm s1 (mkQty c w) = Ok r1 /\
    qty_add ce dm (mkQty b v) (mkQty c w) = Ok s2 /\ qty_add ce dm (mkQty a u) s2 = Ok r2 /\
    q_unit r1 = u /\ q_unit r2 = u /\ refv r1 == refv r2.
Proof. exact add_assoc_value. Qed.
Print Assumptions C03_associative_by_value.

Theorem C03_negation_is_inverse : forall ce dm a u,
  lin u = true -> u_quantum u = None ->
  exists r, qty_add ce dm (mkQty a u) (qty_neg dm (mkQty a u)) = Ok r /\
            q_unit r = u /\ q_amt r == 0.
Proof. exact neg_inverse. Qed.
Print Assumptions C03_negation_is_inverse.

Theorem C03_number_distributes : forall ce dm k a u b v,
  lin u = true -> lin v = true -> same_cls u v = true ->
  u_quantum u = None -> u_quantum v = None ->
  exists s r,
    qty_add ce dm (mkQty a u) (mkQty b v) = Ok s /\
    qty_add ce dm (qty_mul_num dm (mkQty a u) k) (qty_mul_num dm (mkQty b v) k) = Ok r /\
    q_unit r = u /\ refv r == refv (qty_mul_num dm s k).
Proof. exact mul_distributes. Qed.
Print Assumptions C03_number_distributes.

Theorem C03_sum_function_is_fold : forall ce dm p l,
  qty_sum_from ce dm p l =
  fold_left (fun acc x => bind acc (fun a => qty_add ce dm a x)) l (Ok p).
Proof. exact sum_is_fold. Qed.
Print Assumptions C03_sum_function_is_fold.

(* THE MODEL IS THE CODE: addition and subtraction as re-translated from
   src/quantity/__init__.py on every run equal the model functions above *)
Theorem C03_model_is_translated_code : forall ce dm p q,
  qty_add_impl ce dm p q = qty_add ce dm p q /\ qty_sub_impl ce dm p q = qty_sub ce dm p q.
Proof. intros. split; [apply qty_add_impl_eq | apply qty_sub_impl_eq]. Qed.
Print Assumptions C03_model_is_translated_code.

Definition ex_m  := mkUnit 1 7 true (Some 1) None.
Definition ex_cm := mkUnit 2 7 true (Some (1 # 100)) None.
Definition ex_s  := mkUnit 3 8 true (Some 1) None.
Example C03_premises : lin ex_m = true /\ lin ex_cm = true /\ same_cls ex_m ex_cm = true
  /\ same_cls ex_m ex_s = false.
Proof. vm_compute. repeat split. Qed.
Example C03_example :
  match qty_add (fun _ => []) MHEVEN (mkQty (12 # 1) ex_cm) (mkQty (17 # 1) ex_m) with
  | Ok r => Qeq_bool (q_amt r) (1712 # 1) && N.eqb (u_id (q_unit r)) 2 | Err _ => false end = true.
Proof. vm_compute. reflexivity. Qed.
