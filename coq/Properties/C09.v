(* Property C09 — exchange rates: normal form, accuracy, inversion and
   triangulation.  Only statements; every proof is `exact <lemma>`.
   Model: Model/Rates.v (mk_rate = ExchangeRate.__init__, rate_of = .rate,
   inverse_rate, inverted, rate_mul = r1 * r2, rate_div = r1 / r2); currencies
   are N ids; [dm] is the default rounding mode in force (all eight covered).

   Vocabulary (Proofs/C09Proofs.v):
     built r        := exists dm u m t a, mk_rate dm u m t a = Ok r
     q6             := 1 # 1000000
     accurate dm r x := |r_amt r - x * r_mult r| < q6  /\
                        (half_mode dm = true -> |r_amt r - x * r_mult r| <= 1/2 * q6)
     derived dm res u t x :=
        (u = t -> res = Err EValueError) /\
        (x < q6 -> res = Err EValueError) /\
        (u <> t -> q6 <= x -> exists r', res = Ok r' /\ built r' /\
                              r_unit r' = u /\ r_term r' = t /\ accurate dm r' x) *)
From Coq Require Import ZArith QArith Qabs List Bool.
From QV Require Import Gen.RatesImpl Proofs.GenRatesEq.
From QV Require Import Model.Num Model.Rounding Model.Quantity Model.Rates
     Proofs.RoundingQ Proofs.C09Proofs.

(* floor(log10 q) as the model computes it is exact for EVERY positive
   rational (the implementation uses Decimal.magnitude resp. float log10) *)
Theorem C09_magnitude_spec : forall q, 0 < q ->
  pow10 (magnitude q) <= q /\ q < pow10 (magnitude q + 1).
Proof. exact magnitude_spec. Qed.
Print Assumptions C09_magnitude_spec.

(* normal form: currencies as given, unit multiple a power of ten not below
   one, positive term amount with at most six fractional digits, not below
   1/10 i.e. magnitude >= -1 *)
Theorem C09_normal_form : forall dm u m t a r, mk_rate dm u m t a = Ok r ->
  r_unit r = u /\ r_term r = t /\
  (exists k, (0 <= k)%Z /\ r_mult r == (10 # 1) ^ k) /\
  0 < r_amt r /\
  (exists n : Z, r_amt r * (1000000 # 1) == inject_Z n) /\
  1 # 10 <= r_amt r /\
  (-1 <= magnitude (r_amt r))%Z.
Proof. exact normal_form. Qed.
Print Assumptions C09_normal_form.

(* the multiple is enlarged beyond 10^floor(log10 multiple) only while the
   scaled amount is still below one *)
Theorem C09_multiple_minimal : forall dm u m t a r, mk_rate dm u m t a = Ok r ->
  exists k, r_mult r == (10 # 1) ^ k /\ (magnitude m <= k)%Z /\
    (k = magnitude m \/ a / m * r_mult r < 1).
Proof. exact multiple_minimal. Qed.
Print Assumptions C09_multiple_minimal.

(* accuracy: the term amount differs from (true rate) * (unit multiple) by
   less than 10^-6 under every default mode and by at most half of 10^-6
   under ROUND_HALF_EVEN (the default), ROUND_HALF_UP, ROUND_HALF_DOWN *)
Theorem C09_accuracy : forall dm u m t a r, mk_rate dm u m t a = Ok r ->
  Qabs (r_amt r - a / m * r_mult r) < 1 # 1000000 /\
  (half_mode dm = true -> Qabs (r_amt r - a / m * r_mult r) <= (1 # 2) * (1 # 1000000)).
Proof. exact accuracy. Qed.
Print Assumptions C09_accuracy.

(* guard made explicit: with a directed default mode (here ROUND_DOWN) the
   half-unit bound of the property text fails *)
Theorem C09_half_unit_needs_half_mode :
  exists r, mk_rate MDOWN 1%N 1 2%N (3333339 # 10000000) = Ok r /\
            (1 # 2) * (1 # 1000000) < Qabs (r_amt r - (3333339 # 10000000) / 1 * r_mult r).
Proof. exact half_unit_needs_half_mode. Qed.
Print Assumptions C09_half_unit_needs_half_mode.

(* rejection (ValueError) and acceptance are complementary *)
Theorem C09_rejects : forall dm u m t a,
  u = t \/ ~ (exists z, m == inject_Z z) \/ m < 1 \/ a < 1 # 1000000 ->
  mk_rate dm u m t a = Err EValueError.
Proof. exact rejects. Qed.
Print Assumptions C09_rejects.

Theorem C09_accepts : forall dm u m t a,
  u <> t -> (exists z, m == inject_Z z) -> 1 <= m -> 1 # 1000000 <= a ->
  exists r, mk_rate dm u m t a = Ok r.
Proof. exact accepts. Qed.
Print Assumptions C09_accepts.

Theorem C09_rate_inverse_one : forall r, built r -> rate_of r * inverse_rate r == 1.
Proof. exact rate_inverse_one. Qed.
Print Assumptions C09_rate_inverse_one.

(* inverted(): currencies swapped, term amount accurate for the reciprocal of
   the stored rate; rejected iff the reciprocal is below 10^-6 *)
Theorem C09_inverted : forall dm r, built r ->
  derived dm (inverted dm r) (r_term r) (r_unit r) (/ rate_of r).
Proof. exact inverted_spec. Qed.
Print Assumptions C09_inverted.

(* r1 * r2: first test unit(r1) = term(r2) -> unit(r2) => term(r1);
   else term(r1) = unit(r2) -> unit(r1) => term(r2); else ValueError.
   When both tests hold (X->Y times Y->X) the first one wins and the result
   Y => Y is rejected (first conjunct of [derived]). *)
Theorem C09_triangulation_mul : forall dm a b,
  (r_unit a = r_term b ->
     derived dm (rate_mul dm a b) (r_unit b) (r_term a) (rate_of a * rate_of b)) /\
  (r_unit a <> r_term b -> r_term a = r_unit b ->
     derived dm (rate_mul dm a b) (r_unit a) (r_term b) (rate_of a * rate_of b)) /\
  (r_unit a <> r_term b -> r_term a <> r_unit b -> rate_mul dm a b = Err EValueError).
Proof. exact triangulation_mul. Qed.
Print Assumptions C09_triangulation_mul.

(* r1 / r2: first test unit(r1) = unit(r2) -> term(r2) => term(r1);
   else term(r1) = term(r2) -> unit(r1) => unit(r2); else ValueError *)
Theorem C09_triangulation_div : forall dm a b,
  (r_unit a = r_unit b ->
     derived dm (rate_div dm a b) (r_term b) (r_term a) (rate_of a / rate_of b)) /\
  (r_unit a <> r_unit b -> r_term a = r_term b ->
     derived dm (rate_div dm a b) (r_unit a) (r_unit b) (rate_of a / rate_of b)) /\
  (r_unit a <> r_unit b -> r_term a <> r_term b -> rate_div dm a b = Err EValueError).
Proof. exact triangulation_div. Qed.
Print Assumptions C09_triangulation_div.

(* accuracy of the term amount read as accuracy of the rate itself *)
Theorem C09_rate_accuracy : forall dm r x, built r -> accurate dm r x ->
  Qabs (rate_of r - x) * r_mult r < 1 # 1000000 /\
  (half_mode dm = true -> Qabs (rate_of r - x) * r_mult r <= (1 # 2) * (1 # 1000000)) /\
  Qabs (rate_of r - x) < 1 # 1000000.
Proof. exact accurate_rate. Qed.
Print Assumptions C09_rate_accuracy.

(* THE MODEL IS THE CODE: ExchangeRate.__init__ (for currencies and exact
   numbers), rate, inverse_rate, inverted, __eq__ and the rate-by-rate branches
   of __mul__ / __truediv__ are re-translated from
   src/quantity/money/__init__.py on every run (Gen/RatesImpl.v, fail-closed ast
   translator translate/rates.py) and are equal, on all inputs and default
   modes, to the model functions the theorems above are about *)
Theorem C09_model_is_translated_code : forall dm u m t x a b,
  mk_rate_impl dm u m t x = mk_rate dm u m t x /\
  rate_of_impl a = rate_of a /\ inverse_rate_impl a = inverse_rate a /\
  inverted_impl dm a = inverted dm a /\
  rate_eqb_impl a b = rate_eqb a b /\
  rate_mul_impl dm a b = rate_mul dm a b /\
  rate_div_impl dm a b = rate_div dm a b.
Proof.
  intros. split; [apply mk_rate_impl_eq|]. split; [apply rate_of_impl_eq|].
  split; [apply inverse_rate_impl_eq|]. split; [apply inverted_impl_eq|].
  split; [apply rate_eqb_impl_eq|]. split; [apply rate_mul_impl_eq | apply rate_div_impl_eq].
Qed.
Print Assumptions C09_model_is_translated_code.

(* ---- non-vacuity: the hypotheses are satisfiable, the model computes ---- *)
(* 1 EUR = 1.25 USD *)
Example ex_eur_usd : mk_rate MHEVEN 1%N 1 2%N (5 # 4) = Ok (mkRate 1%N 2%N 1 (5 # 4)).
Proof. vm_compute. reflexivity. Qed.
(* 100 JPY = 1.25 USD: multiple kept *)
Example ex_multiple_100 : mk_rate MHEVEN 3%N 100 2%N (5 # 4) = Ok (mkRate 3%N 2%N 100 (5 # 4)).
Proof. vm_compute. reflexivity. Qed.
(* 5 X = 0.1 Y  ->  10 X = 0.2 Y *)
Example ex_multiple_5 : mk_rate MHEVEN 1%N 5 2%N (1 # 10) = Ok (mkRate 1%N 2%N 10 (1 # 5)).
Proof. vm_compute. reflexivity. Qed.
(* 1 X = 0.000001 Y  ->  100000 X = 0.1 Y (lower validity limit) *)
Example ex_limit : mk_rate MHEVEN 1%N 1 2%N (1 # 1000000) = Ok (mkRate 1%N 2%N 100000 (1 # 10)).
Proof. vm_compute. reflexivity. Qed.
(* just below a power of ten: 0.0999999999 -> multiple 10, amount rounds UP to 1.000000 *)
Example ex_below_power : mk_rate MHEVEN 1%N 1 2%N (999999999 # 10000000000)
  = Ok (mkRate 1%N 2%N 10 1).
Proof. vm_compute. reflexivity. Qed.
Example ex_rejects : mk_rate MHEVEN 1%N 1 1%N 1 = Err EValueError /\
  mk_rate MHEVEN 1%N (3 # 2) 2%N 1 = Err EValueError /\
  mk_rate MHEVEN 1%N 0 2%N 1 = Err EValueError /\
  mk_rate MHEVEN 1%N 1 2%N (9 # 10000000) = Err EValueError /\
  mk_rate MHEVEN 1%N 1 2%N 0 = Err EValueError /\
  mk_rate MHEVEN 1%N 1 2%N (-1) = Err EValueError.
Proof. vm_compute. repeat split. Qed.
Example ex_built : built (mkRate 1%N 2%N 1 (5 # 4)).
Proof. exists MHEVEN, 1%N, 1, 2%N, (5 # 4). vm_compute. reflexivity. Qed.
Example ex_inverted : inverted MHEVEN (mkRate 1%N 2%N 1 (5 # 4)) = Ok (mkRate 2%N 1%N 1 (4 # 5)).
Proof. vm_compute. reflexivity. Qed.
(* the reciprocal of a rate above 10^6 is rejected *)
Example ex_inverted_rejected :
  exists r, mk_rate MHEVEN 1%N 1 2%N 2000000 = Ok r /\ inverted MHEVEN r = Err EValueError.
Proof. exists (mkRate 1%N 2%N 1 2000000). split; vm_compute; reflexivity. Qed.
(* EUR->USD 1.25 times USD->JPY 110 = EUR->JPY 137.5, both operand orders;
   EUR->USD / EUR->JPY = JPY->USD; X->Y times Y->X is rejected *)
Example ex_triangulation :
  let a := mkRate 1%N 2%N 1 (5 # 4) in let b := mkRate 2%N 3%N 1 110 in
  let c := mkRate 1%N 3%N 1 (275 # 2) in
  rate_mul MHEVEN a b = Ok c /\ rate_mul MHEVEN b a = Ok c /\
  rate_div MHEVEN a c = Ok (mkRate 3%N 2%N 100 (909091 # 1000000)) /\
  rate_div MHEVEN c b = Ok (mkRate 1%N 2%N 1 (5 # 4)) /\
  rate_mul MHEVEN a (mkRate 2%N 1%N 1 (4 # 5)) = Err EValueError /\
  rate_div MHEVEN a a = Err EValueError /\
  rate_mul MHEVEN a (mkRate 3%N 4%N 1 2) = Err EValueError /\
  rate_div MHEVEN a (mkRate 3%N 4%N 1 2) = Err EValueError.
Proof. vm_compute. repeat split. Qed.
