(* Property C14 — table (affine) converters are exact, invertible and mutually
   consistent.  Statements only.

   [tunit u]: u is a unit of a type without reference unit (no scale, no
   quantum) — the only types for which Quantity.equiv_amount consults the
   registered converters.  [ce c]: the converters registered for class c,
   most recently registered first.  [silent t u v]: table t tabulates neither
   (u,v) nor (v,u), i.e. the converter returns None for that pair.
   [aff t x y]: the affine map (factor, offset) table t assigns to the ordered
   pair: identity, the tabulated row, or the exact inverse of the opposite
   row.  [table_consistent t us]: decidable — every ordered pair of [us] has a
   map, forth-and-back composes to the identity and composition through any
   third unit equals the direct map ((factor, offset) compared as rationals).
   [temp_table], [temp_units], [temp_env] are GENERATED from `_temp_conv` in
   src/quantity/predefined.py (Gen/TempTable.v). *)
From Coq Require Import ZArith QArith Qabs List Bool.
From QV Require Import Model.Num Model.Rounding Model.Quantity Model.Table
     Gen.TempTable Gen.QuantityImpl Proofs.QuantityProofs Proofs.GenQuantityEq Proofs.C14Proofs.

(* pair tabulated: exactly amount * factor + offset, in the target unit.  With
   several stacked converters the most recent one that tabulates the pair (in
   either direction) decides; what was registered before it is irrelevant *)
Theorem C14_forward : forall ce dm a u v pre t post f o,
  tunit u = true -> tunit v = true -> same_cls u v = true -> same_unit u v = false ->
  ce (u_cls u) = pre ++ t :: post ->
  Forall (fun t' => silent t' u v) pre ->
  table_get t (u_id u) (u_id v) = Some (f, o) ->
  exists r, convert ce dm (mkQty a u) v = Ok r /\ q_unit r = v /\
            q_amt r == a * f + o.
Proof. exact conv_forward. Qed.
Print Assumptions C14_forward.

(* only the opposite direction tabulated (factor <> 0): exactly
   (amount - offset) / factor, which is the exact inverse — the forward
   formula applied to the result gives the amount back *)
Theorem C14_reverse_exact_inverse : forall ce dm a u v pre t post f o,
  tunit u = true -> tunit v = true -> same_cls u v = true -> same_unit u v = false ->
  ce (u_cls u) = pre ++ t :: post ->
  Forall (fun t' => silent t' u v) pre ->
  table_get t (u_id u) (u_id v) = None ->
  table_get t (u_id v) (u_id u) = Some (f, o) -> ~ f == 0 ->
  exists r, convert ce dm (mkQty a u) v = Ok r /\ q_unit r = v /\
            q_amt r == (a - o) / f /\ q_amt r * f + o == a.
Proof. exact conv_reverse. Qed.
Print Assumptions C14_reverse_exact_inverse.

(* ... and converting that result back (through the tabulated row) returns
   the identical amount *)
Theorem C14_reverse_roundtrip : forall ce dm a u v pre t post f o,
  tunit u = true -> tunit v = true -> same_cls u v = true -> same_unit u v = false ->
  ce (u_cls u) = pre ++ t :: post ->
  Forall (fun t' => silent t' u v) pre ->
  table_get t (u_id u) (u_id v) = None ->
  table_get t (u_id v) (u_id u) = Some (f, o) -> ~ f == 0 ->
  exists r r', convert ce dm (mkQty a u) v = Ok r /\ convert ce dm r u = Ok r' /\
               q_unit r' = u /\ q_amt r' == a.
Proof. exact conv_reverse_roundtrip. Qed.
Print Assumptions C14_reverse_roundtrip.

(* the guard f <> 0 is exact: with factor 0 the reverse formula raises
   ZeroDivisionError (refined model Model/Table.v), out of convert, == and
   the ordering operators alike *)
Theorem C14_zero_factor_raises : forall ce dm op a u b v pre t post f o,
  tunit u = true -> tunit v = true -> same_cls u v = true -> same_unit u v = false ->
  ce (u_cls u) = pre ++ t :: post ->
  Forall (fun t' => silent t' u v) pre ->
  table_get t (u_id u) (u_id v) = None ->
  table_get t (u_id v) (u_id u) = Some (f, o) -> f == 0 ->
  convert_r ce dm (mkQty a u) v = Err EZeroDivision /\
  qty_eq_r ce (mkQty b v) (mkQty a u) = Err EZeroDivision /\
  qty_cmp_r ce op (mkQty b v) (mkQty a u) = Err EZeroDivision.
Proof. exact reverse_zero_factor. Qed.
Print Assumptions C14_zero_factor_raises.

(* and that is the only difference between the refined and the shared model *)
Theorem C14_refined_model_agrees : forall ce, (forall c, convs_nz (ce c) = true) ->
  (forall dm q v, convert_r ce dm q v = convert ce dm q v) /\
  (forall p q, qty_eq_r ce p q = qty_eq ce p q) /\
  (forall op p q, qty_cmp_r ce op p q = qty_cmp ce op p q).
Proof. exact refined_agrees. Qed.
Print Assumptions C14_refined_model_agrees.

(* a consistent table answers for every pair with its affine map; converters
   registered before it ([rest]) are never consulted *)
Theorem C14_consistent_convert : forall ce dm t rest us a u v,
  units_ok us = true -> table_consistent t us = true -> In u us -> In v us ->
  ce (u_cls u) = t :: rest ->
  exists f o r, aff t (u_id u) (u_id v) = Some (f, o) /\
                convert ce dm (mkQty a u) v = Ok r /\ q_unit r = v /\ q_amt r == a * f + o.
Proof. exact consistent_convert. Qed.
Print Assumptions C14_consistent_convert.

(* converting back returns the identical amount, for every rational amount *)
Theorem C14_roundtrip : forall ce dm t rest us a u v,
  units_ok us = true -> table_consistent t us = true -> In u us -> In v us ->
  ce (u_cls u) = t :: rest ->
  exists r r', convert ce dm (mkQty a u) v = Ok r /\ convert ce dm r u = Ok r' /\
               q_unit r = v /\ q_unit r' = u /\ q_amt r' == a.
Proof. exact consistent_roundtrip. Qed.
Print Assumptions C14_roundtrip.

(* going through a third unit equals the direct conversion *)
Theorem C14_via : forall ce dm t rest us a u w v,
  units_ok us = true -> table_consistent t us = true ->
  In u us -> In w us -> In v us ->
  ce (u_cls u) = t :: rest ->
  exists r1 r2 r, convert ce dm (mkQty a u) w = Ok r1 /\ convert ce dm r1 v = Ok r2 /\
                  convert ce dm (mkQty a u) v = Ok r /\
                  q_unit r2 = v /\ q_unit r = v /\ q_amt r2 == q_amt r.
Proof. exact consistent_via. Qed.
Print Assumptions C14_via.

(* what == and < <= > >= do across units: the RIGHT operand is converted to
   the LEFT operand's unit and the amounts are compared *)
Theorem C14_eq_order : forall ce dm p q r,
  tunit (q_unit p) = true -> tunit (q_unit q) = true ->
  same_cls (q_unit p) (q_unit q) = true ->
  convert ce dm q (q_unit p) = Ok r ->
  qty_eq ce p q = Ok (qeqb (q_amt p) (q_amt r)) /\
  forall op, qty_cmp ce op p q = Ok (cmp_q op (q_amt p) (q_amt r)).
Proof. exact eq_order_converted. Qed.
Print Assumptions C14_eq_order.

(* under a consistent table this does not depend on the unit in which one
   compares: == equals equality of both operands converted to ANY common unit
   w, and so do the ordering operators when every map is increasing *)
Theorem C14_eq_order_any_unit : forall ce dm t rest us a u b v w,
  units_ok us = true -> table_consistent t us = true ->
  In u us -> In v us -> In w us ->
  ce (u_cls u) = t :: rest ->
  exists ra rb, convert ce dm (mkQty a u) w = Ok ra /\ convert ce dm (mkQty b v) w = Ok rb /\
    qty_eq ce (mkQty a u) (mkQty b v) = Ok (qeqb (q_amt ra) (q_amt rb)) /\
    (table_increasing t us = true ->
     forall op, qty_cmp ce op (mkQty a u) (mkQty b v) = Ok (cmp_q op (q_amt ra) (q_amt rb))).
Proof. exact consistent_eq_order. Qed.
Print Assumptions C14_eq_order_any_unit.

(* no applicable converter (none registered, or every registered table is
   silent on the pair): UnitConversionError from convert and from the
   ordering operators, == is False *)
Theorem C14_no_converter : forall ce dm op a u b v,
  tunit u = true -> tunit v = true -> same_cls u v = true -> same_unit u v = false ->
  Forall (fun t => silent t u v) (ce (u_cls u)) ->
  convert ce dm (mkQty a u) v = Err EUnitConversion /\
  qty_eq ce (mkQty b v) (mkQty a u) = Ok false /\
  qty_cmp ce op (mkQty b v) (mkQty a u) = Err EUnitConversion.
Proof. exact conv_none. Qed.
Print Assumptions C14_no_converter.

(* ---- the predefined temperature table (generated) ----------------------- *)
Theorem C14_temperature_consistent :
  units_ok temp_units = true /\ table_consistent temp_table temp_units = true /\
  table_increasing temp_table temp_units = true /\
  (forall c, convs_nz (temp_env c) = true).
Proof. exact (conj temp_units_ok (conj temp_table_consistent
                (conj temp_table_increasing temp_env_nz))). Qed.
Print Assumptions C14_temperature_consistent.

Theorem C14_temperature_roundtrip : forall dm a u v, In u temp_units -> In v temp_units ->
  exists r r', convert temp_env dm (mkQty a u) v = Ok r /\ convert temp_env dm r u = Ok r' /\
               q_unit r = v /\ q_unit r' = u /\ q_amt r' == a.
Proof. exact temp_roundtrip. Qed.
Print Assumptions C14_temperature_roundtrip.

Theorem C14_temperature_via : forall dm a u w v,
  In u temp_units -> In w temp_units -> In v temp_units ->
  exists r1 r2 r, convert temp_env dm (mkQty a u) w = Ok r1 /\ convert temp_env dm r1 v = Ok r2 /\
                  convert temp_env dm (mkQty a u) v = Ok r /\
                  q_unit r2 = v /\ q_unit r = v /\ q_amt r2 == q_amt r.
Proof. exact temp_via. Qed.
Print Assumptions C14_temperature_via.

Theorem C14_temperature_eq_order : forall dm a u b v w,
  In u temp_units -> In v temp_units -> In w temp_units ->
  exists ra rb, convert temp_env dm (mkQty a u) w = Ok ra /\
    convert temp_env dm (mkQty b v) w = Ok rb /\
    qty_eq temp_env (mkQty a u) (mkQty b v) = Ok (qeqb (q_amt ra) (q_amt rb)) /\
    forall op, qty_cmp temp_env op (mkQty a u) (mkQty b v) = Ok (cmp_q op (q_amt ra) (q_amt rb)).
Proof. exact temp_eq_order. Qed.
Print Assumptions C14_temperature_eq_order.

(* 0 degC = 273.15 K = 32 degF, -40 degC = -40 degF, 0 K = -459.67 degF, in
   both directions, through convert and through == *)
Theorem C14_fixed_points : forall dm,
  (conv_is dm 0 u_celsius u_kelvin t_273_15 /\ conv_is dm t_273_15 u_kelvin u_celsius 0 /\
   conv_is dm 0 u_celsius u_fahrenheit 32 /\ conv_is dm 32 u_fahrenheit u_celsius 0 /\
   conv_is dm t_273_15 u_kelvin u_fahrenheit 32 /\ conv_is dm 32 u_fahrenheit u_kelvin t_273_15) /\
  (conv_is dm (-40) u_celsius u_fahrenheit (-40) /\ conv_is dm (-40) u_fahrenheit u_celsius (-40)) /\
  (conv_is dm 0 u_kelvin u_fahrenheit t_m459_67 /\ conv_is dm t_m459_67 u_fahrenheit u_kelvin 0) /\
  (qty_eq temp_env (mkQty 0 u_celsius) (mkQty t_273_15 u_kelvin) = Ok true /\
   qty_eq temp_env (mkQty t_273_15 u_kelvin) (mkQty 32 u_fahrenheit) = Ok true /\
   qty_eq temp_env (mkQty 32 u_fahrenheit) (mkQty 0 u_celsius) = Ok true /\
   qty_eq temp_env (mkQty (-40) u_celsius) (mkQty (-40) u_fahrenheit) = Ok true /\
   qty_eq temp_env (mkQty 0 u_kelvin) (mkQty t_m459_67 u_fahrenheit) = Ok true).
Proof. exact temp_fixed_points. Qed.
Print Assumptions C14_fixed_points.

(* ---- non-vacuity -------------------------------------------------------- *)
(* a user type with units a b c d; newest table tabulates only (a,b); the
   older one tabulates (b,a) differently, (c,a) and a zero-factor row (d,c) *)
Definition ex_a := mkUnit 10 7 false None None.
Definition ex_b := mkUnit 11 7 false None None.
Definition ex_c := mkUnit 12 7 false None None.
Definition ex_d := mkUnit 13 7 false None None.
Definition ex_new : table := [((10%N, 11%N), (3 # 2, 1 # 3))].
Definition ex_old : table := [((11%N, 10%N), (7 # 1, 0)); ((12%N, 10%N), (2 # 1, 5 # 1));
                              ((13%N, 12%N), (0, 1))].
Definition ex_env : convenv := fun c => if N.eqb c 7 then [ex_new; ex_old] else [].

Example C14_premises :
  tunit ex_a = true /\ tunit ex_b = true /\ same_cls ex_a ex_b = true /\
  same_unit ex_a ex_b = false /\ ex_env (u_cls ex_a) = [] ++ ex_new :: [ex_old] /\
  table_get ex_new (u_id ex_a) (u_id ex_b) = Some (3 # 2, 1 # 3) /\
  table_get ex_new (u_id ex_b) (u_id ex_a) = None /\ ~ (3 # 2) == 0.
Proof. vm_compute. repeat split; discriminate. Qed.

(* most recent first: a -> b uses the new table's row, b -> a its inverse
   (NOT the old table's own (b,a) row); a -> c falls through to the old
   table's (c,a) row in reverse *)
Example C14_stack_forward :
  amt_is (convert ex_env MHEVEN (mkQty (2 # 1) ex_a) ex_b) (10 # 3) = true.
Proof. vm_compute. reflexivity. Qed.
Example C14_stack_reverse :
  amt_is (convert ex_env MHEVEN (mkQty (10 # 3) ex_b) ex_a) (2 # 1) = true.
Proof. vm_compute. reflexivity. Qed.
Example C14_stack_fallthrough :
  silent ex_new ex_a ex_c /\
  amt_is (convert ex_env MHEVEN (mkQty (9 # 1) ex_a) ex_c) (2 # 1) = true.
Proof. vm_compute. repeat split. Qed.
(* silent everywhere / zero factor in reverse *)
Example C14_no_converter_instance :
  Forall (fun t => silent t ex_b ex_c) (ex_env (u_cls ex_b)) /\
  convert ex_env MHEVEN (mkQty 1 ex_b) ex_c = Err EUnitConversion /\
  convert_r ex_env MHEVEN (mkQty 1 ex_b) ex_c = Err EUnitConversion.
Proof. split; [repeat constructor|]. vm_compute. split; reflexivity. Qed.
Example C14_zero_factor_instance :
  convert_r ex_env MHEVEN (mkQty 1 ex_c) ex_d = Err EZeroDivision /\
  convert_r ex_env MHEVEN (mkQty 5 ex_d) ex_c = Ok (mkQty 1 ex_c).
Proof. vm_compute. split; reflexivity. Qed.
(* the temperature units are members of temp_units; 100 degC is 212 degF and
   373.15 K; an inconsistent table is rejected by the predicate *)
Example C14_temp_members :
  In u_celsius temp_units /\ In u_fahrenheit temp_units /\ In u_kelvin temp_units.
Proof. unfold temp_units. cbn [In]. repeat split; auto. Qed.
Example C14_boiling :
  amt_is (convert temp_env MHEVEN (mkQty 100 u_celsius) u_fahrenheit) (212 # 1) = true /\
  amt_is (convert temp_env MHEVEN (mkQty 100 u_celsius) u_kelvin) (37315 # 100) = true.
Proof. vm_compute. split; reflexivity. Qed.
Example C14_inconsistent_rejected :
  table_consistent [((1%N, 2%N), (9 # 5, 32 # 1)); ((2%N, 1%N), (1 # 2, 0))] temp_units = false /\
  table_consistent [((1%N, 2%N), (9 # 5, 32 # 1)); ((1%N, 3%N), (1, 27315 # 100));
                    ((2%N, 3%N), (5 # 9, 255 # 1))] temp_units = false /\
  table_consistent [((1%N, 2%N), (9 # 5, 32 # 1)); ((1%N, 3%N), (1, 27315 # 100));
                    ((2%N, 3%N), (5 # 9, 45967 # 180))] temp_units = true.
Proof. vm_compute. repeat split. Qed.

(* the functions the theorems above are about are the code: Converter.__call__
   and TableConverter._get_factor (src/quantity/converter.py) and
   Quantity.equiv_amount / convert / __eq__ (src/quantity/__init__.py) are
   re-translated on every run (Gen/QuantityImpl.v) and equal the model on all
   inputs; the refinement with the zero-factor exception is Model/Table.v
   (C14_refined_model_agrees) *)
Theorem C14_model_is_translated_code :
  (forall t q to, same_cls (q_unit q) to = true -> table_call_impl t q to = Ok (table_conv t q to)) /\
  (forall t q to, same_cls (q_unit q) to = false -> same_unit (q_unit q) to = false ->
                  table_call_impl t q to = Err EIncompatibleUnits) /\
  (forall ce q to, equiv_amount_impl ce q to = equiv_amount ce q to) /\
  (forall ce dm q to, convert_impl ce dm q to = convert ce dm q to) /\
  (forall ce p q, qty_eq_impl ce p q = qty_eq ce p q).
Proof.
  split; [exact table_call_impl_eq|]. split; [exact table_call_impl_other_type|].
  split; [exact equiv_amount_impl_eq|]. split; [exact convert_impl_eq | exact qty_eq_impl_eq].
Qed.
Print Assumptions C14_model_is_translated_code.
