(* Property C10 — applying an exchange rate converts money and prices
   correctly.  Statements only. *)
From Coq Require Import ZArith QArith Qabs List Bool.
From QV Require Import Model.Num Model.Rounding Model.Quantity Model.Dim Model.Registry
     Model.Rates Model.RegRates Proofs.QuantityProofs Proofs.DimProofs Proofs.RegistryProofs
     Proofs.DirectoryProofs Proofs.C02Proofs Proofs.C09Proofs Proofs.C10MoneyProofs
     Proofs.C10Proofs Gen.QuantityImpl Gen.OpsImpl Proofs.GenOpsEq.

(* money * rate, rate * money: the exact product, rounded once to the target
   currency's smallest fraction (the multiple the default mode prescribes; on
   the grid; error < one fraction, <= half a fraction under the HALF modes);
   a non-matching currency: ValueError *)
Theorem C10_money_times_rate : forall dm cur m r,
  (u_id (q_unit m) = r_unit r ->
     exists q, money_mul_rate dm cur m r = Ok q /\
               rounded_once dm q (cur (r_term r)) (q_amt m * rate_of r)) /\
  (u_id (q_unit m) <> r_unit r -> money_mul_rate dm cur m r = Err EValueError).
Proof. exact money_mul. Qed.
Print Assumptions C10_money_times_rate.

Theorem C10_money_div_rate : forall dm cur m r,
  (u_id (q_unit m) = r_term r ->
     exists q, money_div_rate dm cur m r = Ok q /\
               rounded_once dm q (cur (r_unit r)) (q_amt m * inverse_rate r)) /\
  (u_id (q_unit m) <> r_term r -> money_div_rate dm cur m r = Err EValueError).
Proof. exact money_div. Qed.
Print Assumptions C10_money_div_rate.

Theorem C10_money_div_built_rate : forall dm cur m r, built r -> u_id (q_unit m) = r_term r ->
  exists q, money_div_rate dm cur m r = Ok q /\
            rounded_once dm q (cur (r_unit r)) (q_amt m / rate_of r).
Proof. exact money_div_built. Qed.
Print Assumptions C10_money_div_built_rate.

(* the same on the directory model (currencies are registered units) *)
Theorem C10_money_on_directory : forall s dm (mul : bool) a uid r u cu ct,
  find_unit s uid = Some u -> find_unit s (r_unit r) = Some cu -> find_unit s (r_term r) = Some ct ->
  is_money s u = true ->
  apply_rate s dm mul a uid r =
    if N.eqb (ru_id u) (ru_id (if mul then cu else ct))
    then Ok (MQty (mk_qty dm (qmul a (if mul then rate_of r else inverse_rate r))
                          (view s (if mul then ct else cu))))
    else Err EValueError.
Proof. exact apply_rate_money. Qed.
Print Assumptions C10_money_on_directory.

(* money-per-quantity values: the result unit (factor f, unit w) denotes the
   input unit's definition with the currency replaced; the amount is
   f * rate * amount, constructed once, in the input's own type *)
Theorem C10_compound : forall dm s (mul : bool) a uid r u cu ct res0,
  Reach dm s ->
  find_unit s uid = Some u -> find_unit s (r_unit r) = Some cu -> find_unit s (r_term r) = Some ct ->
  is_money s u = false ->
  apply_rate s dm mul a uid r = Ok res0 ->
  let src := if mul then cu else ct in
  let dst := if mul then ct else cu in
  exists fw, resolve s (replaced u src dst) = Some fw /\
             val_ok s (replaced u src dst) fw /\
             construct_in s dm (ru_cls u)
               (qmul (fst fw) (qmul (if mul then rate_of r else inverse_rate r) a)) (snd fw) = Ok res0.
Proof.
  intros dm s mul a uid r u cu ct res0 R Fu Fcu Fct M H.
  apply (apply_rate_compound_sound s dm mul a uid r u cu ct Fu Fcu Fct res0); try assumption.
  apply (Reach_inv dm s R).
Qed.
Print Assumptions C10_compound.

Theorem C10_compound_result_in_own_type : forall s dm cid amt w res0,
  construct_in s dm cid amt (Some w) = Ok res0 ->
  exists wu, find_unit s w = Some wu /\ ru_cls wu = cid /\
             res0 = MQty (mk_qty dm amt (view s wu)).
Proof. exact construct_in_qty. Qed.
Print Assumptions C10_compound_result_in_own_type.

(* "replaced": the exponent of every base unit is the input's, plus the target
   currency's, minus the source currency's *)
Theorem C10_currency_replaced : forall u src dst i,
  nf_wf (ru_nf u) -> nf_wf (ru_nf src) -> nf_wf (ru_nf dst) ->
  dv_get (nf_dim (replaced u src dst)) i =
  (dv_get (nf_dim (ru_nf u)) i + dv_get (nf_dim (ru_nf dst)) i - dv_get (nf_dim (ru_nf src)) i)%Z.
Proof. exact replaced_exponents. Qed.
Print Assumptions C10_currency_replaced.

(* QuantityError when no unit is declared for the replaced definition — the
   target compound unit is missing, the price's currency does not match the
   rate, or the quantity involves no money — and no other exception *)
Theorem C10_compound_undeclared : forall s dm (mul : bool) a uid r u cu ct,
  find_unit s uid = Some u -> find_unit s (r_unit r) = Some cu -> find_unit s (r_term r) = Some ct ->
  is_money s u = false ->
  resolve s (replaced u (if mul then cu else ct) (if mul then ct else cu)) = None ->
  apply_rate s dm mul a uid r = Err EQuantityError.
Proof. exact apply_rate_compound_undeclared. Qed.
Print Assumptions C10_compound_undeclared.

Theorem C10_compound_only_quantity_error : forall s dm (mul : bool) a uid r u cu ct,
  find_unit s uid = Some u -> find_unit s (r_unit r) = Some cu -> find_unit s (r_term r) = Some ct ->
  forall e, is_money s u = false -> apply_rate s dm mul a uid r = Err e ->
  e = EQuantityError \/ e = EOther.
Proof. exact apply_rate_compound_errors. Qed.
Print Assumptions C10_compound_only_quantity_error.

(* the function the directory-level theorems are about IS the code:
   ExchangeRate.__mul__ (= __rmul__) and __rtruediv__ of
   src/quantity/money/__init__.py are re-translated on every run, once for a
   Money operand and once for a quantity of another type (Gen/OpsImpl.v:
   R_mul_money, R_mul_qty, R_rdiv_money, R_rdiv_qty), and combined by the
   operand dispatch (rate_code) equal apply_rate on every state and operand *)
Theorem C10_model_is_translated_code : forall s dm ce mul a uid r,
  apply_rate s dm mul a uid r = rate_code s dm ce mul a uid r.
Proof. exact apply_rate_is_code. Qed.
Print Assumptions C10_model_is_translated_code.

(* non-vacuity: Money (EUR = 1, HKD = 2), Mass (kg = 3), PricePerMass = Money/Mass
   with EUR/kg (4) and HKD/kg (5); 2 EUR/kg * (EUR -> HKD at 9) = 18 HKD/kg;
   with a USD-based rate (unit 6, not in any price unit): QuantityError *)
Definition ex10 : list decl :=
  [DeclClass 1 None None 0%N None true;
   NewCurrency 1 1 (Ok (1 # 100)); NewCurrency 1 2 (Ok (1 # 100)); NewCurrency 1 6 (Ok (1 # 100));
   DeclClass 2 None (Some 3%N) 0%N None false;
   DeclClass 3 (Some [(1%N, 1%Z); (2%N, (-1)%Z)]) None 0%N None false;
   DeriveUnit 3 [1%N; 3%N] None 4%N; DeriveUnit 3 [2%N; 3%N] None 5%N].
Example C10_example :
  guarded MHEVEN init ex10 = true /\
  (match apply_rate (run MHEVEN init ex10) MHEVEN true 2 4 (mkRate 1 2 1 9) with
   | Ok (MQty q) => N.eqb (u_id (q_unit q)) 5 && Qeq_bool (q_amt q) 18 | _ => false end) = true /\
  apply_rate (run MHEVEN init ex10) MHEVEN true 2 4 (mkRate 6 2 1 9) = Err EQuantityError.
Proof. vm_compute. repeat split. Qed.
