(* Property C15 — directory coherence: unique symbols, own type, definitions
   mean what they say.  Statements only.  [Reach dm s]: any directory reached by
   a finite history of declarations satisfying [guard] (see Properties/C02.v). *)
From Coq Require Import ZArith QArith Qabs List Bool.
From QV Require Import Model.Num Model.Rounding Model.Quantity Model.Dim Model.Registry
     Proofs.QuantityProofs Proofs.DimProofs Proofs.DimPush Proofs.RegistryProofs
     Proofs.DirectoryProofs Proofs.DimInv Proofs.C02Proofs Proofs.C02Dim Proofs.C15Proofs.

(* every reachable directory satisfies all invariants *)
Theorem C15_every_reachable_directory_coherent : forall dm ds,
  guarded dm init ds = true -> AllInv (run dm init ds).
Proof. exact reachable_inv. Qed.
Print Assumptions C15_every_reachable_directory_coherent.

(* found under its unique symbol, as the identical object *)
Theorem C15_symbol_unique_identity : forall dm s sym u,
  Reach dm s -> find_unit s sym = Some u ->
  ru_id u = sym /\ In u (st_units s) /\
  (forall v, In v (st_units s) -> ru_id v = sym -> v = u).
Proof. exact symbol_identity. Qed.
Print Assumptions C15_symbol_unique_identity.

(* later declarations (accepted or rejected) never change or remove a unit *)
Theorem C15_units_persist : forall dm s d sym u,
  Reach dm s -> guard dm s d = true -> find_unit s sym = Some u ->
  find_unit (fst (step dm s d)) sym = Some u.
Proof. exact units_persist. Qed.
Print Assumptions C15_units_persist.

(* listed by exactly the type it was created for *)
Theorem C15_listed_by_own_class_only : forall dm s c id,
  Reach dm s -> In c (st_classes s) ->
  (In id (rc_units c) <-> exists u, find_unit s id = Some u /\ ru_cls u = rc_id c).
Proof. exact listed_by_own_class. Qed.
Print Assumptions C15_listed_by_own_class_only.

Theorem C15_unit_has_registered_class : forall dm s u,
  Reach dm s -> In u (st_units s) ->
  exists c, find_cls s (ru_cls u) = Some c /\ In (ru_id u) (rc_units c) /\ rc_id c = ru_cls u.
Proof. exact unit_has_registered_class. Qed.
Print Assumptions C15_unit_has_registered_class.

(* a quantity built from a number and a unit is an instance of the unit's type *)
Theorem C15_factory_dispatch : forall s dm a u,
  u_cls (q_unit (mk_qty dm a (view s u))) = ru_cls u.
Proof. exact factory_dispatch. Qed.
Print Assumptions C15_factory_dispatch.

(* a unit's scale is exactly what its definition denotes: definition =
   scale x reference unit, in the group of values *)
Theorem C15_scale_denotes_definition : forall dm s u e c r ru,
  Reach dm s -> In u (st_units s) -> ru_equiv u = Some e ->
  find_cls s (ru_cls u) = Some c -> rc_ref c = Some r -> find_unit s r = Some ru ->
  nf_eq (ru_nf u) (nf_scale e (ru_nf ru)) /\ nf_num (ru_nf ru) == 1.
Proof. exact scale_denotes_definition. Qed.
Print Assumptions C15_scale_denotes_definition.

(* the reference unit of a derived type is the product of the base types'
   reference units *)
Theorem C15_ref_unit_of_derived : forall dm s id c r ru,
  Reach dm s -> find_cls s id = Some c -> rc_base c = false -> rc_ref c = Some r ->
  find_unit s r = Some ru ->
  exists x, ref_units_nf s (rc_def c) = Some x /\ nf_dim (ru_nf ru) = nf_dim x /\
            nf_num (ru_nf ru) == 1.
Proof. exact ref_unit_of_derived. Qed.
Print Assumptions C15_ref_unit_of_derived.

(* the definition of every unit denotes the dimension of the type it was
   created for ([udim]: exponent vector over base units -> over base types) *)
Theorem C15_definition_denotes_type_dimension : forall dm s u c,
  Reach dm s -> In u (st_units s) -> find_cls s (ru_cls u) = Some c ->
  udim s (nf_dim (ru_nf u)) = rc_dim c.
Proof. exact R_unit_dimension. Qed.
Print Assumptions C15_definition_denotes_type_dimension.

(* one type per dimension *)
Theorem C15_one_class_per_dimension : forall dm s c1 c2,
  Reach dm s -> In c1 (st_classes s) -> In c2 (st_classes s) -> rc_dim c1 = rc_dim c2 -> c1 = c2.
Proof. exact one_class_per_dimension. Qed.
Print Assumptions C15_one_class_per_dimension.

(* rejections *)
Theorem C15_dup_dimension_rejected : forall s id t rs auto qu money d c,
  find_cls s id = None -> t <> [] -> cterm_dim s t = Some d -> d <> [] ->
  cls_by_dim s d = Some c ->
  decl_class s id (Some t) rs auto qu money = (s, Some EValueError)
  \/ (qu <> None /\ decl_class s id (Some t) rs auto qu money = (s, Some EAssertion)).
Proof. exact dup_dimension_rejected. Qed.
Print Assumptions C15_dup_dimension_rejected.

Theorem C15_dup_or_empty_symbol_rejected : forall s c sym def sf,
  (sym = 0%N -> make_unit s c sym def sf = Err EAssertion) /\
  (sym <> 0%N -> find_unit s sym <> None -> make_unit s c sym def sf = Err EValueError).
Proof. exact dup_or_empty_symbol_rejected. Qed.
Print Assumptions C15_dup_or_empty_symbol_rejected.

Theorem C15_new_unit_empty_symbol_rejected : forall s dm cid d c,
  find_cls s cid = Some c -> new_unit s dm cid 0 d = Err EValueError.
Proof. exact new_unit_empty_symbol_rejected. Qed.
Print Assumptions C15_new_unit_empty_symbol_rejected.

Theorem C15_wrong_dimension_rejected : forall s dm cid sym t c x f w wu,
  find_cls s cid = Some c -> sym <> 0%N -> term_nf s t = Some x ->
  resolve s x = Some (f, Some w) -> find_unit s w = Some wu -> ru_cls wu <> cid ->
  new_unit s dm cid sym (DTerm t) = Err EValueError.
Proof. exact wrong_dimension_rejected. Qed.
Print Assumptions C15_wrong_dimension_rejected.

Theorem C15_undefined_term_rejected : forall s dm cid sym t c x,
  find_cls s cid = Some c -> sym <> 0%N -> term_nf s t = Some x ->
  (resolve s x = None \/ exists f, resolve s x = Some (f, None)) ->
  new_unit s dm cid sym (DTerm t) = Err EValueError.
Proof. exact undefined_or_dimensionless_term_rejected. Qed.
Print Assumptions C15_undefined_term_rejected.

Theorem C15_quantity_of_other_type_rejected : forall s dm cid sym a uid c u,
  find_cls s cid = Some c -> sym <> 0%N -> find_unit s uid = Some u -> ru_cls u <> cid ->
  new_unit s dm cid sym (DQty a uid) = Err ETypeError.
Proof. exact quantity_of_other_type_rejected. Qed.
Print Assumptions C15_quantity_of_other_type_rejected.

(* non-vacuity: Length (m, km), Area = Length**2 with generated reference unit,
   km2 derived from km: scale 10^6 *)
Definition ex15 : list decl :=
  [DeclClass 1 None (Some 1%N) 0%N None false;
   NewUnit 1 2 (DQty (1000 # 1) 1);
   DeclClass 2 (Some [(1%N, 2%Z)]) None 3%N None false;
   DeriveUnit 2 [2%N] None 4%N;
   DeclClass 3 (Some [(1%N, 2%Z)]) (Some 5%N) 0%N None false].
Example C15_example_guarded : guarded MHEVEN init ex15 = true.
Proof. vm_compute. reflexivity. Qed.
Example C15_example_scale :
  match find_unit (run MHEVEN init ex15) 4 with
  | Some u => match ru_equiv u with Some e => Qeq_bool e (1000000 # 1) | None => false end
  | None => false end = true /\
  find_unit (run MHEVEN init ex15) 5 = None.     (* the rejected duplicate left no unit *)
Proof. vm_compute. split; reflexivity. Qed.
