(* Model/Catalogue.v — the predefined catalogue as DATA plus the model's own
   computation of every unit's scale from the declared definitions.

   Mirrors, for the declaration script of src/quantity/predefined.py:
     QuantityMeta._make_ref_unit   reference unit: scale 1
     QuantityMeta._make_unit       defined unit: scale = numeric factor of the
                                   normalised definition
     Unit.quantum                  class quantum / scale
     si_prefixes.SIPrefix.factor   Decimal(10) ** exp
   The implementation normalises a definition down to the reference units of
   the BASE types and takes the numeric factor that is left.  The model
   computes, per definition item, numeric^exp resp. scale(component)^exp with
   the component's scale relative to the reference unit of the component's OWN
   type.  Both agree under the

     MODELLED ASSUMPTION (coherence): the reference unit of every derived type
     is the product of reference units (no numeric factor), and every defined
     unit has the dimension of its type

   which is not assumed silently: [refs_coherent] and [dims_ok] below check it
   on the data, and Proofs/C20Proofs.v proves both checks succeed on the
   generated catalogue.  The generated data is in Gen/Catalogue.v,
   Gen/Prefixes.v, Gen/DocTables.v.  No proofs in this file. *)
From Coq Require Export String.
From QV Require Export Model.Num Model.Quantity.
Open Scope Z_scope.

(* one item of a unit definition as declared (un-normalised) *)
Inductive ditem :=
  | DNum (q : Q) (e : Z)            (* number ^ e *)
  | DUnit (s : string) (e : Z).     (* unit with symbol s ^ e *)

Record ctype := mkCType {
  ct_name : string;
  ct_def : option (list (string * Z));   (* None: base type; Some: product of type powers *)
  ct_ref : option string;                (* symbol of the reference unit *)
  ct_quantum : option Q }.

Record cunit := mkCUnit {
  cu_sym : string;
  cu_name : string;
  cu_cls : string;
  cu_def : option (list ditem) }.        (* None: Unit.is_base_unit() *)

Record catalogue := mkCatalogue {
  c_types : list ctype;
  c_units : list cunit;
  c_temp_cls : option string;                       (* type owning the table converter *)
  c_temp : list ((string * string) * (Q * Q)) }.    (* (from,to) -> (factor,offset) *)

Definition seqb (a b : string) : bool := String.eqb a b.

Fixpoint find_type_in (l : list ctype) (n : string) : option ctype :=
  match l with
  | [] => None
  | t :: r => if seqb (ct_name t) n then Some t else find_type_in r n
  end.
Fixpoint find_unit_in (l : list cunit) (s : string) : option cunit :=
  match l with
  | [] => None
  | u :: r => if seqb (cu_sym u) s then Some u else find_unit_in r s
  end.
Definition find_type (c : catalogue) := find_type_in (c_types c).
Definition find_unit (c : catalogue) := find_unit_in (c_units c).

Fixpoint index_from {A} (p : A -> bool) (i : N) (l : list A) : option N :=
  match l with
  | [] => None
  | x :: r => if p x then Some i else index_from p (N.succ i) r
  end.
Definition type_index (c : catalogue) (n : string) : option N :=
  index_from (fun t => seqb (ct_name t) n) 0%N (c_types c).
Definition unit_index (c : catalogue) (s : string) : option N :=
  index_from (fun u => seqb (cu_sym u) s) 0%N (c_units c).

Definition ostr_eqb (a b : option string) : bool :=
  match a, b with
  | Some x, Some y => seqb x y
  | None, None => true
  | _, _ => false
  end.

(* the unit is its type's reference unit *)
Definition is_ref (c : catalogue) (u : cunit) : bool :=
  match find_type c (cu_cls u) with
  | Some t => ostr_eqb (ct_ref t) (Some (cu_sym u))
  | None => false
  end.

(* product over the items of a definition; [sc] gives component scales.
   None: a component has no scale, or a zero factor (the implementation
   silently turns a zero factor into 1 — outside the model, DESIGN section 6) *)
Fixpoint prod_items (sc : string -> option Q) (l : list ditem) : option Q :=
  match l with
  | [] => Some 1%Q
  | DNum q e :: r =>
      if qzero q then None else
      match prod_items sc r with
      | Some y => Some (qmul (qpow q e) y)
      | None => None
      end
  | DUnit s e :: r =>
      match sc s, prod_items sc r with
      | Some x, Some y => if qzero x then None else Some (qmul (qpow x e) y)
      | _, _ => None
      end
  end.

(* scale relative to the reference unit of the unit's own type *)
Fixpoint scale_fuel (c : catalogue) (fuel : nat) (u : cunit) : option Q :=
  match fuel with
  | O => None
  | S f =>
    if is_ref c u then Some 1%Q else
    match cu_def u with
    | None => None                       (* no definition: Unit._equiv is None *)
    | Some items =>
        prod_items (fun s => match find_unit c s with
                             | Some v => scale_fuel c f v
                             | None => None
                             end) items
    end
  end.

(* a chain of definitions cannot be longer than the catalogue *)
Definition scale_of (c : catalogue) (u : cunit) : option Q :=
  scale_fuel c (S (List.length (c_units c))) u.

Definition scale_sym (c : catalogue) (s : string) : option Q :=
  match find_unit c s with Some u => scale_of c u | None => None end.

(* the product along the declared definition, computed for reference units
   as well (for them it must be 1: the coherence assumption) *)
Definition def_product (c : catalogue) (u : cunit) : option Q :=
  match cu_def u with
  | None => None
  | Some items => prod_items (scale_sym c) items
  end.

Definition oq_eqb (a b : option Q) : bool :=
  match a, b with
  | Some x, Some y => qeqb x y
  | None, None => true
  | _, _ => false
  end.

(* ---- coherence checks ---------------------------------------------------- *)
(* a reference unit with a definition is a product of reference units only *)
Definition ref_def_ok (c : catalogue) (u : cunit) : bool :=
  match cu_def u with
  | None => true
  | Some items =>
      forallb (fun it => match it with
                         | DNum _ _ => false
                         | DUnit s _ => match find_unit c s with
                                        | Some v => is_ref c v
                                        | None => false
                                        end
                         end) items
  end.
Definition refs_coherent (c : catalogue) : bool :=
  forallb (fun u => if is_ref c u then ref_def_ok c u else true) (c_units c).

(* dimensions: exponent of every base type *)
Definition dim := list (string * Z).
Definition dim_scale (k : Z) (d : dim) : dim := map (fun p => (fst p, snd p * k)) d.
Fixpoint dim_get (d : dim) (b : string) : Z :=
  match d with
  | [] => 0
  | (n, e) :: r => (if seqb n b then e else 0) + dim_get r b
  end.

Fixpoint type_dim_fuel (c : catalogue) (fuel : nat) (n : string) : option dim :=
  match fuel with
  | O => None
  | S f =>
    match find_type c n with
    | None => None
    | Some t =>
      match ct_def t with
      | None => Some [(n, 1)]
      | Some items =>
          fold_right (fun it acc =>
                        match type_dim_fuel c f (fst it), acc with
                        | Some d, Some a => Some (dim_scale (snd it) d ++ a)
                        | _, _ => None
                        end) (Some []) items
      end
    end
  end.
Definition type_dim (c : catalogue) (n : string) : option dim :=
  type_dim_fuel c (S (List.length (c_types c))) n.

Definition def_dim (c : catalogue) (items : list ditem) : option dim :=
  fold_right (fun it acc =>
                match it with
                | DNum _ _ => acc
                | DUnit s e =>
                    match find_unit c s with
                    | None => None
                    | Some v => match type_dim c (cu_cls v), acc with
                                | Some d, Some a => Some (dim_scale e d ++ a)
                                | _, _ => None
                                end
                    end
                end) (Some []) items.

Definition base_types (c : catalogue) : list string :=
  map ct_name (filter (fun t => match ct_def t with None => true | Some _ => false end)
                      (c_types c)).

Definition dim_eqb (c : catalogue) (a b : dim) : bool :=
  forallb (fun n => Z.eqb (dim_get a n) (dim_get b n)) (base_types c).

(* every defined unit has the dimension of its type *)
Definition unit_dim_ok (c : catalogue) (u : cunit) : bool :=
  match cu_def u with
  | None => true
  | Some items =>
      match def_dim c items, type_dim c (cu_cls u) with
      | Some a, Some b => dim_eqb c a b
      | _, _ => false
      end
  end.
Definition dims_ok (c : catalogue) : bool := forallb (unit_dim_ok c) (c_units c).

(* ---- unit views for Model/Quantity.v -------------------------------------- *)
Definition is_some {A} (o : option A) : bool := match o with Some _ => true | None => false end.

Definition view (c : catalogue) (u : cunit) : option unit :=
  match find_type c (cu_cls u), type_index c (cu_cls u), unit_index c (cu_sym u) with
  | Some t, Some ci, Some ui =>
      let sc := scale_of c u in
      let qu := match ct_quantum t, sc with
                | Some q, Some s => Some (qdiv q s)        (* Unit.quantum *)
                | _, _ => None
                end in
      Some (mkUnit ui ci (is_some (ct_ref t)) sc qu)
  | _, _, _ => None
  end.

Definition view_sym (c : catalogue) (s : string) : option unit :=
  match find_unit c s with Some u => view c u | None => None end.

Definition views (c : catalogue) : list (option unit) := map (view c) (c_units c).

(* the registered table converter, keyed by unit ids *)
Definition temp_table (c : catalogue) : table :=
  fold_right (fun row acc =>
                match unit_index c (fst (fst row)), unit_index c (snd (fst row)) with
                | Some a, Some b => ((a, b), snd row) :: acc
                | _, _ => acc
                end) [] (c_temp c).

Definition cat_convenv (c : catalogue) : convenv :=
  fun k => match c_temp_cls c with
           | Some n => match type_index c n with
                       | Some i => if N.eqb i k then [temp_table c] else []
                       | None => []
                       end
           | None => []
           end.

(* ---- SI prefixes ----------------------------------------------------------- *)
Record prefix := mkPrefix {
  p_var : string; p_name : string; p_abbr : string; p_exp : Z }.

(* SIPrefix.factor *)
Definition prefix_factor (base : Z) (p : prefix) : Q := qpow (inject_Z base) (p_exp p).

(* ---- documentation tables -------------------------------------------------- *)
Record doc_row := mkDocRow {
  dr_sym : string; dr_name : string; dr_def : string; dr_equiv : Q }.
Record doc_section := mkDocSection {
  ds_type : string; ds_def : option string; ds_ref : option string;
  ds_rows : list doc_row }.
(* `a u = b v` (exact) or `a u ≅ b v` (b rounded to [de_decimals] places) *)
Record doc_equiv := mkDocEquiv {
  de_from : string; de_amt : Q; de_to : string; de_val : Q;
  de_exact : bool; de_decimals : Z }.
(* [to] = ([from] + pre) * factor + post *)
Record doc_formula := mkDocFormula {
  df_from : string; df_to : string; df_pre : Q; df_factor : Q; df_post : Q }.

(* what the model computes for `a u` in unit `v` (exact, before any quantum) *)
Definition equiv_in (c : catalogue) (a : Q) (su sv : string) : option Q :=
  match view_sym c su, view_sym c sv with
  | Some u, Some v =>
      match equiv_amount (cat_convenv c) (mkQty a u) v with
      | Ok (Some x) => Some x
      | _ => None
      end
  | _, _ => None
  end.

(* a row of a unit table: the unit belongs to the section's type, is not the
   reference unit, and the tabulated equivalent is the computed scale *)
Definition doc_row_ok (c : catalogue) (s : doc_section) (r : doc_row) : bool :=
  match find_unit c (dr_sym r) with
  | Some u => seqb (cu_cls u) (ds_type s) && negb (is_ref c u)
              && oq_eqb (scale_of c u) (Some (dr_equiv r))
  | None => false
  end.

Definition mem_str (s : string) (l : list string) : bool := existsb (seqb s) l.

(* a section: the type exists with that reference unit, all rows are right,
   no symbol is listed twice and every non-reference unit of the type that
   has a scale is listed *)
Fixpoint nodup_str (l : list string) : bool :=
  match l with
  | [] => true
  | x :: r => negb (mem_str x r) && nodup_str r
  end.

Definition doc_section_ok (c : catalogue) (s : doc_section) : bool :=
  match find_type c (ds_type s) with
  | None => false
  | Some t =>
      ostr_eqb (ct_ref t) (ds_ref s)
      && forallb (doc_row_ok c s) (ds_rows s)
      && nodup_str (map dr_sym (ds_rows s))
      && forallb (fun u => if seqb (cu_cls u) (ds_type s) && negb (is_ref c u)
                              && is_some (scale_of c u)
                           then mem_str (cu_sym u) (map dr_sym (ds_rows s)) else true)
                 (c_units c)
  end.

(* every type of the catalogue has a section *)
Definition doc_covers_types (c : catalogue) (l : list doc_section) : bool :=
  forallb (fun t => mem_str (ct_name t) (map ds_type l)) (c_types c)
  && nodup_str (map ds_type l).

Definition qabs_le (x b : Q) : bool := qleb (qabs x) b.

Definition doc_equiv_ok (c : catalogue) (e : doc_equiv) : bool :=
  match equiv_in c (de_amt e) (de_from e) (de_to e) with
  | Some x =>
      if de_exact e then qeqb x (de_val e)
      else qabs_le (qsub x (de_val e)) (qdiv (pow10 (- de_decimals e)) (2 # 1))
  | None => false
  end.

(* the documented formula and the registered table row are the same affine
   map: the row (from,to) -> (k,o) exists, k = factor, o = pre*factor + post,
   and the model's conversion between the two units goes through that row
   (no reference unit, no scales, distinct units, one registered converter) *)
Definition doc_formula_ok (c : catalogue) (f : doc_formula) : bool :=
  match view_sym c (df_from f), view_sym c (df_to f) with
  | Some u, Some v =>
      same_cls u v && negb (same_unit u v) && negb (u_has_ref u)
      && negb (is_some (u_scale u)) && negb (is_some (u_scale v))
      && match cat_convenv c (u_cls u) with
         | [t] => match table_get t (u_id u) (u_id v) with
                  | Some (k, o) =>
                      qeqb k (df_factor f)
                      && qeqb o (qadd (qmul (df_pre f) (df_factor f)) (df_post f))
                  | None => false
                  end
         | _ => false
         end
  | _, _ => false
  end.

(* rows of the tables of types without reference unit: (type, symbol, name);
   every unit without a scale is listed under its type, none twice *)
Definition doc_nonlinear_ok (c : catalogue) (l : list (string * string * string)) : bool :=
  forallb (fun r => match find_unit c (snd (fst r)) with
                    | Some u => seqb (cu_cls u) (fst (fst r)) && negb (is_some (scale_of c u))
                    | None => false
                    end) l
  && nodup_str (map (fun r => snd (fst r)) l)
  && forallb (fun u => if is_some (scale_of c u) then true
                       else mem_str (cu_sym u) (map (fun r => snd (fst r)) l)) (c_units c).
