(* Model/Num.v — numbers of the model: exact rationals, rounding modes.
   No proofs here (the model must still run when a proof breaks). *)
From Coq Require Export ZArith QArith Qabs List Bool.
Export ListNotations.
Open Scope Z_scope.

(* the eight members of decimalfp.ROUNDING *)
Inductive mode := M05UP | MCEIL | MDOWN | MFLOOR | MHDOWN | MHEVEN | MHUP | MUP.

Definition mode_eqb (a b : mode) : bool :=
  match a, b with
  | M05UP, M05UP | MCEIL, MCEIL | MDOWN, MDOWN | MFLOOR, MFLOOR
  | MHDOWN, MHDOWN | MHEVEN, MHEVEN | MHUP, MHUP | MUP, MUP => true
  | _, _ => false
  end.

Definition all_modes : list mode :=
  [M05UP; MCEIL; MDOWN; MFLOOR; MHDOWN; MHEVEN; MHUP; MUP].

(* ---- exact rationals, kept reduced in executable code ---- *)
Definition qz (z : Z) : Q := inject_Z z.
Definition qadd (a b : Q) : Q := Qred (Qplus a b).
Definition qsub (a b : Q) : Q := Qred (Qminus a b).
Definition qmul (a b : Q) : Q := Qred (Qmult a b).
Definition qdiv (a b : Q) : Q := Qred (Qdiv a b).
Definition qneg (a : Q) : Q := Qopp a.
Definition qabs (a : Q) : Q := Qabs a.
Definition qeqb (a b : Q) : bool := Qeq_bool a b.
Definition qltb (a b : Q) : bool := (Qnum a * Zpos (Qden b) <? Qnum b * Zpos (Qden a))%Z.
Definition qleb (a b : Q) : bool := Qle_bool a b.
Definition qzero (a : Q) : bool := (Qnum a =? 0)%Z.

(* integer power of a rational, exponent in Z (x^-n = 1/x^n; 0^-n is 0 here,
   the implementation raises ZeroDivisionError — callers guard on x<>0) *)
Definition qpow (a : Q) (e : Z) : Q := Qred (Qpower a e).

(* 10^k as a rational, k in Z *)
Definition pow10 (k : Z) : Q := qpow (10 # 1) k.

(* floor and ceiling of a rational *)
Definition qfloor (a : Q) : Z := (Qnum a / Zpos (Qden a))%Z.
Definition qceil (a : Q) : Z := (- ((- Qnum a) / Zpos (Qden a)))%Z.
