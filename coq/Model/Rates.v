(* Model/Rates.v — exchange rates (money/__init__.py: ExchangeRate).
   Executable model, no proofs.  Currencies are identified by N ids.

   Mirrors ExchangeRate.__init__ (after the repair of the magnitude rule,
   /repo commit "fix: ExchangeRate keeps the term amount's magnitude >= -1"):
     unit multiple must be integral and >= 1, term amount >= 10^-6,
     adj = amount * 10^mag(multiple) / multiple,
     mult = 10^(mag(multiple) - min(0, mag(adj) + 1)),
     stored amount = round6 (amount * mult / multiple)   (default rounding mode)
   where mag q = floor(log10 q).  The implementation computes mag of a
   non-Decimal amount with float log10; the model uses the exact value. *)
From QV Require Export Model.Num Model.Rounding Model.Quantity.
Open Scope Z_scope.

(* number of decimal digits of a positive integer (1 for n < 10) *)
Fixpoint ndigits_aux (fuel : nat) (n : Z) : Z :=
  match fuel with
  | O => 1
  | S f => if n <? 10 then 1 else 1 + ndigits_aux f (n / 10)
  end.
Definition ndigits (n : Z) : Z := ndigits_aux (S (Z.to_nat (Z.log2 n))) n.

(* floor(log10 q) for q > 0: the candidate from digit counts is at most one
   too big *)
Definition magnitude (q : Q) : Z :=
  let c := ndigits (Qnum q) - ndigits (Zpos (Qden q)) in
  if qleb (pow10 c) q then c else c - 1.

Definition is_integral (q : Q) : bool := (Qden (Qred q) =? 1)%positive.

Record rate := mkRate {
  r_unit : N;          (* unit currency *)
  r_term : N;          (* term currency *)
  r_mult : Q;          (* stored unit multiple *)
  r_amt : Q            (* stored term amount *)
}.

Definition round6 (dm : mode) (q : Q) : Q := round_to_quantum dm q (pow10 (-6)).

(* ExchangeRate(unit, multiple, term, amount) *)
Definition mk_rate (dm : mode) (u : N) (multiple : Q) (t : N) (amount : Q) : res rate :=
  if N.eqb u t then Err EValueError else
  if negb (is_integral multiple) then Err EValueError else
  if qltb multiple 1 then Err EValueError else
  if qltb amount (pow10 (-6)) then Err EValueError else
  let km := magnitude multiple in
  let adj := qdiv (qmul amount (pow10 km)) multiple in
  let mult := pow10 (km - Z.min 0 (magnitude adj + 1)) in
  Ok (mkRate u t mult (round6 dm (qdiv (qmul amount mult) multiple))).

Definition rate_of (r : rate) : Q := qdiv (r_amt r) (r_mult r).          (* .rate *)
Definition inverse_rate (r : rate) : Q := qdiv (r_mult r) (r_amt r).     (* .inverse_rate *)

(* .inverted() *)
Definition inverted (dm : mode) (r : rate) : res rate :=
  mk_rate dm (r_term r) 1 (r_unit r) (inverse_rate r).

(* == on exchange rates: equality of quotations *)
Definition rate_eqb (a b : rate) : bool :=
  N.eqb (r_unit a) (r_unit b) && N.eqb (r_term a) (r_term b) && qeqb (rate_of a) (rate_of b).

(* rate * rate *)
Definition rate_mul (dm : mode) (a b : rate) : res rate :=
  if N.eqb (r_unit a) (r_term b) then
    mk_rate dm (r_unit b) 1 (r_term a) (qmul (rate_of a) (rate_of b))
  else if N.eqb (r_term a) (r_unit b) then
    mk_rate dm (r_unit a) 1 (r_term b) (qmul (rate_of a) (rate_of b))
  else Err EValueError.

(* rate / rate *)
Definition rate_div (dm : mode) (a b : rate) : res rate :=
  if N.eqb (r_unit a) (r_unit b) then
    mk_rate dm (r_term b) 1 (r_term a) (qdiv (rate_of a) (rate_of b))
  else if N.eqb (r_term a) (r_term b) then
    mk_rate dm (r_unit a) 1 (r_unit b) (qdiv (rate_of a) (rate_of b))
  else Err EValueError.

(* money * rate, rate * money: [cur] maps a currency id to its unit view *)
Definition money_mul_rate (dm : mode) (cur : N -> unit) (m : qty) (r : rate) : res qty :=
  if N.eqb (u_id (q_unit m)) (r_unit r)
  then Ok (mk_qty dm (qmul (q_amt m) (rate_of r)) (cur (r_term r)))
  else Err EValueError.

(* money / rate *)
Definition money_div_rate (dm : mode) (cur : N -> unit) (m : qty) (r : rate) : res qty :=
  if N.eqb (u_id (q_unit m)) (r_term r)
  then Ok (mk_qty dm (qmul (q_amt m) (inverse_rate r)) (cur (r_unit r)))
  else Err EValueError.
