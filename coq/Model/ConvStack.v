(* Model/ConvStack.v — the converter registry of a quantity class as a state
   machine (property C12).  Executable, no proofs.

   Mirrors
     src/quantity/__init__.py   QuantityMeta.register_converter / remove_converter /
                                registered_converters, Quantity.equiv_amount (the
                                converter loop) / convert
     src/quantity/money/__init__.py
                                MoneyMeta.register_converter / remove_converter,
                                MoneyConverter.__call__ / __enter__ / __exit__

   A converter is an identity (N) — `is` / the default `==` of these objects —
   plus a behaviour given as data: a table (from unit id, to unit id) ->
   (factor, offset), result = factor * amount + offset; a missing entry is
   "no amount".  The behaviours of the converters of one run are fixed
   ([benv]); the registry state is the private list `cls._converters`, in
   REGISTRATION order (the public listing is its reverse). *)
From QV Require Export Model.Num Model.Quantity.
Open Scope Z_scope.

Definition benv := N -> table.          (* converter id -> behaviour *)
Definition state := list N.             (* cls._converters, registration order *)

Inductive result :=
  | RNone                               (* the call returned None *)
  | RAmt (q : Q)                        (* convert(): amount of the result *)
  | RErr (e : err)                      (* the call raised *)
  | RList (l : list N).                 (* registered_converters() *)

(* conv(qty, to_unit) as far as it returns: Some amount / None *)
Definition conv_apply (t : table) (a : Q) (f u : N) : option Q :=
  match table_get t f u with
  | Some (k, o) => Some (qadd (qmul k a) o)
  | None => None
  end.

Definition mem (c : N) (s : list N) : bool := existsb (N.eqb c) s.

(* cls._converters[-1] *)
Fixpoint last_opt (s : list N) : option N :=
  match s with
  | [] => None
  | [x] => Some x
  | _ :: r => last_opt r
  end.

(* registered_converters(): reversed(cls._converters) *)
Definition listing (s : state) : list N := rev s.

(* ------------------------------------------------------------------ Money *)

(* [ismc c]: the object is a MoneyConverter (anything else is rejected) *)
Definition money_register (ismc : N -> bool) (s : state) (c : N) : state * result :=
  if ismc c then (s ++ [c], RNone) else (s, RErr ETypeError).

(* MoneyMeta.remove_converter:
     if cls._converters[-1] is conv: pop           (IndexError on an empty list)
     elif conv in cls._converters: ValueError
     else: ValueError *)
Definition money_remove (s : state) (c : N) : state * result :=
  match last_opt s with
  | None => (s, RErr EIndexError)
  | Some t =>
      if N.eqb t c then (removelast s, RNone)
      else if mem c s then (s, RErr EValueError)
      else (s, RErr EValueError)
  end.

(* MoneyConverter.__call__: an amount, or — no rate — it RAISES
   UnitConversionError; it never returns None *)
Definition money_call (t : table) (a : Q) (f u : N) : res (option Q) :=
  match conv_apply t a f u with
  | Some x => Ok (Some x)
  | None => Err EUnitConversion
  end.

(* Quantity.equiv_amount on Money (currencies have no reference unit and no
   factor): equal units -> the amount; else the loop
       for conv in registered_converters():
           amnt = conv(self, unit)
           if amnt is not None: return amnt
       return None
   where a raising converter ends the loop *)
Fixpoint money_loop (be : benv) (l : list N) (a : Q) (f u : N) : res (option Q) :=
  match l with
  | [] => Ok None
  | c :: r => match money_call (be c) a f u with
              | Ok (Some x) => Ok (Some x)
              | Ok None => money_loop be r a f u
              | Err e => Err e
              end
  end.

Definition money_equiv (be : benv) (s : state) (a : Q) (f u : N) : res (option Q) :=
  if N.eqb f u then Ok (Some a) else money_loop be (listing s) a f u.

(* Quantity.convert *)
Definition money_convert (be : benv) (s : state) (a : Q) (f u : N) : result :=
  match money_equiv be s a f u with
  | Ok (Some x) => RAmt x
  | Ok None => RErr EUnitConversion
  | Err e => RErr e
  end.

Inductive mop :=
  | MRegister (c : N)                  (* Money.register_converter(c) *)
  | MRemove (c : N)                    (* Money.remove_converter(c) *)
  | MEnter (c : N)                     (* c.__enter__() *)
  | MLeave (c : N)                     (* c.__exit__(...) — on normal and exceptional exit alike *)
  | MConvert (a : Q) (f u : N)         (* Money(a, f).convert(u) *)
  | MList.                             (* list(Money.registered_converters()) *)

Definition money_step (ismc : N -> bool) (be : benv) (s : state) (o : mop) : state * result :=
  match o with
  | MRegister c | MEnter c => money_register ismc s c
  | MRemove c | MLeave c => money_remove s c
  | MConvert a f u => (s, money_convert be s a f u)
  | MList => (s, RList (listing s))
  end.

Fixpoint money_run (ismc : N -> bool) (be : benv) (s : state) (ops : list mop)
  : state * list result :=
  match ops with
  | [] => (s, [])
  | o :: r => let '(s1, x) := money_step ismc be s o in
              let '(s2, xs) := money_run ismc be s1 r in
              (s2, x :: xs)
  end.

(* ---- programs with real `with` blocks ---- *)
Inductive prog :=
  | PSkip
  | POp (o : mop)                 (* guarded call: result / exception class is logged *)
  | PConvertU (a : Q) (f u : N)   (* unguarded convert: an exception propagates *)
  | PRaise (e : err)              (* raise an application exception *)
  | PSeq (p q : prog)
  | PBlock (c : N) (body : prog)  (* with c: body *)
  | PTry (p : prog).              (* try: p  except Exception: (log the class) *)

Inductive outcome := Normal | Raised (e : err).

(* the log: results of guarded calls and successful unguarded converts, and
   RErr e for every exception caught by a PTry *)
Fixpoint exec (ismc : N -> bool) (be : benv) (p : prog) (s : state)
  : state * list result * outcome :=
  match p with
  | PSkip => (s, [], Normal)
  | POp o => let '(s1, x) := money_step ismc be s o in (s1, [x], Normal)
  | PConvertU a f u =>
      match money_convert be s a f u with
      | RErr e => (s, [], Raised e)
      | x => (s, [x], Normal)
      end
  | PRaise e => (s, [], Raised e)
  | PSeq p q =>
      match exec ismc be p s with
      | (s1, l1, Normal) =>
          let '(s2, l2, o2) := exec ismc be q s1 in (s2, l1 ++ l2, o2)
      | r => r
      end
  | PBlock c body =>
      (* __enter__ : an exception here means the body and __exit__ do not run *)
      match money_step ismc be s (MEnter c) with
      | (s1, RErr e) => (s1, [], Raised e)
      | (s1, _) =>
          let '(s2, l2, o2) := exec ismc be body s1 in
          (* __exit__ runs either way; it returns None (the exception of the
             body propagates) unless it raises itself (then that one does) *)
          match money_step ismc be s2 (MLeave c) with
          | (s3, RErr e) => (s3, l2, Raised e)
          | (s3, _) => (s3, l2, o2)
          end
      end
  | PTry p =>
      match exec ismc be p s with
      | (s1, l1, Raised e) => (s1, l1 ++ [RErr e], Normal)
      | r => r
      end
  end.

(* no direct (un)registration: converters are used as context managers only *)
Fixpoint blocks_only (p : prog) : bool :=
  match p with
  | POp (MConvert _ _ _) | POp MList => true
  | POp _ => false
  | PSkip | PConvertU _ _ _ | PRaise _ => true
  | PSeq p q => blocks_only p && blocks_only q
  | PBlock _ b => blocks_only b
  | PTry p => blocks_only p
  end.

(* ------------------------------------------------- other quantity types *)

(* QuantityMeta.register_converter: append unless already present *)
Definition gen_register (s : state) (c : N) : state * result :=
  (if mem c s then s else s ++ [c], RNone).

(* list.remove: the first occurrence, ValueError when absent *)
Fixpoint remove_first (c : N) (s : list N) : list N :=
  match s with
  | [] => []
  | x :: r => if N.eqb x c then r else x :: remove_first c r
  end.

Definition gen_remove (s : state) (c : N) : state * result :=
  if mem c s then (remove_first c s, RNone) else (s, RErr EValueError).

(* the converter loop of equiv_amount: most recent first, first non-None wins *)
Fixpoint gen_loop (be : benv) (l : list N) (a : Q) (f u : N) : option Q :=
  match l with
  | [] => None
  | c :: r => match conv_apply (be c) a f u with
              | Some x => Some x
              | None => gen_loop be r a f u
              end
  end.

(* for a type without reference unit (no factor between distinct units) *)
Definition gen_convert (be : benv) (s : state) (a : Q) (f u : N) : result :=
  if N.eqb f u then RAmt a else
  match gen_loop be (listing s) a f u with
  | Some x => RAmt x
  | None => RErr EUnitConversion
  end.

Inductive gop :=
  | GRegister (c : N)
  | GRemove (c : N)
  | GConvert (a : Q) (f u : N)
  | GList.

Definition gen_step (be : benv) (s : state) (o : gop) : state * result :=
  match o with
  | GRegister c => gen_register s c
  | GRemove c => gen_remove s c
  | GConvert a f u => (s, gen_convert be s a f u)
  | GList => (s, RList (listing s))
  end.

Fixpoint gen_run (be : benv) (s : state) (ops : list gop) : state * list result :=
  match ops with
  | [] => (s, [])
  | o :: r => let '(s1, x) := gen_step be s o in
              let '(s2, xs) := gen_run be s1 r in
              (s2, x :: xs)
  end.
