(* Model/MoneyConv.v — the money converter (money/__init__.py: MoneyConverter)
   as a state machine.  Executable model, no proofs.

   Mirrors (working tree of /repo after the repairs of F5 and F12):
     update(validity, rate_specs):
        1. the validity is normalised per spelling (str / tuple / int / None /
           date), ValueError (IndexError, OverflowError) when it is malformed;
        2. type(validity) must equal the converter's type of validity if that is
           already fixed, else ValueError;
        3. ALL rates are built with ExchangeRate(base, multiple, term, amount),
           the first failing entry raises;
        4. only then the type of validity is set and the dict is updated, keyed
           by (validity, rate.term_currency).
     get_rate(unit, term, effective_date), _get_rate, __call__.
   Strings are lists of code points.  date.fromisoformat is modelled after
   CPython 3.12's C implementation (_datetimemodule.c: parse_isoformat_date,
   iso_to_ymd, ord_to_ymd) including the week-date forms and the fact that a
   10-character string without separators is parsed on its first 8 characters
   only ('20200315--' is accepted).  Guard: strings are ASCII (the C code
   works on UTF-8 bytes; non-ASCII text is rejected by code and model alike,
   but lengths are counted differently). *)
From QV Require Export Model.Rates.
Open Scope Z_scope.

(* ------------------------------------------------------------------ dates *)

Record date := mkDate { d_y : Z; d_m : Z; d_d : Z }.

Definition is_leap (y : Z) : bool :=
  (y mod 4 =? 0) && (negb (y mod 100 =? 0) || (y mod 400 =? 0)).

Definition days_in_month (y m : Z) : Z :=
  if m =? 2 then (if is_leap y then 29 else 28)
  else if (m =? 4) || (m =? 6) || (m =? 9) || (m =? 11) then 30 else 31.

(* datetime.date(y, m, d) exists *)
Definition valid_date (y m d : Z) : bool :=
  (1 <=? y) && (y <=? 9999) && (1 <=? m) && (m <=? 12) &&
  (1 <=? d) && (d <=? days_in_month y m).

Definition valid_dt (dt : date) : bool := valid_date (d_y dt) (d_m dt) (d_d dt).

(* proleptic Gregorian ordinal, 0001-01-01 = 1 (for y >= 1) *)
Definition days_before_year (y : Z) : Z :=
  let p := y - 1 in p * 365 + p / 4 - p / 100 + p / 400.

Fixpoint days_before_month_aux (k : nat) (y : Z) : Z :=
  match k with
  | O => 0
  | S j => days_before_month_aux j y + days_in_month y (Z.of_nat k)
  end.
Definition days_before_month (y m : Z) : Z := days_before_month_aux (Z.to_nat (m - 1)) y.

Definition ymd_to_ord (y m d : Z) : Z := days_before_year y + days_before_month y m + d.

Fixpoint find_month (fuel : nat) (y m n : Z) : Z * Z * Z :=
  match fuel with
  | O => (y, m, n + 1)
  | S f => let dim := days_in_month y m in
           if n <? dim then (y, m, n + 1) else find_month f y (m + 1) (n - dim)
  end.

(* ord_to_ymd of _datetimemodule.c, for ordinals >= 1 *)
Definition ord_to_ymd (ord : Z) : Z * Z * Z :=
  let n := ord - 1 in
  let n400 := n / 146097 in let n := n mod 146097 in
  let n100 := n / 36524 in let n := n mod 36524 in
  let n4 := n / 1461 in let n := n mod 1461 in
  let n1 := n / 365 in let n := n mod 365 in
  let year := n400 * 400 + 1 + n100 * 100 + n4 * 4 + n1 in
  if (n1 =? 4) || (n100 =? 4) then (year - 1, 12, 31)
  else find_month 11 year 1 n.

(* iso_to_ymd: ISO year / week / weekday -> y, m, d (None: rejected).
   For ISO year 0 the C code computes with a wrong (truncating) day count and
   indexes its month tables with a negative number; every observed outcome is
   ValueError, which is what the model answers. *)
Definition iso_to_ymd (y w d : Z) : option (Z * Z * Z) :=
  if y =? 0 then None else
  let first_day := ymd_to_ord y 1 1 in
  let first_wd := (first_day + 6) mod 7 in         (* Monday = 0 *)
  let week_ok :=
    if (w <=? 0) || (53 <=? w)
    then (w =? 53) && ((first_wd =? 3) || ((first_wd =? 2) && is_leap y))
    else true in
  if negb week_ok then None else
  if (d <=? 0) || (8 <=? d) then None else
  let w1 := first_day - first_wd in
  let w1 := if 3 <? first_wd then w1 + 7 else w1 in
  Some (ord_to_ymd (w1 + (w - 1) * 7 + d - 1)).

(* ------------------------------------------------------------ text of dates *)

Definition c_dash : N := 45%N.
Definition c_W : N := 87%N.
Definition c_0 : N := 48%N.

Definition digit (c : N) : option Z :=
  if (48 <=? c)%N && (c <=? 57)%N then Some (Z.of_N c - 48) else None.

(* parse_digits(p, &var, n): exactly n ASCII digits; running off the end of
   the string meets the terminating NUL, which is no digit *)
Fixpoint parse_digits (n : nat) (acc : Z) (s : list N) : option (Z * list N) :=
  match n with
  | O => Some (acc, s)
  | S k => match s with
           | c :: r => match digit c with
                       | Some d => parse_digits k (acc * 10 + d) r
                       | None => None
                       end
           | [] => None
           end
  end.

Definition head_is (c : N) (s : list N) : bool :=
  match s with x :: _ => N.eqb x c | [] => false end.

(* `if (uses_separator && *(p++) != '-') return -2;` *)
Definition skip_sep (sep : bool) (p : list N) : option (list N) :=
  if sep then (if head_is c_dash p then Some (tl p) else None) else Some p.

(* parse_isoformat_date: there is no check that the whole string was consumed *)
Definition parse_isoformat_date (s : list N) : option (Z * Z * Z) :=
  match parse_digits 4 0 s with
  | None => None
  | Some (year, p) =>
    let sep := head_is c_dash p in
    let p := if sep then tl p else p in
    if head_is c_W p then
      match parse_digits 2 0 (tl p) with
      | None => None
      | Some (wk, p) =>
        match p with
        | [] => iso_to_ymd year wk 1
        | _ :: _ =>
          match skip_sep sep p with
          | None => None
          | Some p =>
            match parse_digits 1 0 p with
            | None => None
            | Some (wd, _) => iso_to_ymd year wk wd
            end
          end
        end
      end
    else
      match parse_digits 2 0 p with
      | None => None
      | Some (month, p) =>
        match skip_sep sep p with
        | None => None
        | Some p =>
          match parse_digits 2 0 p with
          | None => None
          | Some (day, _) => Some (year, month, day)
          end
        end
      end
  end.

(* date.fromisoformat(s): None = ValueError *)
Definition fromisoformat (s : list N) : option date :=
  let len := length s in
  if (Nat.eqb len 7 || Nat.eqb len 8 || Nat.eqb len 10)%bool then
    match parse_isoformat_date s with
    | Some (y, m, d) => if valid_date y m d then Some (mkDate y m d) else None
    | None => None
    end
  else None.

(* format(z, '0<w>d'): sign-aware zero padding *)
Fixpoint digits_aux (fuel : nat) (n : Z) (acc : list N) : list N :=
  match fuel with
  | O => acc
  | S f => let acc' := (Z.to_N (48 + n mod 10)) :: acc in
           if n <? 10 then acc' else digits_aux f (n / 10) acc'
  end.
Definition digits (n : Z) : list N := digits_aux (S (Z.to_nat (Z.log2 n))) n [].
Definition fmt_int (w : nat) (z : Z) : list N :=
  let ds := digits (Z.abs z) in
  let sign := if z <? 0 then [c_dash] else [] in
  sign ++ repeat c_0 (w - length sign - length ds) ++ ds.

Definition fmt4 (y : Z) : list N := fmt_int 4 y.
Definition fmt2 (m : Z) : list N := fmt_int 2 m.

Definition s_01 : list N := [c_dash; c_0; 49%N].                 (* "-01" *)

(* ------------------------------------------------------------ validities *)

(* the argument `validity` of update(), as the caller may spell it *)
Inductive vspec :=
  | VNone
  | VInt (y : Z)
  | VBool (b : bool)               (* bool is an int subclass; its own kind *)
  | VStr (s : list N)
  | VTuple (y m : Z)               (* a pair of ints *)
  | VTupleL (l : list Z)           (* a tuple of ints of any length *)
  | VTupleNonInt                   (* a str or float among the first two elements *)
  | VDate (y m d : Z)              (* a datetime.date object (exists for valid dates only) *)
  | VDateTime (y m d : Z) (tod : N)(* datetime is a date subclass; its own kind *)
  | VOther.                        (* float, list, bytes, Decimal, ... *)

(* the normalised validity = first component of the dictionary key *)
Inductive validity :=
  | KNone
  | KYear (y : Z)
  | KMonth (y m : Z)
  | KDay (y m d : Z)
  | KBool                          (* True, slipped through *)
  | KDateTime (y m d : Z) (tod : N).

(* type(validity) *)
Inductive kind := KdNone | KdYear | KdMonth | KdDay | KdBool | KdDateTime.

Definition kind_of (v : validity) : kind :=
  match v with
  | KNone => KdNone | KYear _ => KdYear | KMonth _ _ => KdMonth
  | KDay _ _ _ => KdDay | KBool => KdBool | KDateTime _ _ _ _ => KdDateTime
  end.

Definition kind_eqb (a b : kind) : bool :=
  match a, b with
  | KdNone, KdNone | KdYear, KdYear | KdMonth, KdMonth | KdDay, KdDay
  | KdBool, KdBool | KdDateTime, KdDateTime => true
  | _, _ => false
  end.

Definition validity_eqb (a b : validity) : bool :=
  match a, b with
  | KNone, KNone => true
  | KYear y, KYear y' => y =? y'
  | KMonth y m, KMonth y' m' => (y =? y') && (m =? m')
  | KDay y m d, KDay y' m' d' => (y =? y') && (m =? m') && (d =? d')
  | KBool, KBool => true
  | KDateTime y m d t, KDateTime y' m' d' t' =>
      (y =? y') && (m =? m') && (d =? d') && N.eqb t t'
  | _, _ => false
  end.

Definition count_dash (s : list N) : nat := length (filter (N.eqb c_dash) s).

Definition norm_month (s : list N) : res validity :=
  match fromisoformat s with
  | Some dt => Ok (KMonth (d_y dt) (d_m dt))
  | None => Err EValueError
  end.

(* update(), "check and transform validity", branch by branch *)
Definition norm_validity (v : vspec) : res validity :=
  match v with
  | VStr s =>
      match count_dash s with          (* len(validity.split('-')) - 1 *)
      | 2%nat => match fromisoformat s with
                 | Some dt => Ok (KDay (d_y dt) (d_m dt) (d_d dt))
                 | None => Err EValueError
                 end
      | 1%nat => norm_month (s ++ s_01)
      | 0%nat => match fromisoformat (s ++ s_01 ++ s_01) with
                 | Some dt => Ok (KYear (d_y dt))
                 | None => Err EValueError
                 end
      | _ => Err EValueError
      end
  | VTuple y m => norm_month (fmt4 y ++ [c_dash] ++ fmt2 m ++ s_01)
  | VTupleL l =>
      match l with
      | y :: m :: _ => norm_month (fmt4 y ++ [c_dash] ++ fmt2 m ++ s_01)
      | _ => Err EIndexError
      end
  | VTupleNonInt => Err EValueError        (* format code 'd' rejected *)
  | VBool b => if b then Ok KBool else Err EValueError    (* date(False, 1, 1) *)
  | VInt y =>
      if (y <? -2147483648) || (2147483647 <? y) then Err EOther   (* OverflowError *)
      else if (1 <=? y) && (y <=? 9999) then Ok (KYear y) else Err EValueError
  | VNone => Ok KNone
  | VDate y m d => Ok (KDay y m d)
  | VDateTime y m d t => Ok (KDateTime y m d t)
  | VOther => Err EValueError
  end.

(* ------------------------------------------------------------ the converter *)

Definition key := (validity * N)%type.
Definition key_eqb (a b : key) : bool :=
  validity_eqb (fst a) (fst b) && N.eqb (snd a) (snd b).

(* the rate dictionary: an association list, the first match counts, so that
   an entry put in front overrides older ones (dict item assignment) *)
Definition table := list (key * rate).

Fixpoint tbl_get (t : table) (k : key) : option rate :=
  match t with
  | [] => None
  | (k', r) :: t' => if key_eqb k' k then Some r else tbl_get t' k
  end.

Definition tbl_set (k : key) (r : rate) (t : table) : table := (k, r) :: t.

(* dict.update(list of items): in order *)
Fixpoint tbl_update (t : table) (es : list (key * rate)) : table :=
  match es with
  | [] => t
  | (k, r) :: es' => tbl_update (tbl_set k r t) es'
  end.

Record cstate := mkConv {
  cv_base : N;
  cv_kind : option kind;
  cv_table : table
}.

Definition conv_init (base : N) : cstate := mkConv base None [].

(* one element of rate_specs *)
Inductive entry :=
  | EntOk (term : N) (amount multiple : Q)  (* term: a registered currency, as object or code *)
  | EntUnknownCode                          (* code of no registered currency: ValueError *)
  | EntNoCurrency                           (* neither Currency nor str: TypeError *)
  | EntBadNumber                            (* amount / multiple text that is no number: ValueError *)
  | EntBadShape (iterable : bool).          (* not a 3-sequence: ValueError / TypeError *)

Definition entry_rate (dm : mode) (base : N) (e : entry) : res rate :=
  match e with
  | EntOk t a m => mk_rate dm base m t a
  | EntUnknownCode => Err EValueError
  | EntNoCurrency => Err ETypeError
  | EntBadNumber => Err EValueError
  | EntBadShape it => Err (if it then EValueError else ETypeError)
  end.

(* the list comprehension: stops at the first entry that raises *)
Fixpoint build_rates (dm : mode) (base : N) (es : list entry) : res (list rate) :=
  match es with
  | [] => Ok []
  | e :: r =>
      match entry_rate dm base e with
      | Err x => Err x
      | Ok rt => match build_rates dm base r with
                 | Err x => Err x
                 | Ok l => Ok (rt :: l)
                 end
      end
  end.

Definition kind_ok (k : option kind) (v : validity) : bool :=
  match k with None => true | Some k' => kind_eqb k' (kind_of v) end.

Definition keyed (v : validity) (rs : list rate) : list (key * rate) :=
  map (fun r => ((v, r_term r), r)) rs.

(* update(): the state after the call and the exception raised, if any *)
Definition conv_update (st : cstate) (v : vspec) (es : list entry) (dm : mode)
  : cstate * option err :=
  match norm_validity v with
  | Err e => (st, Some e)
  | Ok nv =>
      if negb (kind_ok (cv_kind st) nv) then (st, Some EValueError) else
      match build_rates dm (cv_base st) es with
      | Err e => (st, Some e)
      | Ok rs => (mkConv (cv_base st) (Some (kind_of nv))
                         (tbl_update (cv_table st) (keyed nv rs)), None)
      end
  end.

(* _date2validity[type_of_validity](date); None = KeyError (no such type) *)
Definition date2validity (k : kind) (d : date) : option validity :=
  match k with
  | KdNone => Some KNone
  | KdYear => Some (KYear (d_y d))
  | KdMonth => Some (KMonth (d_y d) (d_m d))
  | KdDay => Some (KDay (d_y d) (d_m d) (d_d d))
  | KdBool | KdDateTime => None
  end.

Definition eff_date (effective : option date) (dflt : date) : date :=
  match effective with Some d => d | None => dflt end.

(* _get_rate: None = KeyError, which get_rate turns into None *)
Definition lookup_rate (st : cstate) (c : N) (effective : option date) (dflt : date)
  : option rate :=
  match cv_kind st with
  | None => None
  | Some k =>
      match date2validity k (eff_date effective dflt) with
      | None => None
      | Some v => tbl_get (cv_table st) (v, c)
      end
  end.

Definition some_rate (r : res rate) : res (option rate) :=
  match r with Ok x => Ok (Some x) | Err e => Err e end.

(* get_rate(unit, term, effective_date); dflt = value of the configured callable *)
Definition conv_get_rate (st : cstate) (dm : mode) (u t : N)
           (effective : option date) (dflt : date) : res (option rate) :=
  if N.eqb u t then some_rate (mk_rate dm u 1 t 1)        (* raises: finding F8 *)
  else if N.eqb (cv_base st) u then Ok (lookup_rate st t effective dflt)
  else if N.eqb (cv_base st) t then
    match lookup_rate st u effective dflt with
    | None => Ok None
    | Some r => some_rate (inverted dm r)
    end
  else
    match lookup_rate st u effective dflt with
    | None => Ok None
    | Some ur =>
        match lookup_rate st t effective dflt with
        | None => Ok None
        | Some tr => some_rate (mk_rate dm u 1 t (qdiv (rate_of tr) (rate_of ur)))
        end
    end.

(* conv(money, to_currency, effective_date) -> a number *)
Definition conv_call (st : cstate) (dm : mode) (u : N) (amount : Q) (t : N)
           (effective : option date) (dflt : date) : res Q :=
  match conv_get_rate st dm u t effective dflt with
  | Err e => Err e
  | Ok None => Err EUnitConversion
  | Ok (Some r) => Ok (qmul (rate_of r) amount)
  end.

(* a whole history *)
Record upd := mkUpd { up_v : vspec; up_entries : list entry; up_dm : mode }.

Definition apply_upd (st : cstate) (u : upd) : cstate :=
  fst (conv_update st (up_v u) (up_entries u) (up_dm u)).

Definition run (h : list upd) (st : cstate) : cstate := fold_left apply_upd h st.
