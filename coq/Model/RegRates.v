(* Model/RegRates.v — applying an exchange rate to money and to
   money-per-quantity values on the directory model
   (money/__init__.py: ExchangeRate.__mul__ / __rmul__ / __rtruediv__).
   Currencies are units of the directory; a rate's currency ids are unit ids.
   Executable, no proofs. *)
From QV Require Export Model.Num Model.Rounding Model.Quantity Model.Dim Model.Registry
     Model.Rates.
Open Scope Z_scope.

Definition is_money (s : state) (u : runit) : bool :=
  match find_cls s (ru_cls u) with Some c => rc_money c | None => false end.

(* other.__class__(amount, unit): the unit must belong to the class; a
   missing unit falls back to the class' reference unit *)
Definition construct_in (s : state) (dm : mode) (cid : N) (a : Q) (w : option N) : res mres :=
  match w with
  | Some id =>
      match find_unit s id with
      | Some wu => if N.eqb (ru_cls wu) cid then Ok (MQty (mk_qty dm a (view s wu)))
                   else Err EQuantityError
      | None => Err EOther
      end
  | None =>
      match find_cls s cid with
      | Some c => match rc_ref c with
                  | Some r => match find_unit s r with
                              | Some ru => Ok (MQty (mk_qty dm a (view s ru)))
                              | None => Err EOther
                              end
                  | None => Err EQuantityError
                  end
      | None => Err EOther
      end
  end.

(* quantity * rate (mul = true, also rate * quantity) and quantity / rate *)
Definition apply_rate (s : state) (dm : mode) (mul : bool) (a : Q) (uid : N) (r : rate)
  : res mres :=
  match find_unit s uid, find_unit s (r_unit r), find_unit s (r_term r) with
  | Some u, Some cu, Some ct =>
      let from := if mul then cu else ct in          (* currency the amount must be in *)
      let to := if mul then ct else cu in
      let k := if mul then rate_of r else inverse_rate r in
      if is_money s u then
        if N.eqb (ru_id u) (ru_id from)
        then Ok (MQty (mk_qty dm (qmul a k) (view s to)))
        else Err EValueError
      else
        (* unit definition * to / from, resolved against the directory *)
        let x := nf_mul (ru_nf u) (nf_mul (ru_nf to) (nf_inv (ru_nf from))) in
        match resolve s x with
        | None => Err EQuantityError
        | Some fw => construct_in s dm (ru_cls u) (qmul (fst fw) (qmul k a)) (snd fw)
        end
  | _, _, _ => Err EOther
  end.
