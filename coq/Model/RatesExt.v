(* Model/RatesExt.v — the argument handling of ExchangeRate.__init__ in front
   of Model.Rates.mk_rate (which works on exact rationals and currency ids):
   currencies may be Currency objects, registered codes, unknown codes or
   objects of another type; unit multiple and term amount may be things that
   cannot be converted to a number.  Executable model, no proofs.

   Order of the tests in the code (money/__init__.py, ExchangeRate.__init__):
     unit currency  (TypeError for a non-string non-Currency, ValueError from
                     Money.get_unit_by_symbol for an unknown code)
     term currency  (same)
     identity of the two currencies                      ValueError
     Decimal(unit_multiple)        ValueError (bad string, non-decimal
                                   fraction) / TypeError (other types)
     integral, >= 1                                      ValueError
     Fraction(term_amount) for a non-Decimal amount      ValueError / TypeError
     term amount >= 0.000001                             ValueError *)
From QV Require Export Model.Rates.
Open Scope Z_scope.

Inductive cur_in := CCur (id : N) | CUnknownCode | CNotCurrency.
Inductive num_in := NNum (q : Q) | NBadValue | NBadType.

Definition mk_rate_raw (dm : mode) (cu : cur_in) (mi : num_in) (ct : cur_in) (ai : num_in)
  : res rate :=
  match cu with
  | CNotCurrency => Err ETypeError
  | CUnknownCode => Err EValueError
  | CCur u =>
    match ct with
    | CNotCurrency => Err ETypeError
    | CUnknownCode => Err EValueError
    | CCur t =>
      if N.eqb u t then Err EValueError else
      match mi with
      | NBadValue => Err EValueError
      | NBadType => Err ETypeError
      | NNum m =>
        if negb (is_integral m) then Err EValueError else
        if qltb m 1 then Err EValueError else
        match ai with
        | NBadValue => Err EValueError
        | NBadType => Err ETypeError
        | NNum a => mk_rate dm u m t a
        end
      end
    end
  end.
