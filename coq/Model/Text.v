(* Model/Text.v — text form of quantities: str / format / construction from
   numbers and from strings.  Executable, no proofs.

   Mirrors src/quantity/__init__.py: Quantity.__new__ (all branches),
   Quantity.__str__, Quantity.__format__ (field substitution only),
   Unit.__str__, _unit_from_symbol.

   Strings are lists of Unicode code points.  The numeric printer and parser
   of the dependency (str(Decimal) / str(Fraction); Decimal(s) first, then
   Fraction(s)) are PARAMETERS of the functions below:
     show_num  : Q -> str
     parse_num : str -> res Q     Ok a         the rational the text denotes
                                  Err e        the exception that left the
                                               second parser (Fraction(s))
   Quantity.__new__ catches TypeError / ValueError of both parsers and, since
   repo commit 046398b, ZeroDivisionError of the Fraction fallback
   (Fraction('1/0')) and turns them into QuantityError; any other exception of
   the parser passes through unchanged.  (decimalfp's Decimal(s) never raises
   ZeroDivisionError, so one outcome per text suffices.) *)
From QV Require Export Model.Num Model.Rounding Gen.RoundingImpl Model.Quantity.
Open Scope N_scope.

Definition str := list N.

Fixpoint str_eqb (a b : str) : bool :=
  match a, b with
  | [], [] => true
  | x :: r, y :: s => N.eqb x y && str_eqb r s
  | _, _ => false
  end.

(* ---- Python's str.isspace per code point (= what lstrip()/strip() without
   argument remove); CPython 3.12 _PyUnicode_IsWhitespace: White_Space
   property or bidirectional class WS/B/S *)
Definition is_space (c : N) : bool :=
  ((9 <=? c) && (c <=? 13)) || ((28 <=? c) && (c <=? 32)) ||
  (c =? 133) || (c =? 160) || (c =? 5760) ||
  ((8192 <=? c) && (c <=? 8202)) ||
  (c =? 8232) || (c =? 8233) || (c =? 8239) || (c =? 8287) || (c =? 12288).

Definition blank : N := 32.

Fixpoint lstrip (s : str) : str :=
  match s with
  | [] => []
  | c :: r => if is_space c then lstrip r else s
  end.

Definition rstrip (s : str) : str := rev (lstrip (rev s)).
Definition strip (s : str) : str := rstrip (lstrip s).

(* s.split(' ', 1): cut at the FIRST U+0020 only; no blank -> one part *)
Fixpoint split_first_blank (s : str) : str * option str :=
  match s with
  | [] => ([], None)
  | c :: r => if c =? blank then ([], Some r)
              else let (a, b) := split_first_blank r in (c :: a, b)
  end.

(* ---- directory of symbols (_SYMBOL_UNIT_MAP) over unit views ---- *)
Definition directory := list (str * unit).

Fixpoint lookup_sym (d : directory) (s : str) : option unit :=
  match d with
  | [] => None
  | (t, u) :: r => if str_eqb t s then Some u else lookup_sym r s
  end.

(* unit.symbol *)
Fixpoint symbol_of (d : directory) (u : unit) : option str :=
  match d with
  | [] => None
  | (t, v) :: r => if same_unit v u then Some t else symbol_of r u
  end.

Definition sym_or_empty (d : directory) (u : unit) : str :=
  match symbol_of d u with Some s => s | None => [] end.

(* ---- str / format ---- *)
Section Printer.
Variable show_num : Q -> str.

(* Quantity.__str__ : f"{self.amount} {self.unit}" *)
Definition qty_str (d : directory) (q : qty) : str :=
  show_num (q_amt q) ++ [blank] ++ sym_or_empty d (q_unit q).

(* a format spec after str.format's field parsing, restricted to plain fields
   '{a}' / '{u}' and literal text (no conversion, no nested number format) *)
Inductive piece := PLit (s : str) | PAmount | PUnit.

Definition dflt_format_spec : list piece := [PAmount; PLit [blank]; PUnit].

Definition render (d : directory) (q : qty) (p : piece) : str :=
  match p with
  | PLit s => s
  | PAmount => show_num (q_amt q)
  | PUnit => sym_or_empty d (q_unit q)
  end.

(* Quantity.__format__: an empty spec selects dflt_format_spec *)
Definition qty_format (d : directory) (spec : list piece) (q : qty) : str :=
  let sp := match spec with [] => dflt_format_spec | _ => spec end in
  concat (map (render d q) sp).
End Printer.

(* ---- construction ---- *)

(* the class the constructor is called on *)
Record caller := mkCaller {
  c_cls : option N;          (* None: the generic factory `Quantity` *)
  c_ref : option unit        (* cls.ref_unit *)
}.
Definition generic : caller := mkCaller None None.

(* the `unit` argument: absent, a Unit, something that is not a Unit *)
Inductive uarg := UNone | UUnit (u : unit) | UBad.

(* the part of __new__ after the amount is known: default unit, class
   dispatch / check, quantisation (mk_qty) *)
Definition finish (dm : mode) (c : caller) (a : Q) (ua : uarg) : res qty :=
  match (match ua with
         | UNone => match c_ref c with
                    | Some r => Ok r
                    | None => Err EQuantityError        (* "A unit must be given." *)
                    end
         | UUnit u => Ok u
         | UBad => Err ETypeError
         end) with
  | Err e => Err e
  | Ok u =>
    match c_cls c with
    | None => Ok (mk_qty dm a u)                        (* cls = unit.qty_cls *)
    | Some k => if N.eqb k (u_cls u) then Ok (mk_qty dm a u)
                else Err EQuantityError                 (* not a 'cls' unit *)
    end
  end.

(* the `amount` argument when it is not a string *)
Inductive numarg :=
  | NFinite (a : Q)      (* int / bool / Fraction / Decimal / decimal.Decimal /
                            finite float: its exact rational value *)
  | NInf                 (* float +-inf: OverflowError of as_integer_ratio *)
  | NNan                 (* float nan: ValueError (Decimal, then Fraction) *)
  | NOther.              (* bytes, None, ...: TypeError *)

Definition mk_from_number (dm : mode) (c : caller) (n : numarg) (ua : uarg) : res qty :=
  match n with
  | NFinite a => finish dm c a ua
  | NInf => Err EOther
  | NNan => Err EValueError
  | NOther => Err ETypeError
  end.

Section Parser.
Variable parse_num : str -> res Q.

(* Quantity.__new__(cls, amount: str, unit) *)
Definition parse_qty (d : directory) (ce : convenv) (dm : mode)
           (c : caller) (ua : uarg) (text : str) : res qty :=
  let (s_amount, rest) := split_first_blank (lstrip text) in
  match parse_num s_amount with
  | Err ETypeError | Err EValueError | Err EZeroDivision =>
      Err EQuantityError                                     (* "Can't convert ..." *)
  | Err e => Err e
  | Ok a =>
    match rest with
    | None => finish dm c a ua
    | Some r =>
      match lookup_sym d (strip r) with
      | None => Err EQuantityError                           (* "Unknown symbol" *)
      | Some us =>
        match ua with
        | UNone => finish dm c a (UUnit us)
        | UUnit u =>
            if same_unit u us then finish dm c a ua
            else (* unit_from_sym.qty_cls(amnt, unit_from_sym).convert(unit):
                    the called class is not consulted on this path *)
                 convert ce dm (mk_qty dm a us) u
        | UBad => Err ETypeError      (* convert: "Can't compare a unit to ..." *)
        end
      end
    end
  end.
End Parser.
