(* Model/Dim.v — the group G = Q* x Z^(base elements) in which terms, units and
   quantity classes are interpreted.  Executable, no proofs (Proofs/DimProofs.v).

   A dimension vector maps base-element ids to integer exponents.  It is kept
   as an association list; the canonical representation has strictly
   increasing ids and no zero exponent, so that equal vectors are equal
   lists (DimProofs.dv_ext). *)
From QV Require Export Model.Num.
Open Scope Z_scope.

Definition dvec := list (N * Z).

Definition dv_one : dvec := [].

(* exponent of base element i; 0 when absent *)
Fixpoint dv_get (v : dvec) (i : N) : Z :=
  match v with
  | [] => 0
  | (j, e) :: r => if N.eqb i j then e else dv_get r i
  end.

(* canonical from lower bound lo: ids strictly increasing and >= lo, no zero *)
Fixpoint dv_wf_from (lo : N) (v : dvec) : bool :=
  match v with
  | [] => true
  | (j, e) :: r => N.leb lo j && negb (e =? 0) && dv_wf_from (N.succ j) r
  end.

Definition dv_wf (v : dvec) : bool := dv_wf_from 0%N v.

(* multiply a canonical vector by i^e *)
Fixpoint dv_ins (i : N) (e : Z) (v : dvec) : dvec :=
  if e =? 0 then v else
  match v with
  | [] => [(i, e)]
  | (j, f) :: r =>
      match N.compare i j with
      | Lt => (i, e) :: v
      | Eq => if e + f =? 0 then r else (i, e + f) :: r
      | Gt => (j, f) :: dv_ins i e r
      end
  end.

(* product: exponents add, zeros are dropped.  The second argument has to be
   canonical for the result to be canonical; the first may be ANY list (its
   entries are multiplied in one by one), on canonical arguments this is the
   merge of the two vectors. *)
Fixpoint dv_mul (a b : dvec) : dvec :=
  match a with
  | [] => b
  | (i, e) :: a' => dv_ins i e (dv_mul a' b)
  end.

(* k-th power: exponents * k *)
Definition dv_scale (k : Z) (v : dvec) : dvec :=
  if k =? 0 then [] else map (fun p => (fst p, k * snd p)) v.

Definition dv_inv (v : dvec) : dvec := dv_scale (-1) v.

Definition dv_single (i : N) (e : Z) : dvec :=
  if e =? 0 then [] else [(i, e)].

Fixpoint dv_eqb (a b : dvec) : bool :=
  match a, b with
  | [], [] => true
  | (i, e) :: a', (j, f) :: b' => N.eqb i j && (e =? f) && dv_eqb a' b'
  | _, _ => false
  end.

(* canonicalises ANY list of (id, exponent) pairs *)
Definition dv_of_list (l : list (N * Z)) : dvec :=
  fold_right (fun p acc => dv_mul (dv_single (fst p) (snd p)) acc) dv_one l.

(* ---- the group G: non-zero rational factor x dimension vector ---- *)
Record nform := mkNf { nf_num : Q; nf_dim : dvec }.

Definition nf_one : nform := mkNf 1 dv_one.

Definition nf_mul (x y : nform) : nform :=
  mkNf (qmul (nf_num x) (nf_num y)) (dv_mul (nf_dim x) (nf_dim y)).

Definition nf_inv (x : nform) : nform :=
  mkNf (Qred (Qinv (nf_num x))) (dv_inv (nf_dim x)).

Definition nf_pow (x : nform) (k : Z) : nform :=
  mkNf (qpow (nf_num x) k) (dv_scale k (nf_dim x)).

Definition nf_scale (q : Q) (x : nform) : nform :=
  mkNf (qmul q (nf_num x)) (nf_dim x).

Definition nf_eqb (x y : nform) : bool :=
  Qeq_bool (nf_num x) (nf_num y) && dv_eqb (nf_dim x) (nf_dim y).

(* equality in G: numeric parts as rationals, dimension vectors as lists
   (= as functions, for canonical vectors) *)
Definition nf_eq (x y : nform) : Prop :=
  nf_num x == nf_num y /\ nf_dim x = nf_dim y.

Definition nf_wf (x : nform) : Prop :=
  ~ nf_num x == 0 /\ dv_wf (nf_dim x) = true.
