(* Model/Term.v — executable model of /repo/src/quantity/term.py (class Term and
   its helpers), generic in the element type like the original: an element is
   an id (N) whose data — norm_sort_key, is_base_elem, str, normalized
   definition, conversion class and scale — is looked up in an environment.
   No proofs here (Proofs/C07Proofs.v).

   Mirrors the code PATH BY PATH; the quirks are kept:
   * 1-item path only filters (a numeric keeps its exponent);
   * 2-item paths: numeric+element keeps the numeric exponent unfolded,
     element+numeric is swapped, a convertible pair gives
     (conv ** exp2, 1), (elem1, exp1 + exp2); two numerics whose product is 1
     fall through to the general path — with a consumed iterator when the
     input was an iterator;
   * _filter_items drops items with exponent 0 and numerics equal to 1
     whatever their exponent;
   * general path: numerics key -1, groups in order of first occurrence
     (keep_item_order) or of the sort key, merge scan in accumulation order,
     zero exponents dropped after the scan, secondary order by str(elem) only
     when not keep_item_order, numeric factor emitted only when != 1;
   * Term.__init__ marks a single (numeric <> 1, 1) item and a single base
     element item with exponent <> 0 as already normalized;
   * normalized() returns self when the reduced items compare equal (==, i.e.
     units by class+scale) to the own items. *)
From QV Require Export Model.Num Model.Dim.
Open Scope Z_scope.

Inductive elem := Num (q : Q) | El (id : N).
Definition item := (elem * Z)%type.

Record elem_info := mkInfo {
  e_key : positive;        (* norm_sort_key(); > 0: the class `Quantity` itself (id 0) is no element *)
  e_base : bool;           (* is_base_elem() *)
  e_name : list N;         (* str(elem), code points *)
  e_nf : list item;        (* items of elem.normalized_definition *)
  e_cls : N;               (* conversion class (Unit.qty_cls; one class per class element) *)
  e_scale : option Q       (* Some scale iff the class has a reference unit; None for class elements *)
}.
Definition env := N -> elem_info.

Definition is_num (x : elem) : bool := match x with Num _ => true | El _ => false end.

Section Term.
Variable E : env.

(* elem2._get_factor(elem1): None covers "returns None" and "raises TypeError" *)
Definition factor (a b : N) : option Q :=
  if N.eqb (e_cls (E a)) (e_cls (E b)) then
    match e_scale (E a), e_scale (E b) with
    | Some x, Some y => Some (qdiv x y)
    | _, _ => None
    end
  else None.

Definition same_elem (x y : elem) : bool :=
  match x, y with El a, El b => N.eqb a b | _, _ => false end.

Definition factor_elem (y x : elem) : option Q :=
  match y, x with El b, El a => factor b a | _, _ => None end.

(* Python == on elements: numbers by value, units by class and scale (identity
   when the class has no reference unit), classes by identity *)
Definition elem_pyeq (x y : elem) : bool :=
  match x, y with
  | Num p, Num q => Qeq_bool p q
  | El a, El b =>
      N.eqb a b ||
      (N.eqb (e_cls (E a)) (e_cls (E b)) &&
       match e_scale (E a), e_scale (E b) with
       | Some s, Some t => Qeq_bool s t
       | _, _ => false
       end)
  | _, _ => false
  end.

Definition item_pyeq (a b : item) : bool :=
  elem_pyeq (fst a) (fst b) && (snd a =? snd b).

Fixpoint items_pyeq (a b : list item) : bool :=
  match a, b with
  | [], [] => true
  | x :: r, y :: s => item_pyeq x y && items_pyeq r s
  | _, _ => false
  end.

(* _pow: exact rational power *)
Definition pow_exact (q : Q) (e : Z) : Q := qpow q e.

(* elem != 1 *)
Definition elem_is_one (x : elem) : bool :=
  match x with Num q => Qeq_bool q 1 | El _ => false end.

Definition keep_item (it : item) : bool :=
  negb (snd it =? 0) && negb (elem_is_one (fst it)).

Definition filter_items (l : list item) : list item := filter keep_item l.

(* Term.norm_sort_key *)
Definition nsk (x : elem) : Z :=
  match x with Num _ => -1 | El a => Zpos (e_key (E a)) end.

(* ---- general path ---- *)
Fixpoint zassoc (k : Z) (m : list (Z * Z)) : option Z :=
  match m with
  | [] => None
  | (k', v) :: r => if k =? k' then Some v else zassoc k r
  end.

(* key2_first_idx_map.setdefault(norm_sort_key(elem), idx + 1) *)
Fixpoint first_idx_keys (m : list (Z * Z)) (idx : Z) (l : list item) : list (Z * item) :=
  match l with
  | [] => []
  | it :: r =>
      let k := nsk (fst it) in
      match zassoc k m with
      | Some v => (v, it) :: first_idx_keys m (idx + 1) r
      | None => (idx + 1, it) :: first_idx_keys ((k, idx + 1) :: m) (idx + 1) r
      end
  end.

Definition sort_keys (l : list item) : list (Z * item) :=
  map (fun it => (nsk (fst it), it)) l.

(* sorted(..., key): stable insertion sort *)
Fixpoint kinsert (x : Z * item) (l : list (Z * item)) : list (Z * item) :=
  match l with
  | [] => [x]
  | y :: r => if fst y <? fst x then y :: kinsert x r else x :: l
  end.
Definition ksort (l : list (Z * item)) : list (Z * item) := fold_right kinsert [] l.

(* itertools.groupby *)
Fixpoint kgroup (l : list (Z * item)) : list (Z * list item) :=
  match l with
  | [] => []
  | (k, it) :: r =>
      match kgroup r with
      | (k', g) :: gs => if k =? k' then (k, it :: g) :: gs
                         else (k, [it]) :: (k', g) :: gs
      | [] => [(k, [it])]
      end
  end.

(* the inner loop over accum_items: returns (conv ** exp2 or 1, new accum) *)
Fixpoint merge_into (acc : list item) (it : item) : Q * list item :=
  match acc with
  | [] => (1%Q, [it])
  | (x1, e1) :: rest =>
      if same_elem x1 (fst it) then (1%Q, (x1, e1 + snd it) :: rest)
      else match factor_elem (fst it) x1 with
           | Some c => (qpow c (snd it), (x1, e1 + snd it) :: rest)
           | None => let r := merge_into rest it in (fst r, (x1, e1) :: snd r)
           end
  end.

Definition scan_step (st : Q * list item) (it : item) : Q * list item :=
  let r := merge_into (snd st) it in (qmul (fst st) (fst r), snd r).

Definition scan_group (g : list item) : Q * list item :=
  match g with
  | [] => (1%Q, [])
  | it0 :: r => fold_left scan_step r (1%Q, [it0])
  end.

(* accum_items.sort(key=lambda item: str(item[0])): stable, code-point order *)
Fixpoint name_ltb (a b : list N) : bool :=
  match a, b with
  | _, [] => false
  | [], _ :: _ => true
  | x :: r, y :: s => if N.ltb x y then true else if N.eqb x y then name_ltb r s else false
  end.

Definition elem_name (x : elem) : list N :=
  match x with El a => e_name (E a) | Num _ => [] end.

Fixpoint ninsert (x : item) (l : list item) : list item :=
  match l with
  | [] => [x]
  | y :: r => if name_ltb (elem_name (fst y)) (elem_name (fst x))
              then y :: ninsert x r else x :: l
  end.
Definition nsort (l : list item) : list item := fold_right ninsert [] l.

Definition nonzero_exp (it : item) : bool := negb (snd it =? 0).

Definition pow_item (it : item) : Q :=
  match fst it with Num q => pow_exact q (snd it) | El _ => 1%Q end.

Definition group_step (keep : bool) (st : Q * list item) (kg : Z * list item)
  : Q * list item :=
  if 0 <? fst kg then
    let sc := scan_group (snd kg) in
    let acc1 := filter nonzero_exp (snd sc) in
    let acc2 := if keep then acc1 else nsort acc1 in
    (qmul (fst st) (fst sc), snd st ++ acc2)
  else
    (fold_left (fun n it => qmul n (pow_item it)) (snd kg) (fst st), snd st).

Definition assign_keys (keep : bool) (l : list item) : list (Z * item) :=
  if keep then first_idx_keys [(-1, -1); (0, 0)] 0 l else sort_keys l.

Definition general (keep : bool) (l : list item) : list item :=
  let groups := kgroup (ksort (assign_keys keep l)) in
  let st := fold_left (group_step keep) groups (1%Q, []) in
  if negb (Qeq_bool (fst st) 1) then (Num (fst st), 1) :: snd st else snd st.

(* sorted(two items, key=norm_sort_key) *)
Definition sort2 (a b : item) : list item :=
  if nsk (fst b) <? nsk (fst a) then [b; a] else [a; b].

(* Term._reduce_items(items, n_items, keep_item_order);
   lazy = the input is an iterator (chain / generator), not a tuple *)
Definition reduce_items (lazy : bool) (n : option N) (keep : bool) (l : list item)
  : list item :=
  match n with
  | Some 1%N => filter_items l
  | Some 2%N =>
      match l with
      | [(x1, e1); (x2, e2)] =>
          match x1, x2 with
          | Num _, El _ => filter_items [(x1, e1); (x2, e2)]
          | El a, El b =>
              if N.eqb a b then
                (if e1 + e2 =? 0 then [] else [(El a, e1 + e2)])
              else
                match factor b a with
                | Some c => filter_items [(Num (qpow c e2), 1); (El a, e1 + e2)]
                | None => if keep then filter_items [(x1, e1); (x2, e2)]
                          else filter_items (sort2 (x1, e1) (x2, e2))
                end
          | El _, Num _ => filter_items [(x2, e2); (x1, e1)]
          | Num p, Num q =>
              let num := qmul (pow_exact p e1) (pow_exact q e2) in
              if negb (Qeq_bool num 1) then [(Num num, 1)]
              else general keep (if lazy then [] else l)
          end
      | _ => general keep l     (* the code raises ValueError; callers pass the true length *)
      end
  | _ => general keep l
  end.

(* ---- class Term: a term is its item tuple ---- *)
Definition term := list item.

Definition is_nil {A} (l : list A) : bool := match l with [] => true | _ => false end.

(* Term.__init__(items, reduce_items); sized = isinstance(items, Sized) *)
Definition mk_term (sized reduce : bool) (l : list item) : term :=
  if reduce && (negb sized || negb (is_nil l)) then
    reduce_items (negb sized)
                 (if sized then Some (N.of_nat (length l)) else None) true l
  else l.

(* the "optimize a common case" flag set by __init__: _normalized = self *)
Definition shortcut (t : term) : bool :=
  match t with
  | [(Num q, e)] => (e =? 1) && negb (Qeq_bool q 1)
  | [(El a, e)] => negb (e =? 0) && e_base (E a)
  | _ => false
  end.

(* _iter_normalized with Term.normalize_elem *)
Definition expand_item (it : item) : list item :=
  match fst it with
  | Num _ => [it]
  | El a => if e_base (E a) then [it]
            else map (fun b => (fst b, snd b * snd it)) (e_nf (E a))
  end.
Definition iter_normalized (t : term) : list item := flat_map expand_item t.

Definition normalized (t : term) : term :=
  if shortcut t then t else
  let r := reduce_items true None false (iter_normalized t) in
  if items_pyeq r t then t else r.

Definition num_elem (t : term) : option Q :=
  match t with
  | (Num q, e) :: _ => Some (pow_exact q e)
  | _ => None
  end.

(* split(dflt_num): Term(self[1:]) re-reduces the tail *)
Definition split (dflt : Q) (t : term) : Q * term :=
  match num_elem t with
  | None => (dflt, t)
  | Some n => (n, mk_term true true (tl t))
  end.

Definition recip_items (l : list item) : list item := map (fun it => (fst it, - snd it)) l.

Definition reciprocal (t : term) : term := recip_items t.

Definition nlen (l : list item) : N := N.of_nat (length l).

Definition mul (s t : term) : term :=
  reduce_items true (Some (nlen s + nlen t)%N) true (s ++ t).
Definition mul_num (s : term) (q : Q) : term :=
  reduce_items true (Some (nlen s + 1)%N) true ((Num q, 1) :: s).
Definition div (s t : term) : term :=
  reduce_items true (Some (nlen s + nlen t)%N) true (s ++ recip_items t).
Definition div_num (s : term) (q : Q) : term :=
  reduce_items true (Some (nlen s + 1)%N) true ((Num q, -1) :: s).
Definition rdiv_num (q : Q) (s : term) : term :=
  reduce_items true (Some (nlen s + 1)%N) true ((Num q, 1) :: recip_items s).
(* __pow__: generator => n_items None => general path, keep order *)
Definition pow (s : term) (k : Z) : term :=
  mk_term false true (map (fun it => (fst it, k * snd it)) s).

Definition term_eqb (s t : term) : bool := items_pyeq (normalized s) (normalized t).

(* what __hash__ hashes: the items of the normal form; numbers hash by value *)
Definition hash_item (it : item) : item :=
  match fst it with Num q => (Num (Qred q), snd it) | El _ => it end.
Definition hash_key (t : term) : list item := map hash_item (normalized t).

(* ---- denotation in G (Model/Dim.v) ---- *)
(* a normalized definition: every element stands for itself *)
Definition den0_item (it : item) : nform :=
  match fst it with
  | Num q => mkNf (qpow q (snd it)) dv_one
  | El a => mkNf 1%Q (dv_single a (snd it))
  end.
Definition den0 (l : list item) : nform :=
  fold_right (fun it g => nf_mul (den0_item it) g) nf_one l.

Definition den_elem (a : N) : nform := den0 (e_nf (E a)).

Definition den_item (it : item) : nform :=
  match fst it with
  | Num q => mkNf (qpow q (snd it)) dv_one
  | El a => nf_pow (den_elem a) (snd it)
  end.
Definition den (l : list item) : nform :=
  fold_right (fun it g => nf_mul (den_item it) g) nf_one l.

(* ---- well-formedness of environments and item lists (decidable) ---- *)
Definition in_dom (dom : list N) (a : N) : bool := existsb (N.eqb a) dom.

(* numeric elements are non-zero (the group is Q* x Z^B) *)
Definition item_ok (it : item) : bool :=
  match fst it with Num q => negb (Qeq_bool q 0) | El _ => true end.
Definition items_ok (l : list item) : bool := forallb item_ok l.

Definition items_in (dom : list N) (l : list item) : bool :=
  forallb (fun it => match fst it with Num _ => true | El a => in_dom dom a end) l.

Definition name_eqb (a b : list N) : bool := negb (name_ltb a b) && negb (name_ltb b a).

(* strict canonical order of elements: (sort key, name) *)
Definition elem_ltb (x y : elem) : bool :=
  (nsk x <? nsk y) || ((nsk x =? nsk y) && name_ltb (elem_name x) (elem_name y)).

Fixpoint sorted_from (x : elem) (l : list item) : bool :=
  match l with
  | [] => true
  | it :: r => elem_ltb x (fst it) && sorted_from (fst it) r
  end.
Definition sorted_elems (l : list item) : bool :=
  match l with [] => true | it :: r => sorted_from (fst it) r end.

Definition base_elem_item (it : item) : bool :=
  match fst it with Num _ => false | El a => e_base (E a) end.

(* elements only, all base, exponent <> 0, strictly increasing in (key, name) *)
Definition canon_elems (l : list item) : bool :=
  forallb (fun it => base_elem_item it && nonzero_exp it) l && sorted_elems l.

(* the normal form: at most one numeric item, first, exponent 1, value <> 1
   (and <> 0), then canonical elements *)
Definition canonical (l : list item) : bool :=
  match l with
  | (Num q, e) :: r => (e =? 1) && negb (Qeq_bool q 1) && negb (Qeq_bool q 0) && canon_elems r
  | _ => canon_elems l
  end.

Definition elem_ok (dom : list N) (a : N) : bool :=
  let i := E a in
  (* base elements are their own normal form *)
  (if e_base i then
     match e_nf i with
     | [(El b, e)] => N.eqb a b && (e =? 1)
     | _ => false
     end
   else true)
  (* normalized definitions are normal, over elements of dom *)
  && canonical (e_nf i) && items_in dom (e_nf i)
  (* scales are non-zero *)
  && match e_scale i with Some s => negb (Qeq_bool s 0) | None => true end
  (* str(elem) does not start with NUL (reserved for ids outside the table) *)
  && match e_name i with 0%N :: _ => false | _ => true end.

Definition pair_ok (a b : N) : bool :=
  let i := E a in let j := E b in
  (* _get_factor is sound for the denotation: same class, both scaled =>
     same base vector and numeric factors in the ratio of the scales *)
  (if N.eqb (e_cls i) (e_cls j) then
     match e_scale i, e_scale j with
     | Some s, Some t =>
         dv_eqb (nf_dim (den_elem a)) (nf_dim (den_elem b)) &&
         Qeq_bool (nf_num (den_elem a) * t) (nf_num (den_elem b) * s)
     | _, _ => true
     end
   else true)
  (* distinct non-convertible elements of one sort-key group have distinct names *)
  && (if negb (N.eqb a b) && Pos.eqb (e_key i) (e_key j) then
        match factor a b with
        | None => negb (name_eqb (e_name i) (e_name j))
        | Some _ => true
        end
      else true)
  (* an element that compares equal (==) to a base element is that element *)
  && (if (e_base i || e_base j) && elem_pyeq (El a) (El b) then N.eqb a b else true).

Definition env_ok (dom : list N) : bool :=
  forallb (elem_ok dom) dom &&
  forallb (fun a => forallb (pair_ok a) dom) dom.

End Term.

(* ---- environments given by a finite table ---- *)
(* ids outside the table are fresh base elements without scale whose name
   starts with NUL *)
Definition default_info (a : N) : elem_info :=
  mkInfo 1 true [0%N; a] [(El a, 1)] a None.

Fixpoint table_find (tbl : list (N * elem_info)) (a : N) : option elem_info :=
  match tbl with
  | [] => None
  | (b, i) :: r => if N.eqb a b then Some i else table_find r a
  end.

Definition env_of_table (tbl : list (N * elem_info)) : env :=
  fun a => match table_find tbl a with Some i => i | None => default_info a end.

Definition table_dom (tbl : list (N * elem_info)) : list N := map fst tbl.

Definition table_ok (tbl : list (N * elem_info)) : bool :=
  env_ok (env_of_table tbl) (table_dom tbl).
