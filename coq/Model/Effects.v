(* Model/Effects.v — a small language of control flow and effects, into which
   translate/effects.py maps the bodies of the declaring methods, and the
   check "every exception is raised before the first write to a directory".
   Executable, no proofs. *)
From Coq Require Import List Bool.
Import ListNotations.

Inductive stmt :=
  | Raise                       (* raise ... *)
  | Guard                       (* an evaluation that may raise (assert, a call, a look-up) *)
  | Write                       (* a write to a directory / registry / converter table *)
  | Return                      (* return ... *)
  | If (a b : list stmt)        (* a branch (also: try body / handler) *)
  | Loop (body : list stmt)     (* zero or more iterations *)
  | Call (body : list stmt).    (* a call of another translated method (its body inlined) *)

(* abstract state: (some path reaches this point without a write so far,
                    some path reaches this point after a write) *)
Definition ast := (bool * bool)%type.
Definition join (x y : ast) : ast := (fst x || fst y, snd x || snd y).
Definition dead : ast := (false, false).

(* result of analysing a statement: states that continue, states that have returned *)
Definition ares := (ast * ast)%type.

Section Seq.
  Variable f : stmt -> ast -> option ares.
  Fixpoint seq (p : list stmt) (st : ast) : option ares :=
    match p with
    | [] => Some (st, dead)
    | x :: r => match f x st with
                | Some (c, rt) => match seq r c with
                                  | Some (c', rt') => Some (c', join rt rt')
                                  | None => None
                                  end
                | None => None
                end
    end.
End Seq.

Fixpoint wfree_s (s : stmt) : bool :=
  match s with
  | Write => false
  | If a b => forallb wfree_s a && forallb wfree_s b
  | Loop b => forallb wfree_s b
  | Call b => forallb wfree_s b
  | _ => true
  end.

(* None: on some path an exception is (or may be) raised after a write *)
Fixpoint run_s (s : stmt) (st : ast) : option ares :=
  match s with
  | Raise => if snd st then None else Some (dead, dead)
  | Guard => if snd st then None else Some (st, dead)
  | Write => Some ((false, fst st || snd st), dead)
  | Return => Some (dead, st)
  | If a b => match seq run_s a st, seq run_s b st with
              | Some (ca, ra), Some (cb, rb) => Some (join ca cb, join ra rb)
              | _, _ => None
              end
  | Loop b => if forallb wfree_s b
              then match seq run_s b st with
                   | Some (c, r) => Some (join st c, r)
                   | None => None
                   end
              else None            (* writes inside loops are not analysed *)
  | Call b => match seq run_s b st with
              | Some (c, r) => Some (join c r, dead)
              | None => None
              end
  end.

Definition atomic (p : list stmt) : bool :=
  match seq run_s p (true, false) with Some _ => true | None => false end.

(* ---- what a program does: outcome and "has a write happened" ---- *)
Inductive out := Norm | Exc | Ret.

Inductive ex_s : stmt -> bool -> out -> bool -> Prop :=
  | ERaise w : ex_s Raise w Exc w
  | EGuardOk w : ex_s Guard w Norm w
  | EGuardExc w : ex_s Guard w Exc w
  | EWrite w : ex_s Write w Norm true
  | EReturn w : ex_s Return w Ret w
  | EIfA a b w o w' : ex_l a w o w' -> ex_s (If a b) w o w'
  | EIfB a b w o w' : ex_l b w o w' -> ex_s (If a b) w o w'
  | ELoop0 b w : ex_s (Loop b) w Norm w
  | ELoopS b w w1 o w' : ex_l b w Norm w1 -> ex_s (Loop b) w1 o w' -> ex_s (Loop b) w o w'
  | ELoopStop b w o w' : ex_l b w o w' -> o <> Norm -> ex_s (Loop b) w o w'
  | ECallExc b w w' : ex_l b w Exc w' -> ex_s (Call b) w Exc w'
  | ECallOk b w o w' : ex_l b w o w' -> o <> Exc -> ex_s (Call b) w Norm w'
with ex_l : list stmt -> bool -> out -> bool -> Prop :=
  | ENil w : ex_l [] w Norm w
  | EConsN s r w w1 o w' : ex_s s w Norm w1 -> ex_l r w1 o w' -> ex_l (s :: r) w o w'
  | EConsStop s r w o w' : ex_s s w o w' -> o <> Norm -> ex_l (s :: r) w o w'.
