(* Model/Registry.v — the directory of quantity types and units, and the
   operations that resolve products / quotients / powers of units against it.
   Executable model, no proofs.

   Mirrors src/quantity/__init__.py (working tree after the repairs recorded
   in /verif/known_findings.json): QuantityMeta.__new__ / __init__ /
   _make_unit / _make_ref_unit / new_unit / derive_unit_from,
   MoneyMeta.new_unit, Unit.__mul__ / __truediv__ / _pow / __pow__ /
   __rtruediv__, Quantity.__mul__ / __truediv__ / __rtruediv__ / __pow__,
   _amnt_and_unit_from_term, _UNIT_OP_CACHE, _TERM_UNIT_MAP, _SYMBOL_UNIT_MAP,
   QuantityMeta._registry; registry.py.

   Abstraction: a unit's (and a class') normalised definition is represented by
   its DENOTATION in the group G of Model/Dim.v — rational factor x exponent
   vector over base units (base classes).  That Term.normalized() computes
   exactly this canonical form is property C07 (Model/Term.v); here it is the
   interface.  Symbols and class names are N ids assigned by the harness
   (0 = the empty string); generated symbols (str of a term) are computed by
   the harness' own formatter and passed in as data. *)
From QV Require Export Model.Num Model.Rounding Model.Quantity Model.Dim.
Open Scope Z_scope.

(* ---- terms as the caller writes them ---- *)
Inductive telem := TNum (q : Q) | TUnit (id : N).
Definition titem := (telem * Z)%type.
Definition uterm := list titem.
Definition cterm := list (N * Z).          (* class ids with exponents *)

Record runit := mkRU {
  ru_id : N;                 (* symbol id = identity of the unit object *)
  ru_cls : N;                (* class it was created for *)
  ru_base : bool;            (* _definition is None *)
  ru_nf : nform;             (* denotation of normalized_definition *)
  ru_equiv : option Q;       (* Unit._equiv *)
  ru_sf : option Q           (* Currency._smallest_fraction *)
}.

Record rcls := mkRC {
  rc_id : N;
  rc_base : bool;            (* no definition *)
  rc_def : cterm;            (* definition as given ([] for a base class) *)
  rc_dim : dvec;             (* normalised definition over base-class ids *)
  rc_ref : option N;         (* reference unit *)
  rc_quantum : option Q;
  rc_units : list N;         (* cls._unit_map, insertion order *)
  rc_money : bool            (* unit class is Currency *)
}.

Inductive opk := KMul | KDiv.
Definition opk_eqb (a b : opk) : bool :=
  match a, b with KMul, KMul | KDiv, KDiv => true | _, _ => false end.

Record state := mkSt {
  st_classes : list rcls;                     (* QuantityMeta._registry, in order *)
  st_units : list runit;                      (* _SYMBOL_UNIT_MAP, in order *)
  st_termmap : list (nform * N);              (* _TERM_UNIT_MAP: first unit per key *)
  st_cache : list ((opk * N * N) * (Q * option N))   (* _UNIT_OP_CACHE *)
}.

(* ---- look-ups ---- *)
Fixpoint find_unit_in (l : list runit) (id : N) : option runit :=
  match l with
  | [] => None
  | u :: r => if N.eqb (ru_id u) id then Some u else find_unit_in r id
  end.
Definition find_unit (s : state) (id : N) : option runit := find_unit_in (st_units s) id.

Fixpoint find_cls_in (l : list rcls) (id : N) : option rcls :=
  match l with
  | [] => None
  | c :: r => if N.eqb (rc_id c) id then Some c else find_cls_in r id
  end.
Definition find_cls (s : state) (id : N) : option rcls := find_cls_in (st_classes s) id.

Fixpoint cls_by_dim_in (l : list rcls) (d : dvec) : option rcls :=
  match l with
  | [] => None
  | c :: r => if dv_eqb (rc_dim c) d then Some c else cls_by_dim_in r d
  end.
Definition cls_by_dim (s : state) (d : dvec) : option rcls := cls_by_dim_in (st_classes s) d.

Fixpoint term_lookup_in (l : list (nform * N)) (k : nform) : option N :=
  match l with
  | [] => None
  | (k', u) :: r => if nf_eqb k' k then Some u else term_lookup_in r k
  end.
Definition term_lookup (s : state) (k : nform) : option N := term_lookup_in (st_termmap s) k.

Fixpoint cache_get_in (l : list ((opk * N * N) * (Q * option N))) (o : opk) (u v : N)
  : option (Q * option N) :=
  match l with
  | [] => None
  | ((o', u', v'), r) :: t =>
      if opk_eqb o o' && N.eqb u u' && N.eqb v v' then Some r else cache_get_in t o u v
  end.
Definition cache_get (s : state) := cache_get_in (st_cache s).

(* ---- denotations ---- *)
Definition base_nf (id : N) : nform := mkNf 1%Q (dv_single id 1).

Definition item_nf (s : state) (it : titem) : option nform :=
  match fst it with
  | TNum q => Some (mkNf (qpow q (snd it)) dv_one)
  | TUnit id => match find_unit s id with
                | Some u => Some (nf_pow (ru_nf u) (snd it))
                | None => None
                end
  end.

Fixpoint term_nf (s : state) (t : uterm) : option nform :=
  match t with
  | [] => Some nf_one
  | it :: r => match item_nf s it, term_nf s r with
               | Some a, Some b => Some (nf_mul a b)
               | _, _ => None
               end
  end.

(* normalised definition of a class term *)
Fixpoint cterm_dim (s : state) (t : cterm) : option dvec :=
  match t with
  | [] => Some dv_one
  | (c, e) :: r => match find_cls s c, cterm_dim s r with
                   | Some k, Some d => Some (dv_mul (dv_scale e (rc_dim k)) d)
                   | _, _ => None
                   end
  end.

(* _iter_ref_units: the term of the reference units, None when a class of the
   definition has none (TypeError caught in __new__) *)
Fixpoint ref_units_nf (s : state) (t : cterm) : option nform :=
  match t with
  | [] => Some nf_one
  | (c, e) :: r =>
      match find_cls s c with
      | Some k => match rc_ref k with
                  | Some ru => match find_unit s ru, ref_units_nf s r with
                               | Some u, Some x => Some (nf_mul (nf_pow (ru_nf u) e) x)
                               | _, _ => None
                               end
                  | None => None
                  end
      | None => None
      end
  end.

(* ---- _amnt_and_unit_from_term on a denotation ----
   exact look-up of the normalised term; else the numeric factor is split off
   and the rest is looked up; an empty rest gives (factor, None) *)
Definition resolve (s : state) (x : nform) : option (Q * option N) :=
  match term_lookup s x with
  | Some w => Some (1%Q, Some w)
  | None =>
      match nf_dim x with
      | [] => Some (Qred (nf_num x), None)
      | _ => match term_lookup s (mkNf 1 (nf_dim x)) with
             | Some w => Some (Qred (nf_num x), Some w)
             | None => None
             end
      end
  end.

(* ---- the unit view of Model/Quantity.v produced by the directory ---- *)
Definition view (s : state) (u : runit) : unit :=
  let c := find_cls s (ru_cls u) in
  let has_ref := match c with Some k => match rc_ref k with Some _ => true | None => false end
                            | None => false end in
  let quantum := match ru_sf u with
                 | Some f => Some f
                 | None => match c with
                           | Some k => match rc_quantum k, ru_equiv u with
                                       | Some q, Some e => Some (qdiv q e)
                                       | _, _ => None
                                       end
                           | None => None
                           end
                 end in
  mkUnit (ru_id u) (ru_cls u) has_ref (ru_equiv u) quantum.

(* ---- directory updates ---- *)
Definition add_unit (s : state) (u : runit) : state :=
  mkSt (map (fun c => if N.eqb (rc_id c) (ru_cls u)
                      then mkRC (rc_id c) (rc_base c) (rc_def c) (rc_dim c) (rc_ref c) (rc_quantum c)
                                (rc_units c ++ [ru_id u]) (rc_money c)
                      else c) (st_classes s))
       (st_units s ++ [u])
       (match term_lookup s (ru_nf u) with
        | Some _ => st_termmap s
        | None => st_termmap s ++ [(ru_nf u, ru_id u)]
        end)
       (st_cache s).

(* QuantityMeta._make_unit for a class that is already registered.
   [has_ref]: the class has a reference unit (only then a scale exists). *)
Definition make_unit (s : state) (c : rcls) (sym : N) (def : option nform) (sf : option Q)
  : res (state * runit) :=
  let equiv := match def, rc_ref c with
               | Some x, Some _ => Some (if qzero (nf_num x) then 1%Q else Qred (nf_num x))
               | _, _ => None
               end in
  if N.eqb sym 0 then Err EAssertion else
  match find_unit s sym with
  | Some _ => Err EValueError
  | None =>
      let u := mkRU sym (rc_id c) (match def with None => true | Some _ => false end)
                    (match def with None => base_nf sym | Some x => x end) equiv sf in
      Ok (add_unit s u, u)
  end.

(* how a new unit is defined *)
Inductive udef :=
  | DNone
  | DQty (a : Q) (u : N)        (* a quantity  a * u  (already constructed by the caller) *)
  | DTerm (t : uterm).

Inductive decl :=
  (* QuantityMeta(name, define_as=…, ref_unit_symbol=…, quantum=…);
     [auto] = str(term of reference units), used when no symbol is given *)
  | DeclClass (id : N) (def : option cterm) (ref_sym : option N) (auto : N)
              (quantum : option Q) (money : bool)
  | NewUnit (cls : N) (sym : N) (d : udef)
  | DeriveUnit (cls : N) (us : list N) (sym : option N) (auto : N)
  | NewCurrency (cls : N) (sym : N) (sf : res Q).   (* sf: outcome of the parameter validation *)

Definition opt_nonempty (o : option N) : option N :=
  match o with Some 0%N => None | x => x end.

(* registration of the class in QuantityMeta._registry (__init__): a taken
   dimension raises ValueError *)
Definition register_cls (s : state) (c : rcls) : state * option err :=
  match cls_by_dim s (rc_dim c) with
  | Some _ => (s, Some EValueError)
  | None => (mkSt (st_classes s ++ [c]) (st_units s) (st_termmap s) (st_cache s), None)
  end.

(* QuantityMeta.__new__ followed by __init__, in the order of their side
   effects: checks of __new__, creation and registration of the reference unit
   (symbol map, term map), then registration of the class.  Returns the
   directory as it is afterwards even when an exception is raised. *)
Definition decl_class (s : state) (id : N) (def : option cterm) (ref_sym : option N)
           (auto : N) (quantum : option Q) (money : bool) : state * option err :=
  let ref_sym := opt_nonempty ref_sym in
  match find_cls s id with
  | Some _ => (s, Some EOther)          (* a class object is always new *)
  | None =>
  match def with
  | Some [] => (s, Some EAssertion)
  | _ =>
  let rdef := match def with Some t => ref_units_nf s t | None => None end in
  let sym := match ref_sym, rdef with
             | Some x, _ => Some x
             | None, Some _ => opt_nonempty (Some auto)
             | None, None => None
             end in
  match quantum, sym with
  | Some _, None => (s, Some EAssertion)
  | _, _ =>
  let dim := match def with
             | Some t => cterm_dim s t
             | None => Some (dv_single id 1)
             end in
  match dim with
  | None => (s, Some EOther)             (* unknown class in the definition *)
  | Some [] => (s, Some EAssertion)      (* the definition reduces to the empty term *)
  | Some d =>
  (* a taken dimension is rejected before any unit is registered *)
  match def, cls_by_dim s d with
  | Some _, Some _ => (s, Some EValueError)
  | _, _ =>
  let base := match def with None => true | Some _ => false end in
  let cdef := match def with None => [] | Some t => t end in
  match sym with
  | None => register_cls s (mkRC id base cdef d None quantum [] money)
  | Some rs =>
      (* _make_ref_unit: scale ONE, definition = term of the reference units *)
      match find_unit s rs with
      | Some _ => (s, Some EValueError)
      | None =>
          let u := mkRU rs id (match rdef with None => true | Some _ => false end)
                        (match rdef with None => base_nf rs | Some x => x end) (Some 1%Q) None in
          let s1 := mkSt (st_classes s) (st_units s ++ [u])
                         (match term_lookup s (ru_nf u) with
                          | Some _ => st_termmap s
                          | None => st_termmap s ++ [(ru_nf u, rs)]
                          end) (st_cache s) in
          register_cls s1 (mkRC id base cdef d (Some rs) quantum [rs] money)
      end
  end end end end end end.

(* the other declarations validate before they write: result or exception *)
Definition lift_res (s : state) (r : res state) : state * option err :=
  match r with Ok s' => (s', None) | Err e => (s, Some e) end.

Definition new_unit (s : state) (dm : mode) (cid sym : N) (d : udef) : res state :=
  match find_cls s cid with
  | None => Err EOther
  | Some c =>
  if N.eqb sym 0 then Err EValueError else
  match d with
  | DNone => bind (make_unit s c sym None None) (fun r => Ok (fst r))
  | DQty a uid =>
      match find_unit s uid with
      | None => Err EOther
      | Some u =>
          if negb (N.eqb (ru_cls u) cid) then Err ETypeError else
          (* the caller's quantity a * u went through the constructor *)
          let a' := q_amt (mk_qty dm a (view s u)) in
          bind (make_unit s c sym (Some (nf_scale a' (ru_nf u))) None) (fun r => Ok (fst r))
      end
  | DTerm t =>
      match term_nf s t with
      | None => Err EOther
      | Some x =>
          match resolve s x with
          | None => Err EValueError
          | Some (_, None) => Err EValueError
          | Some (_, Some w) =>
              match find_unit s w with
              | None => Err EOther
              | Some wu =>
                  if negb (N.eqb (ru_cls wu) cid) then Err EValueError else
                  bind (make_unit s c sym (Some x) None) (fun r => Ok (fst r))
              end
          end
      end
  end end.

(* classes of the units must match the classes of the definition, position by
   position; the definition is the class' ORIGINAL (un-normalised) term *)
Fixpoint derive_items (s : state) (def : cterm) (us : list N) : res uterm :=
  match def, us with
  | [], [] => Ok []
  | (c, e) :: dr, uid :: ur =>
      match find_unit s uid with
      | None => Err EOther
      | Some u =>
          if negb (N.eqb (ru_cls u) c) then Err EValueError else
          bind (derive_items s dr ur) (fun t => Ok ((TUnit uid, e) :: t))
      end
  | _, _ => Err EValueError
  end.

Definition derive_unit (s : state) (cid : N) (us : list N)
           (sym : option N) (auto : N) : res state :=
  match find_cls s cid with
  | None => Err EOther
  | Some c =>
  if rc_base c then Err ETypeError else
  if negb (Nat.eqb (length us) (length (rc_def c))) then Err EValueError else
  bind (derive_items s (rc_def c) us) (fun t =>
  match term_nf s t with
  | None => Err EOther
  | Some x =>
      let sy := match sym with Some x => x | None => auto end in
      match sym with
      | Some 0%N => Err EValueError
      | _ => bind (make_unit s c sy (Some x) None) (fun r => Ok (fst r))
      end
  end)
  end.

Definition new_currency (s : state) (cid sym : N) (sf : res Q) : res state :=
  match find_cls s cid with
  | None => Err EOther
  | Some c =>
      match sf with
      | Err e => Err e                       (* parameters are validated first *)
      | Ok f =>
          if N.eqb sym 0 then Err EValueError else
          bind (make_unit s c sym None (Some f)) (fun r => Ok (fst r))
      end
  end.

(* ---- unit x unit, unit / unit, unit ** n (with the operation cache) ---- *)
Definition cache_add (s : state) (o : opk) (u v : N) (r : Q * option N) : state :=
  mkSt (st_classes s) (st_units s) (st_termmap s) (((o, u, v), r) :: st_cache s).

Definition unit_mul (s : state) (u v : runit) : state * res (Q * option N) :=
  match cache_get s KMul (ru_id u) (ru_id v) with
  | Some r => (s, Ok r)
  | None =>
      match resolve s (nf_mul (ru_nf u) (ru_nf v)) with
      | Some r => (cache_add s KMul (ru_id u) (ru_id v) r, Ok r)
      | None => (s, Err EUndefinedResult)
      end
  end.

Definition unit_div (s : state) (u v : runit) : state * res (Q * option N) :=
  match cache_get s KDiv (ru_id u) (ru_id v) with
  | Some r => (s, Ok r)
  | None =>
      if N.eqb (ru_cls u) (ru_cls v) then
        if N.eqb (ru_id u) (ru_id v) then
          (cache_add s KDiv (ru_id u) (ru_id v) (1%Q, None), Ok (1%Q, None))
        else match ru_equiv u, ru_equiv v with
             | Some a, Some b =>
                 let r := (qdiv a b, None) in
                 (cache_add s KDiv (ru_id u) (ru_id v) r, Ok r)
             | _, _ => (s, Err EUnitConversion)
             end
      else
        match resolve s (nf_mul (ru_nf u) (nf_inv (ru_nf v))) with
        | Some r => (cache_add s KDiv (ru_id u) (ru_id v) r, Ok r)
        | None => (s, Err EUndefinedResult)
        end
  end.

(* Unit._pow: not cached *)
Definition unit_pow (s : state) (u : runit) (k : Z) : res (Q * option N) :=
  match resolve s (nf_pow (ru_nf u) k) with
  | Some r => Ok r
  | None => Err EUndefinedResult
  end.

(* results of the multiplicative operators: a quantity or a plain number *)
Inductive mres := MQty (q : qty) | MNum (k : Q) | MPair (f : Q) (w : option N).

(* amount * unit, or the plain number when the dimensions cancel *)
Definition mk_result (s : state) (dm : mode) (a : Q) (w : option N) : res mres :=
  match w with
  | None => Ok (MNum (Qred a))
  | Some id => match find_unit s id with
               | Some u => Ok (MQty (mk_qty dm a (view s u)))
               | None => Err EOther
               end
  end.

Definition lift (s : state) (dm : mode) (a : Q)
           (r : state * res (Q * option N)) : state * res mres :=
  (fst r, bind (snd r) (fun fw => mk_result s dm (qmul a (fst fw)) (snd fw))).

(* operands of * / ** *)
Inductive mopd := MQ (a : Q) (u : N) | MU (u : N) | MN (k : Q).

Definition with_unit (s : state) (id : N) (f : runit -> state * res mres) : state * res mres :=
  match find_unit s id with Some u => f u | None => (s, Err EOther) end.

(* Quantity.__mul__, Unit.__mul__ and their reflections *)
Definition op_mul (s : state) (dm : mode) (x y : mopd) : state * res mres :=
  match x, y with
  | MQ a u, MQ b v => with_unit s u (fun ru => with_unit s v (fun rv =>
      lift s dm (qmul a b) (unit_mul s ru rv)))
  | MQ a u, MU v => with_unit s u (fun ru => with_unit s v (fun rv =>
      lift s dm a (unit_mul s ru rv)))
  | MU u, MQ b v => with_unit s u (fun ru => with_unit s v (fun rv =>
      lift s dm b (unit_mul s ru rv)))
  | MU u, MU v => with_unit s u (fun ru => with_unit s v (fun rv =>
      let r := unit_mul s ru rv in       (* the pair (factor, unit) itself *)
      (fst r, bind (snd r) (fun fw => Ok (MPair (fst fw) (snd fw))))))
  | MQ a u, MN k | MN k, MQ a u => with_unit s u (fun ru =>
      (s, Ok (MQty (mk_qty dm (qmul a k) (view s ru)))))
  | MU u, MN k | MN k, MU u => with_unit s u (fun ru =>
      (s, Ok (MQty (mk_qty dm k (view s ru)))))
  | MN a, MN b => (s, Ok (MNum (qmul a b)))
  end.

(* Quantity.__truediv__, Unit.__truediv__, __rtruediv__ *)
Definition op_div (s : state) (dm : mode) (ce : convenv) (x y : mopd) : state * res mres :=
  match x, y with
  | MQ a u, MQ b v => with_unit s u (fun ru => with_unit s v (fun rv =>
      if N.eqb (ru_cls ru) (ru_cls rv) then
        (s, match equiv_amount ce (mkQty b (view s rv)) (view s ru) with
            | Err e => Err e
            | Ok None => Err EUnitConversion
            | Ok (Some e) => if qzero e then Err EZeroDivision else Ok (MNum (qdiv a e))
            end)
      else
        (* the units are divided first (and the result cached), then the amounts *)
        let r := unit_div s ru rv in
        match snd r with
        | Err e => (fst r, Err e)
        | Ok fw => if qzero b then (fst r, Err EZeroDivision)
                   else (fst r, mk_result s dm (qmul (qdiv a b) (fst fw)) (snd fw))
        end))
  | MQ a u, MU v => with_unit s u (fun ru => with_unit s v (fun rv =>
      if N.eqb (ru_cls ru) (ru_cls rv) then
        (s, match equiv_amount ce (mkQty a (view s ru)) (view s rv) with
            | Err e => Err e
            | Ok None => Err EUnitConversion
            | Ok (Some e) => Ok (MNum e)
            end)
      else lift s dm a (unit_div s ru rv)))
  | MU u, MQ b v => with_unit s u (fun ru => with_unit s v (fun rv =>
      let r := unit_div s ru rv in
      match snd r with
      | Err e => (fst r, Err e)
      | Ok fw => if qzero b then (fst r, Err EZeroDivision)
                 else (fst r, mk_result s dm (qdiv (fst fw) b) (snd fw))
      end))
  | MU u, MU v => with_unit s u (fun ru => with_unit s v (fun rv =>
      let r := unit_div s ru rv in
      (fst r, bind (snd r) (fun fw => Ok (MPair (fst fw) (snd fw))))))
  | MQ a u, MN k => with_unit s u (fun ru =>
      if qzero k then (s, Err EZeroDivision)
      else (s, Ok (MQty (mk_qty dm (qdiv a k) (view s ru)))))
  | MU u, MN k => with_unit s u (fun ru =>
      if qzero k then (s, Err EZeroDivision)
      else (s, Ok (MQty (mk_qty dm (qdiv 1%Q k) (view s ru)))))
  | MN k, MQ a u => with_unit s u (fun ru =>
      match unit_pow s ru (-1) with
      | Err e => (s, Err e)
      | Ok fw => if qzero a then (s, Err EZeroDivision)
                 else (s, mk_result s dm (qmul (qdiv k a) (fst fw)) (snd fw))
      end)
  | MN k, MU u => with_unit s u (fun ru =>
      (s, bind (unit_pow s ru (-1)) (fun fw => mk_result s dm (qmul k (fst fw)) (snd fw))))
  | MN a, MN b => (s, if qzero b then Err EZeroDivision else Ok (MNum (qdiv a b)))
  end.

(* Quantity.__pow__, Unit.__pow__ *)
Definition op_pow (s : state) (dm : mode) (x : mopd) (k : Z) : res mres :=
  match x with
  | MQ a u =>
      match find_unit s u with
      | None => Err EOther
      | Some ru =>
          if k =? 0 then Ok (MNum 1%Q) else
          if k =? 1 then Ok (MQty (mk_qty dm a (view s ru))) else
          bind (unit_pow s ru k) (fun fw =>
            if qzero a && (k <? 0) then Err EZeroDivision
            else mk_result s dm (qmul (qpow a k) (fst fw)) (snd fw))
      end
  | MU u =>
      match find_unit s u with
      | None => Err EOther
      | Some ru =>
          if k =? 0 then Ok (MNum 1%Q) else
          if k =? 1 then Ok (MQty (mk_qty dm 1%Q (view s ru))) else
          bind (unit_pow s ru k) (fun fw => mk_result s dm (fst fw) (snd fw))
      end
  | MN a => Ok (MNum (qpow a k))
  end.

(* ---- one step of a declaration history ---- *)
Definition step (dm : mode) (s : state) (d : decl) : state * option err :=
  match d with
  | DeclClass id def ref_sym auto quantum money => decl_class s id def ref_sym auto quantum money
  | NewUnit cid sym ud => lift_res s (new_unit s dm cid sym ud)
  | DeriveUnit cid us sym auto => lift_res s (derive_unit s cid us sym auto)
  | NewCurrency cid sym sf => lift_res s (new_currency s cid sym sf)
  end.

Definition run (dm : mode) (s : state) (ds : list decl) : state :=
  fold_left (fun st d => fst (step dm st d)) ds s.

(* the base class Quantity itself (id 0) is the only registered class at start *)
Definition init : state :=
  mkSt [mkRC 0 true [] (dv_single 0 1) None None [] false] [] [] [].

(* ---- directory observations (C15 / C16) ---- *)
Definition obs_symbol (s : state) (sym : N) : option (N * N) :=      (* Unit(sym): identity, class *)
  match find_unit s sym with Some u => Some (ru_id u, ru_cls u) | None => None end.
Definition obs_units (s : state) (cid : N) : option (list N) :=      (* cls.units() *)
  match find_cls s cid with Some c => Some (rc_units c) | None => None end.
