(* Model/Hash.v — the data the implementation feeds to Python's hash() for
   quantities, units and exchange rates (after the repairs recorded in
   known_findings.json), as a key type with an equivalence that identifies
   equal rationals.  Assumption (sampled by the correspondence): Python hashes
   equal numbers (int / Decimal / Fraction) and identical objects equally.
   Executable, no proofs.

   Quantity.__hash__: hash((amount, unit)) when the unit has no scale or the
   type has no reference unit, else hash((amount * scale, type)).
   Unit.__hash__: hash(symbol) when the unit has no scale or the type has no
   reference unit, else hash((type, scale)).
   ExchangeRate.__hash__: hash(quotation) = (unit currency, term currency, rate). *)
From QV Require Export Model.Num Model.Rounding Model.Quantity Model.Rates.
Open Scope Z_scope.

Inductive hkey :=
  | HQtyRef (cls : N) (refval : Q)
  | HQtyUnit (amt : Q) (uid : N)
  | HUnitSym (uid : N)
  | HUnitScale (cls : N) (scale : Q)
  | HRate (u t : N) (rate : Q).

Definition hk_eqb (a b : hkey) : bool :=
  match a, b with
  | HQtyRef c x, HQtyRef d y => N.eqb c d && qeqb x y
  | HQtyUnit x u, HQtyUnit y v => qeqb x y && N.eqb u v
  | HUnitSym u, HUnitSym v => N.eqb u v
  | HUnitScale c x, HUnitScale d y => N.eqb c d && qeqb x y
  | HRate u t x, HRate v w y => N.eqb u v && N.eqb t w && qeqb x y
  | _, _ => false
  end.

Definition qty_hash (p : qty) : hkey :=
  match u_scale (q_unit p), u_has_ref (q_unit p) with
  | Some s, true => HQtyRef (u_cls (q_unit p)) (qmul (q_amt p) s)
  | _, _ => HQtyUnit (q_amt p) (u_id (q_unit p))
  end.

Definition unit_hash (u : unit) : hkey :=
  match u_scale u, u_has_ref u with
  | Some s, true => HUnitScale (u_cls u) s
  | _, _ => HUnitSym (u_id u)
  end.

Definition rate_hash (r : rate) : hkey := HRate (r_unit r) (r_term r) (rate_of r).
