(* Model/Table.v — table (affine) converters, property C14.

   (1) A refinement of the conversion functions of Model/Quantity.v that
       also shows the one exception TableConverter._get_factor can raise by
       itself: the reverse formula  (amount - offset) / factor  divides by the
       tabulated factor, so a row with factor 0 used in reverse raises
       ZeroDivisionError (Model/Quantity.v totalises this to x/0 = 0).  The
       exception leaves equiv_amount / convert / __eq__ / _compare unhandled.
       Proofs/C14Proofs.v shows that the two models coincide whenever no
       registered table has a zero factor.
   (2) The affine map a table assigns to an ordered pair of units and the
       decidable consistency predicate used by the round-trip and triangle
       theorems.
   No proofs here. *)
From QV Require Export Model.Num Model.Rounding Gen.RoundingImpl Model.Quantity.
Open Scope Z_scope.

(* ---- (1) converter.py with the division made explicit ------------------- *)

(* Converter.__call__ + TableConverter._get_factor *)
Definition table_conv_r (t : table) (q : qty) (to : unit) : res (option Q) :=
  if same_unit (q_unit q) to then Ok (Some (q_amt q)) else
  match table_get t (u_id (q_unit q)) (u_id to) with
  | Some (f, o) => Ok (Some (qadd (qmul f (q_amt q)) o))
  | None =>
    match table_get t (u_id to) (u_id (q_unit q)) with
    | Some (f, o) => if qzero f then Err EZeroDivision
                     else Ok (Some (qdiv (qsub (q_amt q) o) f))
    | None => Ok None
    end
  end.

(* the loop of equiv_amount over registered_converters() *)
Fixpoint try_convs_r (cs : list table) (q : qty) (to : unit) : res (option Q) :=
  match cs with
  | [] => Ok None
  | t :: r => match table_conv_r t q to with
              | Err e => Err e
              | Ok (Some a) => Ok (Some a)
              | Ok None => try_convs_r r q to
              end
  end.

Definition equiv_amount_r (ce : convenv) (q : qty) (to : unit) : res (option Q) :=
  bind (unit_eq (q_unit q) to) (fun e =>
  if e then Ok (Some (q_amt q)) else
  match get_factor (q_unit q) to with
  | Err ETypeError => Err EIncompatibleUnits
  | Err e => Err e
  | Ok None => try_convs_r (ce (u_cls (q_unit q))) q to
  | Ok (Some f) => Ok (Some (qmul f (q_amt q)))
  end).

Definition convert_r (ce : convenv) (dm : mode) (q : qty) (to : unit) : res qty :=
  bind (equiv_amount_r ce q to) (fun o =>
  match o with
  | None => Err EUnitConversion
  | Some a => Ok (mk_qty dm a to)
  end).

Definition qty_eq_r (ce : convenv) (p q : qty) : res bool :=
  if same_cls (q_unit p) (q_unit q) then
    if same_unit (q_unit p) (q_unit q) then Ok (qeqb (q_amt p) (q_amt q)) else
    bind (equiv_amount_r ce q (q_unit p)) (fun o =>
    match o with
    | Some e => Ok (qeqb (q_amt p) e)
    | None => Ok false
    end)
  else Ok false.

Definition qty_cmp_r (ce : convenv) (op : cmpop) (p q : qty) : res bool :=
  if same_cls (q_unit p) (q_unit q) then
    if same_unit (q_unit p) (q_unit q) then Ok (cmp_q op (q_amt p) (q_amt q)) else
    bind (equiv_amount_r ce q (q_unit p)) (fun o =>
    match o with
    | Some e => Ok (cmp_q op (q_amt p) e)
    | None => Err EUnitConversion
    end)
  else Err EIncompatibleUnits.

(* no row of any registered table has factor 0 *)
Definition table_nz (t : table) : bool :=
  forallb (fun row => negb (qzero (fst (snd row)))) t.
Definition convs_nz (cs : list table) : bool := forallb table_nz cs.

(* ---- (2) affine maps of a table ---------------------------------------- *)

(* x |-> x * factor + offset *)
Definition affine := (Q * Q)%type.
Definition aff_id : affine := (1%Q, 0%Q).
Definition aff_apply (m : affine) (x : Q) : Q := (x * fst m + snd m)%Q.
(* first m1, then m2 *)
Definition aff_comp (m1 m2 : affine) : affine :=
  (qmul (fst m1) (fst m2), qadd (qmul (snd m1) (fst m2)) (snd m2)).
Definition aff_eqb (m1 m2 : affine) : bool :=
  qeqb (fst m1) (fst m2) && qeqb (snd m1) (snd m2).

(* the map the table assigns to the ordered pair (x, y): identity for one
   unit, the tabulated row, else the exact inverse of the opposite row;
   None when neither direction is tabulated or the opposite factor is 0 *)
Definition aff (t : table) (x y : N) : option affine :=
  if N.eqb x y then Some aff_id else
  match table_get t x y with
  | Some fo => Some fo
  | None =>
    match table_get t y x with
    | Some (f, o) => if qzero f then None
                     else Some (qdiv 1 f, qdiv (qneg o) f)
    | None => None
    end
  end.

(* units of a table-converted type: one class, no reference unit, hence no
   scale and no quantum *)
Definition tunit (u : unit) : bool :=
  negb (u_has_ref u) &&
  match u_scale u with None => true | Some _ => false end &&
  match u_quantum u with None => true | Some _ => false end.
Definition units_ok (us : list unit) : bool :=
  forallb tunit us && forallb (fun u => forallb (same_cls u) us) us.

(* every ordered pair of units has a map; back and forth is the identity;
   through any third unit equals the direct map *)
Definition pair_consistent (t : table) (us : list unit) (u v : unit) : bool :=
  match aff t (u_id u) (u_id v), aff t (u_id v) (u_id u) with
  | Some m, Some m' =>
      aff_eqb (aff_comp m m') aff_id &&
      forallb (fun w =>
        match aff t (u_id u) (u_id w), aff t (u_id w) (u_id v) with
        | Some m1, Some m2 => aff_eqb (aff_comp m1 m2) m
        | _, _ => false
        end) us
  | _, _ => false
  end.
Definition table_consistent (t : table) (us : list unit) : bool :=
  forallb (fun u => forallb (pair_consistent t us u) us) us.

(* every map is strictly increasing (positive factor): needed for ordering *)
Definition table_increasing (t : table) (us : list unit) : bool :=
  forallb (fun u => forallb (fun v =>
    match aff t (u_id u) (u_id v) with
    | Some m => qltb 0 (fst m)
    | None => false
    end) us) us.

(* sorted(): a stable sort by `<` (any stable algorithm gives this result
   when `<` is a strict weak order, as under table_consistent and
   table_increasing); an error of `<` is reported *)
Fixpoint ins_sorted (lt : qty -> qty -> res bool) (x : qty) (l : list qty) : res (list qty) :=
  match l with
  | [] => Ok [x]
  | y :: r => bind (lt x y) (fun b =>
              if b then Ok (x :: y :: r)
              else bind (ins_sorted lt x r) (fun r' => Ok (y :: r')))
  end.
Fixpoint sort_from (lt : qty -> qty -> res bool) (acc l : list qty) : res (list qty) :=
  match l with
  | [] => Ok acc
  | x :: r => bind (ins_sorted lt x acc) (fun acc' => sort_from lt acc' r)
  end.
Definition qty_sorted (ce : convenv) (l : list qty) : res (list qty) :=
  sort_from (qty_cmp_r ce CLt) [] l.
