(* Model/Rounding.v — declarative specification of the eight decimal rounding
   modes and a hand-written reference rounding function (models decimalfp's
   Decimal(x, 0) / Decimal.quantize / round(Decimal, n), a C dependency that
   cannot be translated; validated against it by the correspondence). *)
From QV Require Export Model.Num.
Open Scope Z_scope.

(* [RoundsTo m x y n]: the integer n is the fraction x/y (y > 0) rounded to an
   integer under mode m.  Written from the definitions of the standard decimal
   rounding modes, independently of any implementation:
   - n is adjacent to x/y (|n - x/y| < 1);
   - FLOOR: n <= x/y; CEILING: x/y <= n; DOWN: |n| <= |x/y|; UP: |x/y| <= |n|;
   - HALF_*: |n - x/y| <= 1/2 and on an exact tie: HALF_UP away from zero,
     HALF_DOWN toward zero, HALF_EVEN to the even neighbour;
   - 05UP: exact values stay; otherwise truncate toward zero unless the
     truncated integer's last digit is 0 or 5 (t mod 5 = 0), then away. *)
Definition RoundsTo (m : mode) (x y n : Z) : Prop :=
  (n * y - y < x < n * y + y) /\
  match m with
  | MFLOOR => n * y <= x
  | MCEIL => x <= n * y
  | MDOWN => Z.abs (n * y) <= Z.abs x
  | MUP => Z.abs x <= Z.abs (n * y)
  | MHUP => 2 * Z.abs (x - n * y) <= y /\
            (2 * Z.abs (x - n * y) = y -> Z.abs x < Z.abs (n * y))
  | MHDOWN => 2 * Z.abs (x - n * y) <= y /\
              (2 * Z.abs (x - n * y) = y -> Z.abs (n * y) < Z.abs x)
  | MHEVEN => 2 * Z.abs (x - n * y) <= y /\
              (2 * Z.abs (x - n * y) = y -> n mod 2 = 0)
  | M05UP => (x = n * y) \/
             (x <> n * y /\
              let t := Z.quot x y in
              if t mod 5 =? 0 then Z.abs x < Z.abs (n * y) else n = t)
  end.

Definition RoundsToQ (m : mode) (q : Q) (n : Z) : Prop :=
  RoundsTo m (Qnum q) (Zpos (Qden q)) n.

(* reference rounding of x/y, y > 0 (floor based, written independently of
   the implementation's _floordiv_rounded) *)
Definition rnd_ref_z (m : mode) (x y : Z) : Z :=
  let f := x / y in
  let r := x - f * y in
  if r =? 0 then f else
  let up := f + 1 in
  let neg := x <? 0 in
  let toward0 := if neg then up else f in
  let away0 := if neg then f else up in
  match m with
  | MFLOOR => f
  | MCEIL => up
  | MDOWN => toward0
  | MUP => away0
  | MHUP => if 2 * r <? y then f else if y <? 2 * r then up else away0
  | MHDOWN => if 2 * r <? y then f else if y <? 2 * r then up else toward0
  | MHEVEN => if 2 * r <? y then f else if y <? 2 * r then up
              else if f mod 2 =? 0 then f else up
  | M05UP => if toward0 mod 5 =? 0 then away0 else toward0
  end.

Definition rnd_ref (m : mode) (q : Q) : Z := rnd_ref_z m (Qnum q) (Zpos (Qden q)).

(* round q to a multiple of the (non-zero) quantum qu *)
Definition round_to_quantum (m : mode) (q qu : Q) : Q :=
  qmul (qz (rnd_ref m (qdiv q qu))) qu.
