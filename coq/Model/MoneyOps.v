(* Model/MoneyOps.v — the money layer as far as property C08 needs it.

   Mirrors src/quantity/money/__init__.py (Currency, MoneyMeta.new_unit,
   MoneyMeta.register_currency), src/quantity/money/currencies.py (the
   database built from iso_4217.xml and get_currency_info) and, from
   src/quantity/__init__.py, the two binary operations the shared quantity
   model does not have: Quantity.__truediv__ and Quantity.__mul__ with a
   quantity as right operand.  Everything else money amounts do (+, -, order,
   ==, convert, neg, abs, scalar * and /) IS the shared Model/Quantity.v on the
   unit view of a currency: a unit of a class without reference unit
   (u_has_ref = false, u_scale = None) whose quantum is the currency's
   smallest fraction.

   No proofs here. *)
From QV Require Export Model.Num Model.Rounding Gen.RoundingImpl Model.Quantity.
Open Scope Z_scope.

(* ------------------------------------------------------------------ strings *)
Definition str := list N.            (* code points *)

Fixpoint str_eqb (a b : str) : bool :=
  match a, b with
  | [], [] => true
  | x :: r, y :: s => N.eqb x y && str_eqb r s
  | _, _ => false
  end.

(* ------------------------------------------------- Quantity / and * Quantity *)

(* result of a binary operation that may cancel the dimension *)
Inductive numqty := RNum (k : Q) | RQty (q : qty).

(* What `Unit.__mul__` / `Unit.__truediv__` find for two units: the lookup of
   the product / quotient term in the directory of declared units
   (_amnt_and_unit_from_term over _TERM_UNIT_MAP; _UNIT_OP_CACHE stores only
   results of that lookup).  [true] = division.  None = KeyError there. *)
Definition termenv := bool -> unit -> unit -> option (Q * option unit).

(* Quantity.__mul__, right operand a quantity (of any class) *)
Definition qty_mul_qty (te : termenv) (dm : mode) (p q : qty) : res numqty :=
  match te false (q_unit p) (q_unit q) with
  | None => Err EUndefinedResult
  | Some (f, None) => Ok (RNum (qmul (qmul (q_amt p) (q_amt q)) f))
  | Some (f, Some w) => Ok (RQty (mk_qty dm (qmul (qmul (q_amt p) (q_amt q)) f) w))
  end.

(* Quantity.__truediv__, right operand a quantity.  Same class:
   other.equiv_amount(self.unit), None -> UnitConversionError, else the plain
   number self.amount / equiv (ZeroDivisionError for a zero divisor).  Other
   class: the quotient unit is looked up first, then the amounts are divided;
   a cancelled dimension cannot occur between different classes in the
   implementation's own lookup — the code would multiply by None (TypeError). *)
Definition qty_div_qty (ce : convenv) (te : termenv) (dm : mode) (p q : qty) : res numqty :=
  if same_cls (q_unit p) (q_unit q) then
    bind (equiv_amount ce q (q_unit p)) (fun o =>
    match o with
    | None => Err EUnitConversion
    | Some e => if qzero e then Err EZeroDivision else Ok (RNum (qdiv (q_amt p) e))
    end)
  else
    match te true (q_unit p) (q_unit q) with
    | None => Err EUndefinedResult
    | Some (f, ow) =>
      if qzero (q_amt q) then Err EZeroDivision else
      match ow with
      | None => Err ETypeError
      | Some w => Ok (RQty (mk_qty dm (qmul (qdiv (q_amt p) (q_amt q)) f) w))
      end
    end.

(* Quantity.__new__ for a number and a unit of the class: `amnt / quantum`
   raises ZeroDivisionError for a zero quantum (a currency created with
   minor_unit AND a zero smallest_fraction, see new_unit below) — the one input
   on which the shared [mk_qty] must not be used unguarded. *)
Definition money_new (dm : mode) (a : Q) (u : unit) : res qty :=
  match u_quantum u with
  | Some qu => if qzero qu then Err EZeroDivision else Ok (mk_qty dm a u)
  | None => Ok (mk_qty dm a u)
  end.

(* ------------------------------------------------------------- currencies *)

Record currency := mkCur {
  c_sym : str;              (* Unit._symbol = Currency.iso_code *)
  c_name : option str;      (* Unit._name *)
  c_sf : Q;                 (* Currency._smallest_fraction = Currency.quantum *)
  c_uid : N                 (* object identity *)
}.

(* Unit.name: `self._name or self._symbol` *)
Definition cur_name (c : currency) : str :=
  match c_name c with
  | Some (x :: r) => x :: r
  | _ => c_sym c
  end.

(* the unit view of a currency for Model/Quantity.v; mc = class id of Money *)
Definition cur_unit (mc : N) (c : currency) : unit :=
  mkUnit (c_uid c) mc false None (Some (c_sf c)).


(* registry state, as far as money sees it *)
Record mstate := mkSt {
  st_units : list currency;   (* Money._unit_map, oldest first *)
  st_foreign : list str;      (* symbols in _SYMBOL_UNIT_MAP owned by other classes *)
  st_next : N                 (* next fresh identity *)
}.

Definition st_init (foreign : list str) : mstate := mkSt [] foreign 0%N.

Fixpoint find_cur (l : list currency) (s : str) : option currency :=
  match l with
  | [] => None
  | c :: r => if str_eqb (c_sym c) s then Some c else find_cur r s
  end.

(* cls._unit_map[symbol] *)
Definition find_unit (st : mstate) (s : str) : option currency := find_cur (st_units st) s.

(* symbol in _SYMBOL_UNIT_MAP *)
Definition sym_taken (st : mstate) (s : str) : bool :=
  existsb (str_eqb s) (st_foreign st) ||
  match find_unit st s with Some _ => true | None => false end.

(* ---- arguments of MoneyMeta.new_unit, classified as the code classifies them *)
Inductive sym_arg := SymStr (s : str) | SymOther.               (* not a str *)
Inductive minor_arg := MinNone | MinInt (z : Z) | MinOther.    (* not Integral *)
(* smallest_fraction: absent; convertible to a Decimal of value v holding
   prec fractional digits (Decimal.precision); or Decimal(...) raises e *)
Inductive sf_arg := SfNone | SfDec (v : Q) (prec : Z) | SfBad (e : err).

(* the validation part of MoneyMeta.new_unit: the smallest fraction the new
   currency gets.  Order of the checks as in the code: minor_unit first, then
   the conversion of smallest_fraction, then its value — and with minor_unit
   given ONLY the precision of smallest_fraction is compared (zero, negative
   and non-power-of-ten fractions pass). *)
Definition resolve_fraction (mu : minor_arg) (sf : sf_arg) : res Q :=
  match mu with
  | MinOther => Err ETypeError
  | MinInt z =>
      if z <? 0 then Err EValueError else
      match sf with
      | SfNone => Ok (pow10 (- z))
      | SfBad e => Err e
      | SfDec v p => if z =? p then Ok v else Err EValueError
      end
  | MinNone =>
      match sf with
      | SfNone => Ok (1 # 100)
      | SfBad e => Err e
      | SfDec v _ =>
          if qleb v 0 then Err EValueError else
          let m := qdiv 1 v in
          if (Zpos (Qden m) =? 1) && (1 <? Qnum m) then Ok v else Err EValueError
      end
  end.

(* MoneyMeta.new_unit -> QuantityMeta.new_unit -> _make_unit.  On Err the
   registry is unchanged (nothing is written before the last check). *)
Definition new_unit (st : mstate) (sym : sym_arg) (name : option str)
           (mu : minor_arg) (sf : sf_arg) : res (currency * mstate) :=
  bind (resolve_fraction mu sf) (fun f =>
  match sym with
  | SymOther => Err ETypeError
  | SymStr [] => Err EValueError
  | SymStr s =>
      if sym_taken st s then Err EValueError else
      let c := mkCur s name f (st_next st) in
      Ok (c, mkSt (st_units st ++ [c]) (st_foreign st) (N.succ (st_next st)))
  end).

(* ---- the ISO 4217 database.  Rows as generated into Gen/IsoTable.v:
   (number of child elements, code, name, numeric code all digits, minor
   units when all digits).  currencies.py keeps a row iff it has five children
   and both numbers are digit strings; the first row of a code wins. *)
Definition isorow : Type := (N * list N * list N * bool * option Z)%type.

Definition row_code (r : isorow) : str := let '(_, c, _, _, _) := r in c.
Definition row_name (r : isorow) : str := let '(_, _, n, _, _) := r in n.
Definition row_minor (r : isorow) : option Z := let '(_, _, _, _, m) := r in m.
Definition row_usable (r : isorow) : bool :=
  let '(n, _, _, numok, m) := r in
  N.eqb n 5 && numok && match m with Some _ => true | None => false end.

(* get_currency_info: Some (name, minor units) or None = ValueError *)
Fixpoint iso_lookup (t : list isorow) (code : str) : option (str * Z) :=
  match t with
  | [] => None
  | r :: rest =>
      if row_usable r && str_eqb (row_code r) code then
        match row_minor r with
        | Some m => Some (row_name r, m)
        | None => iso_lookup rest code
        end
      else iso_lookup rest code
  end.

(* argument of register_currency: a str, or some other hashable object (never
   a key of either dictionary) *)
Inductive code_arg := CodeStr (s : str) | CodeOther.

(* MoneyMeta.register_currency *)
Definition register_currency (t : list isorow) (st : mstate) (code : code_arg)
  : res (currency * mstate) :=
  match code with
  | CodeOther => Err EValueError
  | CodeStr s =>
      match find_unit st s with
      | Some c => Ok (c, st)                       (* already registered *)
      | None =>
          match iso_lookup t s with
          | None => Err EValueError
          | Some (name, minor) => new_unit st (SymStr s) (Some name) (MinInt minor) SfNone
          end
      end
  end.

(* ---- registration histories *)
Inductive reg_op :=
  | OpRegister (code : code_arg)
  | OpNewUnit (sym : sym_arg) (name : option str) (mu : minor_arg) (sf : sf_arg)
  | OpForeign (s : str).          (* another class declares a unit with symbol s *)

(* result of one step: the returned currency, if any *)
Definition run_op (t : list isorow) (st : mstate) (op : reg_op)
  : res (option currency) * mstate :=
  match op with
  | OpRegister code =>
      match register_currency t st code with
      | Ok (c, st') => (Ok (Some c), st')
      | Err e => (Err e, st)
      end
  | OpNewUnit sym name mu sf =>
      match new_unit st sym name mu sf with
      | Ok (c, st') => (Ok (Some c), st')
      | Err e => (Err e, st)
      end
  | OpForeign s =>
      match s with
      | [] => (Err EValueError, st)
      | _ => if sym_taken st s then (Err EValueError, st)
             else (Ok None, mkSt (st_units st) (s :: st_foreign st) (st_next st))
      end
  end.

Definition step (t : list isorow) (st : mstate) (op : reg_op) : mstate := snd (run_op t st op).

Definition run (t : list isorow) (st : mstate) (ops : list reg_op) : mstate :=
  fold_left (step t) ops st.

(* results of a script, step by step *)
Fixpoint run_trace (t : list isorow) (st : mstate) (ops : list reg_op)
  : list (res (option currency)) * mstate :=
  match ops with
  | [] => ([], st)
  | op :: r => let '(x, st') := run_op t st op in
               let '(xs, st'') := run_trace t st' r in (x :: xs, st'')
  end.
