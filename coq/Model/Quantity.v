(* Model/Quantity.v — quantities over a *view* of units.

   A unit is seen through exactly the data Quantity/Unit methods consult:
   identity, owning class, whether that class has a reference unit, the
   unit's scale (Unit._equiv) and the unit's quantum (Unit.quantum: class
   quantum / scale, or a currency's smallest fraction).  How a directory of
   declarations produces such views is Model/Registry.v.

   Mirrors src/quantity/__init__.py: Unit.__eq__, Unit._get_factor,
   Quantity.__new__ (the quantisation choke point), equiv_amount, convert,
   __eq__, _compare, __add__, __sub__, __neg__, __abs__, __mul__/__truediv__
   by numbers, quantize, __round__, allocate; converter.py: TableConverter. *)
From QV Require Export Model.Num Model.Rounding Gen.RoundingImpl.
Open Scope Z_scope.

(* exception classes, as far as observable *)
Inductive err :=
  | ETypeError | EValueError | EQuantityError | EIncompatibleUnits
  | EUndefinedResult | EUnitConversion | EAssertion | EZeroDivision
  | EKeyError | EIndexError | EOther.

Definition err_eqb (a b : err) : bool :=
  match a, b with
  | ETypeError, ETypeError | EValueError, EValueError
  | EQuantityError, EQuantityError | EIncompatibleUnits, EIncompatibleUnits
  | EUndefinedResult, EUndefinedResult | EUnitConversion, EUnitConversion
  | EAssertion, EAssertion | EZeroDivision, EZeroDivision
  | EKeyError, EKeyError | EIndexError, EIndexError | EOther, EOther => true
  | _, _ => false
  end.

Inductive res (A : Type) := Ok (a : A) | Err (e : err).
Arguments Ok {A} a.
Arguments Err {A} e.

Definition bind {A B} (r : res A) (f : A -> res B) : res B :=
  match r with Ok a => f a | Err e => Err e end.

Record unit := mkUnit {
  u_id : N;                 (* identity (`is`) *)
  u_cls : N;                (* owning quantity class *)
  u_has_ref : bool;         (* the class has a reference unit *)
  u_scale : option Q;       (* Unit._equiv *)
  u_quantum : option Q      (* Unit.quantum *)
}.

Record qty := mkQty { q_amt : Q; q_unit : unit }.

Definition same_unit (u v : unit) : bool := N.eqb (u_id u) (u_id v).
Definition same_cls (u v : unit) : bool := N.eqb (u_cls u) (u_cls v).

(* Unit.__eq__ ; None = AssertionError (mixed presence of scales) *)
Definition unit_eq (u v : unit) : res bool :=
  if same_cls u v then
    match u_scale u, u_scale v with
    | None, None => Ok (same_unit u v)
    | Some a, Some b => Ok (qeqb a b)
    | _, _ => Err EAssertion
    end
  else Ok false.

(* Unit._get_factor: Err ETypeError for another class, Ok None without a
   reference unit, Ok (Some f) with self = f * other *)
Definition get_factor (u v : unit) : res (option Q) :=
  if same_cls u v then
    if u_has_ref u then
      match u_scale u, u_scale v with
      | Some a, Some b => Ok (Some (qdiv a b))
      | _, _ => Err EAssertion
      end
    else Ok None
  else Err ETypeError.

(* ---- table converters (converter.py) ---- *)
Definition table := list ((N * N) * (Q * Q)).   (* (from,to) -> (factor,offset) *)

Fixpoint table_get (t : table) (a b : N) : option (Q * Q) :=
  match t with
  | [] => None
  | ((x, y), fo) :: r => if N.eqb x a && N.eqb y b then Some fo else table_get r a b
  end.

(* Converter.__call__ + TableConverter._get_factor; the class check of
   __call__ cannot fail when called from equiv_amount (same class there) *)
Definition table_conv (t : table) (q : qty) (to : unit) : option Q :=
  if same_unit (q_unit q) to then Some (q_amt q) else
  match table_get t (u_id (q_unit q)) (u_id to) with
  | Some (f, o) => Some (qadd (qmul f (q_amt q)) o)
  | None =>
    match table_get t (u_id to) (u_id (q_unit q)) with
    | Some (f, o) => Some (qdiv (qsub (q_amt q) o) f)
    | None => None
    end
  end.

(* converters of a class, most recently registered first *)
Fixpoint try_convs (cs : list table) (q : qty) (to : unit) : option Q :=
  match cs with
  | [] => None
  | t :: r => match table_conv t q to with
              | Some a => Some a
              | None => try_convs r q to
              end
  end.

(* class id -> registered converters, most recent first *)
Definition convenv := N -> list table.

(* Quantity.equiv_amount *)
Definition equiv_amount (ce : convenv) (q : qty) (to : unit) : res (option Q) :=
  bind (unit_eq (q_unit q) to) (fun e =>
  if e then Ok (Some (q_amt q)) else
  match get_factor (q_unit q) to with
  | Err ETypeError => Err EIncompatibleUnits
  | Err e => Err e
  | Ok None => Ok (try_convs (ce (u_cls (q_unit q))) q to)
  | Ok (Some f) => Ok (Some (qmul f (q_amt q)))
  end).

(* Quantity.__new__ for a number and a unit of the right class: the one
   place where amounts are quantised, with the default rounding mode *)
Definition mk_qty (dm : mode) (a : Q) (u : unit) : qty :=
  match u_quantum u with
  | None => mkQty (Qred a) u
  | Some qu => mkQty (round_to_quantum dm a qu) u
  end.

(* Quantity.convert *)
Definition convert (ce : convenv) (dm : mode) (q : qty) (to : unit) : res qty :=
  bind (equiv_amount ce q to) (fun o =>
  match o with
  | None => Err EUnitConversion
  | Some a => Ok (mk_qty dm a to)
  end).

(* Quantity.__eq__ between quantities (False for another class) *)
Definition qty_eq (ce : convenv) (p q : qty) : res bool :=
  if same_cls (q_unit p) (q_unit q) then
    if same_unit (q_unit p) (q_unit q) then Ok (qeqb (q_amt p) (q_amt q)) else
    bind (equiv_amount ce q (q_unit p)) (fun o =>
    match o with
    | Some e => Ok (qeqb (q_amt p) e)
    | None => Ok false
    end)
  else Ok false.

Inductive cmpop := CLt | CLe | CGt | CGe.
Definition cmp_q (op : cmpop) (a b : Q) : bool :=
  match op with
  | CLt => qltb a b | CLe => qleb a b | CGt => qltb b a | CGe => qleb b a
  end.

(* Quantity._compare *)
Definition qty_cmp (ce : convenv) (op : cmpop) (p q : qty) : res bool :=
  if same_cls (q_unit p) (q_unit q) then
    if same_unit (q_unit p) (q_unit q) then Ok (cmp_q op (q_amt p) (q_amt q)) else
    bind (equiv_amount ce q (q_unit p)) (fun o =>
    match o with
    | Some e => Ok (cmp_q op (q_amt p) e)
    | None => Err EUnitConversion
    end)
  else Err EIncompatibleUnits.

(* Quantity.__add__ / __sub__ *)
Definition qty_addsub (sub : bool) (ce : convenv) (dm : mode) (p q : qty) : res qty :=
  let f := if sub then qsub else qadd in
  if same_cls (q_unit p) (q_unit q) then
    bind (unit_eq (q_unit p) (q_unit q)) (fun e =>
    if e then Ok (mk_qty dm (f (q_amt p) (q_amt q)) (q_unit p)) else
    bind (equiv_amount ce q (q_unit p)) (fun o =>
    match o with
    | Some a => Ok (mk_qty dm (f (q_amt p) a) (q_unit p))
    | None => Err EUnitConversion
    end))
  else Err EIncompatibleUnits.
Definition qty_add := qty_addsub false.
Definition qty_sub := qty_addsub true.

Definition qty_neg (dm : mode) (p : qty) : qty := mk_qty dm (qneg (q_amt p)) (q_unit p).
Definition qty_abs (dm : mode) (p : qty) : qty := mk_qty dm (qabs (q_amt p)) (q_unit p).
Definition qty_mul_num (dm : mode) (p : qty) (k : Q) : qty := mk_qty dm (qmul (q_amt p) k) (q_unit p).
Definition qty_div_num (dm : mode) (p : qty) (k : Q) : res qty :=
  if qzero k then Err EZeroDivision else Ok (mk_qty dm (qdiv (q_amt p) k) (q_unit p)).

(* quantity.sum (utils.sum): left fold of + starting from the first item *)
Fixpoint qty_sum_from (ce : convenv) (dm : mode) (acc : qty) (l : list qty) : res qty :=
  match l with
  | [] => Ok acc
  | x :: r => bind (qty_add ce dm acc x) (fun a => qty_sum_from ce dm a r)
  end.

(* Quantity.quantize.  [is_dec]: the receiver's amount is held as a Decimal
   (decimalfp's quantize, modelled by the reference rounding) or as a Fraction
   (the GENERATED _quantize_fraction).  [rm]: explicit mode, None = default. *)
Definition quantize (ce : convenv) (dm : mode) (is_dec : bool)
           (p quant : qty) (rm : option mode) : res qty :=
  if negb (same_cls (q_unit p) (q_unit quant)) then Err ETypeError else
  if negb (u_has_ref (q_unit p)) then Err ETypeError else
  bind (equiv_amount ce quant (q_unit p)) (fun o =>
  match o with
  | None => Err EUnitConversion
  | Some nq =>
    if qzero (q_amt p) then Ok p else
    if qzero nq then Err EZeroDivision else
    let m := match rm with Some m => m | None => dm end in
    let r := if is_dec then Some (round_to_quantum m (q_amt p) nq)
             else quantize_fraction (q_amt p) nq m in
    match r with
    | Some a => Ok (mk_qty dm a (q_unit p))
    | None => Err EValueError
    end
  end).

(* Quantity.__round__: Decimal amounts follow the default mode, Fraction
   amounts are rounded half-even (fractions.Fraction.__round__) *)
Definition qty_round (dm : mode) (is_dec : bool) (p : qty) (nd : Z) : qty :=
  let m := if is_dec then dm else MHEVEN in
  mk_qty dm (round_to_quantum m (q_amt p) (pow10 (- nd))) (q_unit p).

(* Unit._compare: units of one type compare by their scale *)
Definition unit_cmp (op : cmpop) (u v : unit) : res bool :=
  match get_factor u v with
  | Err ETypeError => Err EIncompatibleUnits
  | Err e => Err e
  | Ok None => Err EUnitConversion
  | Ok (Some f) => Ok (cmp_q op f 1)
  end.

(* operands of the binary operators: a quantity or a plain number.  Python
   returns NotImplemented for a number in +, -, <, ... and the interpreter
   raises TypeError after trying the reflected method. *)
Inductive operand := OpQty (q : qty) | OpNum (k : Q).

Definition op_addsub (sub : bool) (ce : convenv) (dm : mode) (x y : operand) : res qty :=
  match x, y with
  | OpQty p, OpQty q => qty_addsub sub ce dm p q
  | _, _ => Err ETypeError
  end.
Definition op_cmp (ce : convenv) (op : cmpop) (x y : operand) : res bool :=
  match x, y with
  | OpQty p, OpQty q => qty_cmp ce op p q
  | _, _ => Err ETypeError
  end.
(* == never raises for a number: False *)
Definition op_eq (ce : convenv) (x y : operand) : res bool :=
  match x, y with
  | OpQty p, OpQty q => qty_eq ce p q
  | OpNum a, OpNum b => Ok (qeqb a b)
  | _, _ => Ok false
  end.
