(* Model/Alloc.v — executable model of Quantity.allocate
   (src/quantity/__init__.py) on top of Model/Quantity.v.  No proofs here.

     n_portions = len(ratios)
     total = sum(ratios)                      (quantity.utils.sum)
     fractions = [ratio / total for ratio in ratios]
     portions  = [self * fraction for fraction in fractions]
     remainder = self - sum(portions)
     rem_amount = remainder.amount
     if rem_amount != 0:
         assert self.unit.quantum is not None
         quantum = self.unit.quantum
         if disperse_rounding_error:
             if rem_amount < 0: quantum = -quantum
             errors = sorted(map(lambda portion, fraction, idx:
                                 (portion.amount - self.amount * fraction, idx),
                                 portions, fractions, range(n_portions)),
                             reverse=(rem_amount < 0))
             for error, idx in errors:
                 portions[idx]._amount += quantum
                 rem_amount -= quantum
                 if rem_amount == 0: break
             remainder = rem_amount * self.unit
     return portions, remainder

   Ratios are exact numbers (int / Fraction / Decimal: all Rational) or
   quantities.  Forcing the numeric total to a Decimal changes the
   representation only, never the value. *)
From QV Require Export Model.Num Model.Rounding Gen.RoundingImpl Model.Quantity.
Open Scope Z_scope.

Inductive ratio := RNum (k : Q) | RQty (q : qty).

(* value of utils.sum(ratios): builtin left fold of + starting from the first
   item; 0 for an empty collection.  number + quantity and quantity + number
   both end in TypeError (NotImplemented from both sides). *)
Inductive total := TNum (t : Q) | TQty (t : qty).

Fixpoint sum_ratios_from (ce : convenv) (dm : mode) (acc : total) (l : list ratio) : res total :=
  match l with
  | [] => Ok acc
  | x :: r =>
    match acc, x with
    | TNum a, RNum k => sum_ratios_from ce dm (TNum (qadd a k)) r
    | TQty a, RQty q => bind (qty_add ce dm a q) (fun s => sum_ratios_from ce dm (TQty s) r)
    | _, _ => Err ETypeError
    end
  end.

Definition sum_ratios (ce : convenv) (dm : mode) (l : list ratio) : res total :=
  match l with
  | [] => Ok (TNum 0)
  | RNum k :: r => sum_ratios_from ce dm (TNum k) r
  | RQty q :: r => sum_ratios_from ce dm (TQty q) r
  end.

(* ratio / total.  number / number: ZeroDivisionError for a zero total;
   quantity / quantity of the same class (Quantity.__truediv__):
   self.amount / other.equiv_amount(self.unit).  After a successful sum the
   kinds cannot be mixed; the remaining combinations are kept total with the
   outcome of the real operators (number / quantity exists, quantity / number
   too, but neither is reachable from allocate). *)
Definition ratio_div (ce : convenv) (x : ratio) (t : total) : res Q :=
  match x, t with
  | RNum k, TNum s => if qzero s then Err EZeroDivision else Ok (qdiv k s)
  | RQty r, TQty s =>
    if same_cls (q_unit r) (q_unit s) then
      bind (equiv_amount ce s (q_unit r)) (fun o =>
      match o with
      | None => Err EUnitConversion
      | Some e => if qzero e then Err EZeroDivision else Ok (qdiv (q_amt r) e)
      end)
    else Err EOther
  | _, _ => Err EOther
  end.

(* the list comprehension: evaluated left to right, the first error wins *)
Fixpoint fractions_of (ce : convenv) (l : list ratio) (t : total) : res (list Q) :=
  match l with
  | [] => Ok []
  | x :: r => bind (ratio_div ce x t) (fun f =>
              bind (fractions_of ce r t) (fun fs => Ok (f :: fs)))
  end.

(* ---- the sorted error list ---- *)
Fixpoint errors_from (i : nat) (a : Q) (ps : list qty) (fs : list Q) : list (Q * nat) :=
  match ps, fs with
  | p :: pr, f :: fr => (qsub (q_amt p) (qmul a f), i) :: errors_from (S i) a pr fr
  | _, _ => []
  end.

(* Python tuple comparison on (error, index) *)
Definition pair_leb (x y : Q * nat) : bool :=
  qltb (fst x) (fst y) || (qeqb (fst x) (fst y) && Nat.leb (snd x) (snd y)).

Fixpoint insert {A} (leb : A -> A -> bool) (x : A) (l : list A) : list A :=
  match l with
  | [] => [x]
  | y :: r => if leb x y then x :: y :: r else y :: insert leb x r
  end.
Fixpoint isort {A} (leb : A -> A -> bool) (l : list A) : list A :=
  match l with
  | [] => []
  | x :: r => insert leb x (isort leb r)
  end.

(* sorted(..., reverse=rv): the tuples are pairwise different (distinct
   indices), so reverse=True is the strictly descending order *)
Definition sort_errors (rv : bool) (l : list (Q * nat)) : list (Q * nat) :=
  isort (if rv then (fun x y => pair_leb y x) else pair_leb) l.

(* portions[idx]._amount += quantum  (no constructor involved) *)
Fixpoint bump (i : nat) (d : Q) (ps : list qty) : list qty :=
  match ps, i with
  | [], _ => []
  | p :: r, O => mkQty (qadd (q_amt p) d) (q_unit p) :: r
  | p :: r, S j => p :: bump j d r
  end.

(* the dispersal loop: one (signed) quantum per step, break on zero; the loop
   also ends when the error list is exhausted *)
Fixpoint disperse_loop (step : Q) (errs : list (Q * nat)) (ps : list qty) (rem : Q)
  : list qty * Q :=
  match errs with
  | [] => (ps, rem)
  | (_, i) :: r =>
    let ps' := bump i step ps in
    let rem' := qsub rem step in
    if qzero rem' then (ps', rem') else disperse_loop step r ps' rem'
  end.

(* everything after the fractions are known *)
Definition alloc_core (ce : convenv) (dm : mode) (self : qty) (fs : list Q)
           (disperse : bool) : res (list qty * qty) :=
  let portions := map (fun f => qty_mul_num dm self f) fs in
  match portions with
  | [] => Err ETypeError                    (* self - 0 *)
  | p0 :: pr =>
    bind (qty_sum_from ce dm p0 pr) (fun s =>
    bind (qty_sub ce dm self s) (fun remainder =>
    let rem := q_amt remainder in
    if qzero rem then Ok (portions, remainder) else
    match u_quantum (q_unit self) with
    | None => Err EAssertion
    | Some qu =>
      if negb disperse then Ok (portions, remainder) else
      let neg := qltb rem 0 in
      let step := if neg then qneg qu else qu in
      let errs := sort_errors neg (errors_from 0 (q_amt self) portions fs) in
      let '(ps', rem') := disperse_loop step errs portions rem in
      Ok (ps', mk_qty dm rem' (q_unit self))
    end))
  end.

Definition allocate (ce : convenv) (dm : mode) (self : qty) (ratios : list ratio)
           (disperse : bool) : res (list qty * qty) :=
  bind (sum_ratios ce dm ratios) (fun t =>
  bind (fractions_of ce ratios t) (fun fs =>
  alloc_core ce dm self fs disperse)).
