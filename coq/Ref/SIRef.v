(* Ref/SIRef.v — HAND-WRITTEN independent reference (a specification; trusted).

   Written from the standards, not from /repo:
   * SI brochure (9th ed., 2019, with the 2022 prefix additions): decimal
     multiples of the coherent units kg, m, s, m², m³, m/s, m/s², N, J, W, Hz;
     minute = 60 s, hour = 3600 s, day = 86400 s; litre = 1 dm³ (12th CGPM
     1964); tonne = 1000 kg; are = 100 m², hectare = 10^4 m²; metric carat
     = 200 mg (4th CGPM 1907); kilowatt hour = 3.6 MJ.
   * International yard and pound agreement of 1959: 1 yd = 0.9144 m exactly,
     1 lb (avoirdupois) = 0.45359237 kg exactly; hence 1 in = 1/36 yd =
     0.0254 m, 1 ft = 1/3 yd, 1 mi = 1760 yd; chain = 22 yd, furlong = 10
     chains = 220 yd; acre = 1 chain x 1 furlong = 4840 yd²; ounce = 1/16 lb,
     stone = 14 lb.
   * IEC 80000-13 / IEEE 1541: byte = 8 bit; k, M, G, T decimal; Ki, Mi, Gi,
     Ti = 2^10, 2^20, 2^30, 2^40.
   * Temperature: T/K = t/°C + 273.15;  t/°F = t/°C * 9/5 + 32.

   Every scale is relative to the coherent SI unit of the quantity (byte for
   amounts of data, byte per second for data rates).  Values are written as
   the defining arithmetic (12 * inch, yard ^ 2, ...), so that each line can
   be audited against the standards by eye. *)
From Coq Require Import ZArith QArith String List.
Import ListNotations.
Open Scope string_scope.
Open Scope Q_scope.

(* ---- international yard and pound, 1959 ---------------------------------- *)
Definition yard : Q := 9144 # 10000.
Definition foot : Q := yard / 3.
Definition inch : Q := foot / 12.
Definition chain : Q := 22 * yard.
Definition furlong : Q := 10 * chain.
Definition mile : Q := 1760 * yard.
Definition pound : Q := 45359237 # 100000000.

Definition minute : Q := 60.
Definition hour : Q := 60 * minute.
Definition day : Q := 24 * hour.

Definition kilo : Q := 10 ^ 3.
Definition mega : Q := 10 ^ 6.
Definition giga : Q := 10 ^ 9.
Definition tera : Q := 10 ^ 12.
Definition milli : Q := 10 ^ (-3).
Definition micro : Q := 10 ^ (-6).
Definition nano : Q := 10 ^ (-9).
Definition kibi : Q := 2 ^ 10.
Definition mebi : Q := 2 ^ 20.
Definition gibi : Q := 2 ^ 30.
Definition tebi : Q := 2 ^ 40.
Definition bit : Q := 1 # 8.           (* in bytes *)

(* quantity type -> symbol of its coherent reference unit *)
Definition si_ref_unit : list (string * string) :=
  [("Mass", "kg"); ("Length", "m"); ("Duration", "s"); ("Area", "m²");
   ("Volume", "m³"); ("Velocity", "m/s"); ("Acceleration", "m/s²");
   ("Force", "N"); ("Energy", "J"); ("Power", "W"); ("Frequency", "Hz");
   ("DataVolume", "B"); ("DataThroughput", "B/s")].

(* data units and data rates share one table *)
Definition data_units (suffix : string) : list (string * Q) :=
  [("B" ++ suffix, 1); ("b" ++ suffix, bit);
   ("kB" ++ suffix, kilo); ("MB" ++ suffix, mega);
   ("GB" ++ suffix, giga); ("TB" ++ suffix, tera);
   ("KiB" ++ suffix, kibi); ("MiB" ++ suffix, mebi);
   ("GiB" ++ suffix, gibi); ("TiB" ++ suffix, tebi);
   ("kb" ++ suffix, kilo * bit); ("Mb" ++ suffix, mega * bit);
   ("Gb" ++ suffix, giga * bit); ("Tb" ++ suffix, tera * bit);
   ("Kib" ++ suffix, kibi * bit); ("Mib" ++ suffix, mebi * bit);
   ("Gib" ++ suffix, gibi * bit); ("Tib" ++ suffix, tebi * bit)].

Definition of_type (t : string) (l : list (string * Q)) : list (string * (string * Q)) :=
  map (fun p => (fst p, (t, snd p))) l.

(* unit symbol -> (quantity type, exact scale in the type's reference unit) *)
Definition si_ref : list (string * (string * Q)) := List.concat [
  of_type "Mass"
    [("kg", 1); ("g", milli); ("mg", milli * milli); ("t", 1000);
     ("lb", pound); ("oz", pound / 16); ("st", 14 * pound);
     ("ct", 200 * (milli * milli))];
  of_type "Length"
    [("m", 1); ("nm", nano); ("µm", micro); ("mm", milli); ("cm", 1 # 100);
     ("dm", 1 # 10); ("km", kilo);
     ("in", inch); ("ft", foot); ("yd", yard); ("ch", chain);
     ("fur", furlong); ("mi", mile)];
  of_type "Duration"
    [("s", 1); ("ns", nano); ("µs", micro); ("ms", milli);
     ("min", minute); ("h", hour); ("d", day)];
  of_type "Area"
    [("m²", 1); ("mm²", milli ^ 2); ("cm²", (1 # 100) ^ 2); ("dm²", (1 # 10) ^ 2);
     ("km²", kilo ^ 2); ("a", 100); ("ha", 10000);
     ("in²", inch ^ 2); ("ft²", foot ^ 2); ("yd²", yard ^ 2); ("mi²", mile ^ 2);
     ("ac", chain * furlong)];
  of_type "Volume"
    [("m³", 1); ("mm³", milli ^ 3); ("cm³", (1 # 100) ^ 3); ("dm³", (1 # 10) ^ 3);
     ("km³", kilo ^ 3);
     ("l", (1 # 10) ^ 3); ("ml", milli * (1 # 10) ^ 3);
     ("cl", (1 # 100) * (1 # 10) ^ 3); ("dl", (1 # 10) * (1 # 10) ^ 3);
     ("in³", inch ^ 3); ("ft³", foot ^ 3); ("yd³", yard ^ 3)];
  of_type "Velocity"
    [("m/s", 1); ("km/h", kilo / hour); ("ft/s", foot); ("mph", mile / hour)];
  of_type "Acceleration"
    [("m/s²", 1); ("mps²", mile)];
  of_type "Force"
    [("N", 1); ("J/m", 1)];
  of_type "Energy"
    [("J", 1); ("Nm", 1); ("Ws", 1); ("kWh", kilo * hour)];
  of_type "Power"
    [("W", 1); ("mW", milli); ("kW", kilo); ("MW", mega); ("GW", giga); ("TW", tera)];
  of_type "Frequency"
    [("Hz", 1); ("kHz", kilo); ("MHz", mega); ("GHz", giga)];
  of_type "DataVolume" (data_units "");
  of_type "DataThroughput" (data_units "/s")].

Fixpoint si_lookup {A} (l : list (string * A)) (s : string) : option A :=
  match l with
  | [] => None
  | (k, v) :: r => if String.eqb k s then Some v else si_lookup r s
  end.

Definition si_scale (s : string) : option Q :=
  match si_lookup si_ref s with Some (_, q) => Some q | None => None end.
Definition si_type (s : string) : option string :=
  match si_lookup si_ref s with Some (t, _) => Some t | None => None end.

(* smallest amount of data (in bytes): one bit *)
Definition si_quantum : list (string * Q) := [("DataVolume", bit)].

(* ---- SI prefixes: symbol, name, decimal exponent (24, incl. 2022) --------- *)
Definition si_prefix_ref : list (string * (string * Z)) :=
  [("q", ("quecto", -30)); ("r", ("ronto", -27)); ("y", ("yocto", -24));
   ("z", ("zepto", -21)); ("a", ("atto", -18)); ("f", ("femto", -15));
   ("p", ("pico", -12)); ("n", ("nano", -9)); ("µ", ("micro", -6));
   ("m", ("milli", -3)); ("c", ("centi", -2)); ("d", ("deci", -1));
   ("da", ("deca", 1)); ("h", ("hecto", 2)); ("k", ("kilo", 3));
   ("M", ("mega", 6)); ("G", ("giga", 9)); ("T", ("tera", 12));
   ("P", ("peta", 15)); ("E", ("exa", 18)); ("Z", ("zetta", 21));
   ("Y", ("yotta", 24)); ("R", ("ronna", 27)); ("Q", ("quetta", 30))]%Z.

(* ---- temperature: affine maps  y = f * x + o  ------------------------------ *)
Definition affine := (Q * Q)%type.
Definition aff_inv (g : affine) : affine := (1 / fst g, - snd g / fst g).
Definition aff_comp (g h : affine) : affine :=      (* x -> h (g x) *)
  (fst g * fst h, snd g * fst h + snd h).

Definition c_to_k : affine := (1, 27315 # 100).
Definition c_to_f : affine := (9 # 5, 32).

Definition si_temperature : list ((string * string) * affine) :=
  [(("°C", "K"), c_to_k); (("K", "°C"), aff_inv c_to_k);
   (("°C", "°F"), c_to_f); (("°F", "°C"), aff_inv c_to_f);
   (("°F", "K"), aff_comp (aff_inv c_to_f) c_to_k);
   (("K", "°F"), aff_comp (aff_inv c_to_k) c_to_f)].

Definition si_temp_units : list string := ["°C"; "°F"; "K"].
