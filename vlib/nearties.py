"""Boundary-directed inputs: amounts on the input grid whose exact image under a
rational factor lies as close as possible to (but not on) a rounding tie of
the output grid — where a second, hidden rounding changes the result."""
from fractions import Fraction as F


def near_tie_multiples(factor, qin, qout, count=4):
    """Integers n > 0 such that (n*qin*factor)/qout = k + 1/2 + d/(2q) for the
    smallest possible non-zero |d| (q = denominator of qin*factor/qout): solved
    as a linear congruence, so the distance to the tie is minimal, not sampled."""
    x = F(factor) * F(qin) / F(qout)
    p, q = x.numerator, x.denominator
    if q == 1:
        return []
    out = []
    try:
        pinv = pow(p % q, -1, q)
    except ValueError:
        return []
    d = 1
    while len(out) < count and d < 50:
        for s in (d, -d):
            if (q + s) % 2 == 0:
                n = ((q + s) // 2 * pinv) % q
                if n > 0:
                    out.append(n)
        d += 1
    return out[:count]
