"""Independent reference: exact SI / international yard-and-pound / IEC values
of the predefined catalogue, written from the standards, NOT from the repo.
symbol -> (quantity type, exact scale in the type's coherent SI unit)."""
from fractions import Fraction as F

# base definitions
INCH = F(254, 10000)          # international inch, 1959
FOOT = 12 * INCH
YARD = 3 * FOOT
CHAIN = 22 * YARD
FURLONG = 220 * YARD
MILE = 1760 * YARD
POUND = F(45359237, 100000000)  # international avoirdupois pound
MINUTE, HOUR, DAY = F(60), F(3600), F(86400)

REF = {}


def _add(cls, table):
    for sym, val in table.items():
        assert sym not in REF, sym
        REF[sym] = (cls, F(val))


_add('Mass', {'kg': 1, 'g': F(1, 1000), 'mg': F(1, 10**6), 't': 1000,
              'lb': POUND, 'st': 14 * POUND, 'oz': POUND / 16, 'ct': F(2, 10000)})
_add('Length', {'m': 1, 'nm': F(1, 10**9), 'µm': F(1, 10**6), 'mm': F(1, 1000),
                'cm': F(1, 100), 'dm': F(1, 10), 'km': 1000, 'in': INCH,
                'ft': FOOT, 'yd': YARD, 'ch': CHAIN, 'fur': FURLONG, 'mi': MILE})
_add('Duration', {'s': 1, 'ns': F(1, 10**9), 'µs': F(1, 10**6), 'ms': F(1, 1000),
                  'min': MINUTE, 'h': HOUR, 'd': DAY})
_add('Area', {'m²': 1, 'mm²': F(1, 10**6), 'cm²': F(1, 10**4), 'dm²': F(1, 100),
              'km²': 10**6, 'a': 100, 'ha': 10**4, 'in²': INCH**2,
              'ft²': FOOT**2, 'yd²': YARD**2, 'mi²': MILE**2,
              'ac': 4840 * YARD**2})
_add('Volume', {'m³': 1, 'mm³': F(1, 10**9), 'cm³': F(1, 10**6),
                'dm³': F(1, 1000), 'km³': 10**9, 'l': F(1, 1000),
                'ml': F(1, 10**6), 'cl': F(1, 10**5), 'dl': F(1, 10**4),
                'in³': INCH**3, 'ft³': FOOT**3, 'yd³': YARD**3})
_add('Velocity', {'m/s': 1, 'km/h': F(1000) / HOUR, 'ft/s': FOOT,
                  'mph': MILE / HOUR})
_add('Acceleration', {'m/s²': 1, 'mps²': MILE})
_add('Force', {'N': 1, 'J/m': 1})
_add('Energy', {'J': 1, 'Nm': 1, 'Ws': 1, 'kWh': 1000 * HOUR})
_add('Power', {'W': 1, 'mW': F(1, 1000), 'kW': 10**3, 'MW': 10**6,
               'GW': 10**9, 'TW': 10**12})
_add('Frequency', {'Hz': 1, 'kHz': 10**3, 'MHz': 10**6, 'GHz': 10**9})

_dv = {'B': F(1), 'b': F(1, 8)}
for _p, _v in (('k', 10**3), ('M', 10**6), ('G', 10**9), ('T', 10**12)):
    _dv[_p + 'B'] = F(_v)
    _dv[_p + 'b'] = F(_v, 8)
for _p, _v in (('Ki', 2**10), ('Mi', 2**20), ('Gi', 2**30), ('Ti', 2**40)):
    _dv[_p + 'B'] = F(_v)
    _dv[_p + 'b'] = F(_v, 8)
_add('DataVolume', _dv)
_add('DataThroughput', {k + '/s': v for k, v in _dv.items()})

# quanta (in reference units) of the predefined quantized types (IEEE 1541: a
# bit is the smallest amount of data)
QUANTUM = {'DataVolume': F(1, 8)}

# dimension vectors over the base types (Mass, Length, Duration, DataVolume,
# Temperature), from the SI definitions of the derived quantities
BASES = ('Mass', 'Length', 'Duration', 'DataVolume', 'Temperature')
DIM = {
    'Mass': (1, 0, 0, 0, 0), 'Length': (0, 1, 0, 0, 0),
    'Duration': (0, 0, 1, 0, 0), 'DataVolume': (0, 0, 0, 1, 0),
    'Temperature': (0, 0, 0, 0, 1),
    'Area': (0, 2, 0, 0, 0), 'Volume': (0, 3, 0, 0, 0),
    'Velocity': (0, 1, -1, 0, 0), 'Acceleration': (0, 1, -2, 0, 0),
    'Force': (1, 1, -2, 0, 0), 'Energy': (1, 2, -2, 0, 0),
    'Power': (1, 2, -3, 0, 0), 'Frequency': (0, 0, -1, 0, 0),
    'DataThroughput': (0, 0, -1, 1, 0),
}

TEMPERATURE = ('°C', '°F', 'K')

# SI prefixes (BIPM brochure, 20 prefixes of the 2019 edition minus the 2022
# additions, which the library does not define)
SI_PREFIX = {'y': -24, 'z': -21, 'a': -18, 'f': -15, 'p': -12, 'n': -9,
             'µ': -6, 'm': -3, 'c': -2, 'd': -1, 'da': 1, 'h': 2, 'k': 3,
             'M': 6, 'G': 9, 'T': 12, 'P': 15, 'E': 18, 'Z': 21, 'Y': 24}

LINEAR_TYPES = [c for c in DIM if c != 'Temperature']


def units_of(cls):
    return [s for s, (c, _) in REF.items() if c == cls]


assert len(REF) == 110, len(REF)

# temperature: two defining relations; all six table rows derived by algebra
#   [K] = [°C] + 273.15        [°F] = [°C] * 9/5 + 32
_C2K = (F(1), F(27315, 100))
_C2F = (F(9, 5), F(32))


def _inv(fo):
    f, o = fo
    return (1 / f, -o / f)


def _comp(g, h):            # x -> h(g(x))
    return (g[0] * h[0], g[1] * h[0] + h[1])


TEMP_TABLE = {
    ('°C', 'K'): _C2K, ('K', '°C'): _inv(_C2K),
    ('°C', '°F'): _C2F, ('°F', '°C'): _inv(_C2F),
    ('°F', 'K'): _comp(_inv(_C2F), _C2K), ('K', '°F'): _comp(_inv(_C2K), _C2F),
}
