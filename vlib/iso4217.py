"""Independent parse of the bundled ISO 4217 table (regex, not ElementTree and
not the library's loader): code -> (name, minor units) for functional
currencies; NONFUNCTIONAL = codes present in the XML that must be rejected."""
import html
import os
import re

from .core import SRC

_ENTRY = re.compile(r'<CcyNtry>(.*?)</CcyNtry>', re.S)
_FIELD = re.compile(r'<(\w+)(?:\s[^>]*)?>(.*?)</\1>', re.S)


def load(path=None):
    path = path or os.path.join(SRC, 'quantity', 'money', 'iso_4217.xml')
    text = open(path, encoding='utf-8').read()
    table, nonfunctional = {}, set()
    for m in _ENTRY.finditer(text):
        f = {k: html.unescape(v) for k, v in _FIELD.findall(m.group(1))}
        code = f.get('Ccy')
        if not code:
            continue
        minor, num = f.get('CcyMnrUnts', ''), f.get('CcyNbr', '')
        if minor.isdigit() and num.isdigit():
            table.setdefault(code, (f.get('CcyNm', ''), int(minor)))
        else:
            nonfunctional.add(code)
    return table, sorted(nonfunctional - set(table))
