"""Quantity-layer operations: run on the implementation, encode for the model
(Corr/QtyCorr.v).  Shared by C01, C03, C04, C05, C14."""
import operator
from fractions import Fraction as F

from . import siref, world as W
from .core import cn, cq, cbool, clist

COQ_HEADER = ("From QV Require Import Model.Num Model.Rounding Model.Quantity "
              "Corr.Common Corr.Obs Corr.QtyCorr.")
COQ_CHECK = 'q_check'
MODEL_TARGETS = ['Corr/QtyCorr.vo']

CMP = {'lt': (operator.lt, 'CLt'), 'le': (operator.le, 'CLe'),
       'gt': (operator.gt, 'CGt'), 'ge': (operator.ge, 'CGe')}


def frs(f):
    f = F(f)
    return f"{f.numerator}/{f.denominator}"


def num_value(spec):
    """Exact rational value of a number spec."""
    kind, val = spec
    if kind == 'float':
        return F(float.fromhex(val))
    if kind == 'bool':
        return F(int(val))
    return F(val)


def _num(spec):
    if spec[0] == 'bool':
        return bool(int(spec[1]))
    return W.number(tuple(spec))


def _tables(case, units, classes):
    from quantity import TableConverter
    for t in case.get('tables', []):
        rows = [(units[a], units[b], _num(f), _num(o)) for a, b, f, o in t['rows']]
        if t.get('form') == 'map':
            conv = TableConverter({(a, b): (f, o) for a, b, f, o in rows})
        elif t.get('form') == 'mapproxy':
            from types import MappingProxyType           # a Mapping that is not a dict
            conv = TableConverter(MappingProxyType({(a, b): (f, o) for a, b, f, o in rows}))
        elif t.get('form') == 'gen':
            conv = TableConverter(r for r in list(rows))        # a one-shot iterable
        elif t.get('form') == 'zip':
            conv = TableConverter(zip(*[list(c) for c in zip(*rows)])) if rows \
                else TableConverter(iter(()))
        else:
            conv = TableConverter(rows)
        classes[t['cls']].register_converter(conv)
    mc = case.get('money_conv')
    if mc:
        # a MoneyConverter with constant rates from its base currency; cases use it
        # only in the direction base -> term (the stored rate itself)
        from quantity.money import Money, MoneyConverter
        conv = MoneyConverter(units[mc['base']])
        conv.update(None, [(units[t], W.number(('dec', r)), 1) for t, r in mc['rates']])
        Money.register_converter(conv)


def impl_run(case):
    W.set_mode(case['dm'])
    units, classes = W.instantiate(case['world'])
    _tables(case, units, classes)
    op = case['op']
    o = op['o']
    seen = []

    def operand(spec):
        if spec[0] == 'q':
            q = _num(spec[1]) * units[spec[2]]
            seen.append(W.observe(q))
            return q
        seen.append(None)
        return _num(spec[1])

    if o == 'mkstr':
        import quantity
        u = units[op['u']]
        txt = op['s'] + ' ' + u.symbol
        how = op.get('how', 'generic')
        if how == 'generic':
            res = W.guarded(lambda: quantity.Quantity(txt))
        else:
            res = W.guarded(lambda: u.qty_cls(txt))
        return {'ops': [], 'res': res}
    if o in ('quantize', 'round'):
        x = operand(op['x'])
        if o == 'round':
            return {'ops': seen, 'res': W.guarded(lambda: round(x, op['nd']))}
        qn = operand(op['y'])
        rm = W.rounding_enum(op.get('rm'))
        return {'ops': seen, 'res': W.guarded(
            lambda: x.quantize(qn, rm) if rm is not None else x.quantize(qn))}
    if o == 'mk':
        n, u = _num(op['n']), units[op['u']]
        cls = classes.get(op.get('cls')) if op.get('cls') else None
        how = op.get('how', 'mul')
        if how == 'mul':
            res = W.guarded(lambda: n * u)
        elif how == 'rmul':
            res = W.guarded(lambda: u * n)
        elif how == 'cls':
            res = W.guarded(lambda: u.qty_cls(n, u))
        else:
            import quantity
            res = W.guarded(lambda: quantity.Quantity(n, u))
        return {'ops': [], 'res': res}
    if o in ('convert', 'via', 'conveq'):
        x = operand(op['x'])
        before = W.observe(x)
        if o == 'convert' and op.get('text'):
            # the same conversion requested through the string form with an explicit unit:
            # cls('amount symbol', unit) / Quantity('amount symbol', unit)
            import quantity
            fac = {'cls': type(x), 'tcls': units[op['v']].qty_cls}.get(op['text'], quantity.Quantity)
            txt = f"{x.amount} {x.unit.symbol}"
            res = W.guarded(lambda: fac(txt, units[op['v']]))
        elif o == 'convert':
            res = W.guarded(lambda: x.convert(units[op['v']]))
        elif o == 'conveq':
            res = W.guarded(lambda: x.convert(units[op['v']]) == x)
        else:
            res = W.guarded(lambda: x.convert(units[op['w']]).convert(units[op['v']]))
        return {'ops': seen, 'res': res, 'unchanged': before == W.observe(x)}
    if o in ('iadd', 'isub'):
        # augmented assignment: t = x; t += y must leave the object x refers to untouched
        x, y = operand(op['x']), operand(op['y'])
        before = W.observe(x) if hasattr(x, 'unit') else None

        def aug():
            t = x
            if o == 'iadd':
                t += y
            else:
                t -= y
            return t
        res = W.guarded(aug)
        after = W.observe(x) if hasattr(x, 'unit') else None
        return {'ops': seen, 'res': res, 'unchanged': before == after}
    if o in ('add', 'sub', 'eq', 'ne') or o in CMP:
        x, y = operand(op['x']), operand(op['y'])
        f = {'add': operator.add, 'sub': operator.sub, 'eq': operator.eq,
             'ne': operator.ne}.get(o) or CMP[o][0]
        return {'ops': seen, 'res': W.guarded(lambda: f(x, y))}
    if o == 'divu':
        # quantity / unit of its own type: the dimensions cancel, a plain number
        x = operand(op['x'])
        return {'ops': seen, 'res': W.guarded(lambda: x / units[op['v']])}
    if o in ('neg', 'abs', 'pos'):
        x = operand(op['x'])
        f = {'neg': operator.neg, 'abs': abs, 'pos': operator.pos}[o]
        return {'ops': seen, 'res': W.guarded(lambda: f(x))}
    if o in ('muln', 'rmuln', 'divn'):
        x = operand(op['x'])
        k = _num(op['k'])
        f = {'muln': lambda: x * k, 'rmuln': lambda: k * x, 'divn': lambda: x / k}[o]
        return {'ops': seen, 'res': W.guarded(f)}
    if o == 'ucmp':
        f = CMP[op['c']][0]
        return {'ops': [], 'res': W.guarded(lambda: f(units[op['u']], units[op['v']]))}
    if o == 'ueq':
        return {'ops': [], 'res': W.guarded(lambda: units[op['u']] == units[op['v']])}
    if o == 'sum':
        import quantity
        if 'start' in op:
            # quantity.sum(items, start): the start value is added first
            st = operand(op['start']) if op['start'][0] == 'q' else _num(op['start'][1])
            xs = [operand(s) for s in op['xs']]
            return {'ops': seen, 'res': W.guarded(lambda: quantity.sum(iter(xs), st))}
        xs = [operand(s) for s in op['xs']]
        return {'ops': seen, 'res': W.guarded(lambda: quantity.sum(xs))}
    if o == 'sorted':
        xs = [operand(s) for s in op['xs']]
        try:
            ys = sorted(xs)
            return {'ops': seen, 'res': {'k': 'list', 'v': [W.observe(y) for y in ys]}}
        except Exception as e:      # noqa
            return {'ops': seen, 'res': {'k': 'err', 'e': W.err_name(e), 'py': type(e).__name__}}
    raise ValueError(o)


# ------------------------------------------------------------ model encoding

def temp_tables(views):
    """Independent reference table of the predefined temperature converter."""
    rows = []
    for (a, b), (f, o) in siref.TEMP_TABLE.items():
        rows.append(f"(({cn(views.uid(a))}, {cn(views.uid(b))}), ({cq(f)}, {cq(o)}))")
    return clist(rows)


def coq_convs(case, views):
    per_cls = {}
    if case['world'].get('predefined'):
        per_cls.setdefault(views.cls_ids['Temperature'], []).append(temp_tables(views))
    for t in case.get('tables', []):
        rows = {}
        for a, b, f, o in t['rows']:     # later rows overwrite earlier ones (dict)
            rows[(a, b)] = (num_value(f), num_value(o))
        txt = clist([f"(({cn(views.uid(a))}, {cn(views.uid(b))}), ({cq(f)}, {cq(o)}))"
                     for (a, b), (f, o) in rows.items()])
        per_cls.setdefault(views.cls_ids[t['cls']], []).insert(0, txt)
    mc = case.get('money_conv')
    if mc:
        txt = clist([f"(({cn(views.uid(mc['base']))}, {cn(views.uid(t))}), ({cq(F(r))}, {cq(F(0))}))"
                     for t, r in mc['rates']])
        per_cls.setdefault(views.cls_ids['Money'], []).insert(0, txt)
    return clist([f"({cn(c)}, {clist(ts)})" for c, ts in per_cls.items()])


def coq_case(case, r):
    views = W.Views(case['world'])
    op = case['op']
    o = op['o']
    seen = list(r['ops'])

    def qv(spec):
        ob = seen.pop(0)
        return F(ob['amt']), views.coq(spec[2])

    def operand(spec):
        if spec[0] == 'q':
            a, u = qv(spec)
            return f"(OpQty (mkQty {cq(a)} {u}))"
        seen.pop(0)
        return f"(OpNum {cq(num_value(spec[1]))})"

    if o == 'mkstr':
        t = f"QMk {cq(F(op['v']))} {views.coq(op['u'])}"
    elif o == 'quantize':
        isdec = seen[0]['repr'] == 'Decimal'
        a, u = qv(op['x'])
        b, v = qv(op['y'])
        rm = 'None' if not op.get('rm') else f"(Some {op['rm']})"
        t = f"QQuantize {cbool(isdec)} {cq(a)} {u} {cq(b)} {v} {rm}"
    elif o == 'round':
        isdec = seen[0]['repr'] == 'Decimal'
        a, u = qv(op['x'])
        t = f"QRound {cbool(isdec)} {cq(a)} {u} ({op['nd']})%Z"
    elif o == 'mk':
        t = f"QMk {cq(num_value(op['n']))} {views.coq(op['u'])}"
    elif o == 'convert':
        a, u = qv(op['x'])
        t = f"QConvert {cq(a)} {u} {views.coq(op['v'])}"
    elif o == 'conveq':
        a, u = qv(op['x'])
        t = f"QConvEq {cq(a)} {u} {views.coq(op['v'])}"
    elif o == 'via':
        a, u = qv(op['x'])
        t = f"QConvertVia {cq(a)} {u} {views.coq(op['w'])} {views.coq(op['v'])}"
    elif o in ('add', 'sub', 'iadd', 'isub'):
        t = f"QAddSub {cbool(o in ('sub', 'isub'))} {operand(op['x'])} {operand(op['y'])}"
    elif o in ('eq', 'ne'):
        t = f"QEq {operand(op['x'])} {operand(op['y'])}"
    elif o in CMP:
        t = f"QCmp {CMP[o][1]} {operand(op['x'])} {operand(op['y'])}"
    elif o in ('neg', 'abs'):
        a, u = qv(op['x'])
        t = f"{'QNeg' if o == 'neg' else 'QAbs'} {cq(a)} {u}"
    elif o in ('muln', 'rmuln', 'divn'):
        a, u = qv(op['x'])
        t = f"{'QDivNum' if o == 'divn' else 'QMulNum'} {cq(a)} {u} {cq(num_value(op['k']))}"
    elif o == 'ucmp':
        t = f"QUnitCmp {CMP[op['c']][1]} {views.coq(op['u'])} {views.coq(op['v'])}"
    elif o == 'ueq':
        t = f"QUnitEq {views.coq(op['u'])} {views.coq(op['v'])}"
    elif o == 'sum':
        qs = []
        if 'start' in op and op['start'][0] != 'q':
            return None             # a plain-number start: TypeError, the oracle's business
        for s in ([op['start']] if 'start' in op else []) + op['xs']:
            a, u = qv(s)
            qs.append(f"(mkQty {cq(a)} {u})")
        t = f"QSum {clist(qs)}"
    else:
        return None
    res = r['res']
    if o == 'ne' and res['k'] == 'bool':
        res = dict(res, v=not res['v'])
    exp = W.coq_obs(res, views)
    return f"(mkQCase {case['dm']} {coq_convs(case, views)} ({t}) {exp})"


def coq_model_term(case, r):
    t = coq_case(case, r)
    return f"q_model {t}" if t else "tt"


# ------------------------------------------------------------ oracle helpers

def refvalue(views, ob):
    """exact value in reference units of an observed quantity (linear types)"""
    u = views.units[ob['sym']]
    return F(ob['amt']) * u['scale']


def is_qty(ob, cls=None, sym=None):
    return ob['k'] == 'qty' and not ob.get('float') and \
        (cls is None or ob['cls'] == cls) and (sym is None or ob['sym'] == sym)


def is_err(ob, e):
    return ob['k'] == 'err' and ob['e'] == e
