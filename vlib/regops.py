"""Directory-level operations (declarations of types and units, products /
quotients / powers of units and quantities): run on the implementation and
encode for the model (Model/Registry.v, Corr/RegCorr.v).
Shared by C02, C10 (compound units), C15, C16, C17.

A case:
  {'dm': mode, 'pre': bool (import quantity.predefined first),
   'script': [decl...], 'hist': [mop...], 'q': query}
decl:
  {'d':'cls','name', 'def': [[clsname, exp]..]|None, 'ref': sym|None,
   'quantum': 'n/d'|None}
  {'d':'money'}                          import quantity.money (class Money)
  {'d':'unit','cls','sym','def': None | ['qty', numspec, sym]
                                 | ['term', [[['n', numspec]|['u', sym], exp]..]]}
  {'d':'derive','cls','units':[sym..],'sym': sym|None}
  {'d':'currency','sym','minor': int|None,'sf': 'n/d'|None}   Money.new_unit
  {'d':'iso','code'}                                          Money.register_currency
mop: ['mul'|'div', opd, opd] | ['pow', opd, k];  opd: ['q', numspec, sym] | ['u', sym] | ['n', numspec]
query: {'k':'op','o': mop} | {'k':'dir','syms':[..],'clss':[..]} | {'k':'mk','n':numspec,'u':sym,'via':cls|None}
"""
import json
import os
import subprocess
import sys
from fractions import Fraction as F

from . import world as W
from .core import cn, cq, cz, cbool, clist, copt, VERIF
from .qtyops import num_value, frs

COQ_HEADER0 = ("From QV Require Import Model.Num Model.Rounding Model.Quantity Model.Dim "
               "Model.Registry Corr.Common Corr.Obs Corr.RegCorr.")
COQ_CHECK = '(reg_check_pre pre)'


def COQ_HEADER():
    """Require line + the predefined catalogue's declaration script, replayed
    ONCE per case file (Definition pre)."""
    ids = Ids({'pre': True, 'script': []})
    script = clist(coq_script(ids))
    return (COQ_HEADER0 + "\nOpen Scope Z_scope.\n"
            f"Definition pre := Eval vm_compute in (pre_state {script}).")
MODEL_TARGETS = ['Corr/RegCorr.vo']

_POW = ['', '', '²', '³', '⁴', '⁵', '⁶', '⁷', '⁸', '⁹']


def fmt_term(items):
    """Independent re-statement of the documented text form of a term of
    units: factors with positive exponents joined by a middle dot, '/', those
    with negative exponents; an element that itself contains '/' contributes
    its numerator and denominator separately."""
    pos, neg = [], []
    for sym, exp in items:
        parts = sym.split('/')
        if len(parts) > 2:
            raise IndexError('two slashes')
        for i, p in enumerate(parts):
            e = exp if i == 0 else -exp
            (pos if e > 0 else neg).append(p + _POW[abs(exp)])
    return ('·'.join(pos) if pos else '1') + ('/' + '·'.join(neg) if neg else '')


# ------------------------------------------------------------------ predefined

_PREDEF = None


def _dump_predefined():
    """Declaration script reproducing quantity.predefined, from PUBLIC
    declaration data (definitions, reference units, quanta, symbols), in
    registration order.  Runs in a subprocess."""
    import quantity
    import quantity.predefined as pd
    from quantity import Unit
    from numbers import Rational
    script, seen_cls = [], set()
    classes = [getattr(pd, n) for n in pd.__all__
               if isinstance(getattr(pd, n), type(quantity.Quantity))]
    order = list(quantity._SYMBOL_UNIT_MAP.values())

    def emit_cls(cls):
        if cls.__name__ in seen_cls:
            return
        seen_cls.add(cls.__name__)
        d = None
        if cls.is_derived_cls():
            d = [[c.__name__, e] for c, e in cls.definition]
            for c, _ in cls.definition:
                emit_cls(c)
        ref = cls.ref_unit.symbol if cls.ref_unit is not None else None
        q = cls.quantum
        script.append({'d': 'cls', 'name': cls.__name__, 'def': d, 'ref': ref,
                       'quantum': None if q is None else frs(F(q))})
    for u in order:
        cls = u.qty_cls
        emit_cls(cls)
        if u is cls.ref_unit:
            continue
        if u.is_base_unit():
            script.append({'d': 'unit', 'cls': cls.__name__, 'sym': u.symbol, 'def': None})
            continue
        items = list(u.definition)
        if (len(items) == 2 and isinstance(items[0][0], Rational) and items[0][1] == 1
                and isinstance(items[1][0], Unit) and items[1][1] == 1
                and items[1][0].qty_cls is cls):
            script.append({'d': 'unit', 'cls': cls.__name__, 'sym': u.symbol,
                           'def': ['qty', ['frac', frs(F(items[0][0]))], items[1][0].symbol]})
        elif (cls.is_derived_cls() and all(isinstance(e, Unit) for e, _ in items)
              and len(items) == len(cls.definition)
              and all(e.qty_cls is c and x == y
                      for (e, x), (c, y) in zip(items, cls.definition))):
            script.append({'d': 'derive', 'cls': cls.__name__,
                           'units': [e.symbol for e, _ in items], 'sym': u.symbol})
        else:
            script.append({'d': 'unit', 'cls': cls.__name__, 'sym': u.symbol, 'def': [
                'term', [[['n', ['frac', frs(F(e))]] if isinstance(e, Rational)
                          else ['u', e.symbol], x] for e, x in items]]})
    for cls in classes:
        emit_cls(cls)
    return script


def predefined_script():
    global _PREDEF
    if _PREDEF is None:
        env = dict(os.environ, PYTHONPATH=VERIF + ':' + os.path.join(
            (os.environ.get('QUANTITY_REPO') or '/repo'), 'src'),
            DECIMALFP_FORCE_PYTHON_IMPL='1', PYTHONHASHSEED='0')
        out = subprocess.run(
            [sys.executable, '-c',
             'import json, vlib.regops as R; print(json.dumps(R._dump_predefined()))'],
            env=env, stdout=subprocess.PIPE, check=True, text=True).stdout
        _PREDEF = json.loads(out)
    return _PREDEF


# ------------------------------------------------------------------ impl side

def currency_params(minor, sf):
    """Independent statement of Money.new_unit's parameter rules ->
    ('ok', fraction) | ('err', class)."""
    if minor is not None and minor < 0:
        return ('err', 'EValueError')
    if sf is None:
        return ('ok', F(1, 100) if minor is None else F(1, 10 ** minor))
    f = F(sf)
    if minor is None:
        if f <= 0:
            return ('err', 'EValueError')
        m = 1 / f
        if not (m.denominator == 1 and m.numerator > 1):
            return ('err', 'EValueError')
        return ('ok', f)
    # precision of the Decimal as written (here: minimal number of fractional digits)
    prec = 0
    while (f * 10 ** prec).denominator != 1:
        prec += 1
    if minor != prec:
        return ('err', 'EValueError')
    return ('ok', f)


class Impl:
    """Executes declaration scripts and operations on the real library."""

    def __init__(self, pre):
        import quantity
        self.q = quantity
        self.meta = type(quantity.Quantity)
        self.classes = {'Quantity': quantity.Quantity}
        self.units = {}
        if pre:
            import quantity.predefined as pd
            for name in pd.__all__:
                o = getattr(pd, name)
                if isinstance(o, quantity.Unit):
                    self.units[o.symbol] = o
                elif isinstance(o, self.meta):
                    self.classes[name] = o

    def term(self, items):
        from quantity.term import Term
        return Term([(W.number(tuple(e[1])) if e[0] == 'n' else self.units[e[1]], x)
                     for e, x in items])

    def decl(self, d):
        k = d['d']
        if k == 'money':
            from quantity.money import Money
            self.classes['Money'] = Money
            return
        if k == 'cls':
            kw = {}
            if d.get('def') is not None:
                from quantity.term import Term
                kw['define_as'] = Term([(self.classes[c], e) for c, e in d['def']])
            if d.get('ref') is not None:
                kw['ref_unit_symbol'] = d['ref']
            if d.get('quantum') is not None:
                kw['quantum'] = W.number(('frac', d['quantum']))
            # 'base': declared as a Python sub-class of a concrete quantity type; the
            # library treats it as a separate type (own units, own directory entry)
            base = self.classes[d['base']] if d.get('base') else self.q.Quantity
            cls = self.meta(d['name'], (base,), {}, **kw)
            self.classes[d['name']] = cls
            if cls.ref_unit is not None:
                self.units[cls.ref_unit.symbol] = cls.ref_unit
            return
        if k == 'unit':
            cls = self.classes[d['cls']]
            df = d['def']
            if df is None:
                u = cls.new_unit(d['sym'], None)
            elif df[0] == 'qty':
                u = cls.new_unit(d['sym'], None, W.number(tuple(df[1])) * self.units[df[2]])
            else:
                u = cls.new_unit(d['sym'], None, self.term(df[1]))
            self.units[u.symbol] = u
            return
        if k == 'derive':
            cls = self.classes[d['cls']]
            kw = {} if d.get('sym') is None else {'symbol': d['sym']}
            u = cls.derive_unit_from(*[self.units[s] for s in d['units']], **kw)
            self.units[u.symbol] = u
            return
        if k == 'currency':
            from quantity.money import Money
            kw = {}
            if d.get('minor') is not None:
                kw['minor_unit'] = d['minor']
            if d.get('sf') is not None:
                from decimal import Decimal as D
                f = F(d['sf'])
                kw['smallest_fraction'] = format(D(f.numerator) / D(f.denominator), 'f')
            u = Money.new_unit(d['sym'], None, **kw)
            self.units[u.symbol] = u
            return
        if k == 'iso':
            from quantity.money import Money
            u = Money.register_currency(d['code'])
            self.units[u.symbol] = u
            return
        raise ValueError(k)

    def run_script(self, script):
        out = []
        for d in script:
            try:
                self.decl(d)
                out.append(None)
            except BaseException as e:      # noqa
                if isinstance(e, (KeyboardInterrupt, SystemExit, MemoryError)):
                    raise
                out.append({'e': W.err_name(e), 'py': type(e).__name__, 'msg': str(e)[:120]})
        return out

    def opd(self, o):
        from .qtyops import _num
        if o[0] == 'q':
            return _num(o[1]) * self.units[o[2]]
        if o[0] == 'u':
            return self.units[o[1]]
        return _num(o[1])

    def mop(self, m):
        def thunk():
            if m[0] == 'pow':
                return self.opd(m[1]) ** m[2]
            x, y = self.opd(m[1]), self.opd(m[2])
            return x * y if m[0] == 'mul' else x / y
        return observe(thunk)


def observe(thunk):
    import quantity
    try:
        r = thunk()
    except BaseException as e:    # noqa
        if isinstance(e, (KeyboardInterrupt, SystemExit, MemoryError)):
            raise
        return {'k': 'err', 'e': W.err_name(e), 'py': type(e).__name__, 'msg': str(e)[:160]}
    if isinstance(r, tuple) and len(r) == 2:
        f, u = r
        return {'k': 'pair', 'f': W._num(f), 'float': isinstance(f, float),
                'u': None if u is None else u.symbol}
    return W.observe(r)


def impl_run(case):
    W.set_mode(case['dm'])
    im = Impl(case.get('pre', False))
    steps = im.run_script(case['script'])
    hist = [im.mop(m) for m in case.get('hist', [])]
    def ask(q):
        if q['k'] == 'op':
            res = im.mop(q['o'])
        elif q['k'] == 'dir':
            import quantity
            us = []
            for s in q['syms']:
                try:
                    u = quantity.Unit(s)
                    us.append([u.symbol, u.qty_cls.__name__, u is im.units.get(s)])
                except ValueError:
                    us.append(None)
            cs = []
            for c in q['clss']:
                cls = im.classes.get(c)
                cs.append(None if cls is None else [u.symbol for u in cls.units()])
            # the factories on an amount-and-symbol string: type of the instance
            ps = []
            for s in q['syms']:
                ob = W.guarded(lambda: quantity.Quantity('1 ' + s))
                ps.append(ob['cls'] if ob['k'] == 'qty' else ob.get('e'))
            res = {'k': 'dir', 'us': us, 'cs': cs, 'parse': ps}
        elif q['k'] == 'scales':
            out = []
            for s in q['syms']:
                u = im.units.get(s)
                sc = None
                if u is not None:
                    cls = u.qty_cls
                    if cls.ref_unit is not None and cls.quantum is None:
                        try:
                            e = cls(1, u).equiv_amount(cls.ref_unit)
                            sc = None if e is None else W._num(e)
                        except BaseException:     # noqa: a unit without scale in such a type
                            sc = None
                out.append(sc)
            res = {'k': 'scales', 'v': out}
        elif q['k'] == 'rate':
            from .qtyops import _num

            def thunk():
                from quantity.money import ExchangeRate
                ru, mult, rt, amt = q['r']
                rate = ExchangeRate(im.units[ru], _num(mult), im.units[rt], _num(amt))
                x = im.opd(q['x'])

                def apply():
                    if q['o'] == 'mul':
                        return x * rate
                    if q['o'] == 'rmul':
                        return rate * x
                    return x / rate
                if q.get('conv'):
                    # a money converter (constant rates from a base currency) is registered
                    # while the rate is applied: it must not be consulted
                    from quantity.money import MoneyConverter
                    conv = MoneyConverter(im.units[q['conv']['base']])
                    conv.update(None, [(im.units[c], _num(a), 1) for c, a in q['conv']['rates']])
                    with conv:
                        return apply()
                return apply()
            res = observe(thunk)
        elif q['k'] == 'mk':
            n, u = W.number(tuple(q['n'])), im.units.get(q['u'])
            if q.get('via'):
                cls = im.classes[q['via']]
                res = W.guarded(lambda: cls(n, u))
            else:
                res = W.guarded(lambda: im.q.Quantity(n, u))
        else:
            raise ValueError(q['k'])
        return res
    # 'first': the query is also asked BEFORE the late declarations (its answer then is
    # recorded as res0); what is declared afterwards must be honoured by the second answer
    res0 = ask(case['q']) if case.get('first') else None
    late = im.run_script(case.get('late', []))
    res = ask(case['q'])
    return {'steps': steps, 'hist': hist, 'late': late, 'res': res, 'res0': res0}


# ------------------------------------------------------------------ model side

class Ids:
    """symbol / class-name -> N ids for one case (0 = empty symbol, class 0 =
    Quantity)."""

    def __init__(self, case):
        self.sym = {'': 0}
        self.cls = {'Quantity': 0}
        self.script = (predefined_script() if case.get('pre') else []) + case['script'] \
            + case.get('late', [])

    def s(self, sym):
        return self.sym.setdefault(sym, len(self.sym))

    def c(self, name):
        return self.cls.get(name, 999999)


def _auto_ref_symbol(d, refs):
    """str(term of reference units) for a derived class, None if some class of
    the definition has no reference unit"""
    if d.get('def') is None:
        return None
    items = []
    for c, e in d['def']:
        if refs.get(c) is None:
            return None
        items.append((refs[c], e))
    try:
        return fmt_term(items)
    except IndexError:
        return None


def coq_telem(ids, e):
    if e[0] == 'n':
        return f"(TNum {cq(num_value(e[1]))})"
    return f"(TUnit {cn(ids.s(e[1]))})"


def coq_script(ids):
    """Coq list of decl for the case's script (predefined prefix included).
    Class ids are positions of *attempted* class declarations."""
    out = []
    refs = {}          # class name -> reference unit symbol (harness' own bookkeeping)
    cls_ids = {'Quantity': 0}
    defs = {}
    nxt = [1]

    def newid():
        i = nxt[0]
        nxt[0] += 1
        return i
    for d in ids.script:
        k = d['d']
        if k == 'money':
            cid = newid()
            cls_ids['Money'] = cid
            refs['Money'] = None
            out.append(f"DeclClass {cn(cid)} None None 0%N None true")
        elif k == 'cls':
            cid = newid()
            auto = _auto_ref_symbol(d, refs)
            df = 'None' if d.get('def') is None else \
                "(Some " + clist([f"({cn(cls_ids.get(c, 999999))}, {cz(e)})" for c, e in d['def']]) + ")"
            ref = copt(d.get('ref'), lambda s: cn(ids.s(s)))
            out.append(f"DeclClass {cn(cid)} {df} {ref} {cn(ids.s(auto) if auto else 0)} "
                       f"{copt(d.get('quantum'), lambda q: cq(F(q)))} false")
            # the harness' own bookkeeping of what exists (independent of the library):
            # later declarations refer to the LATEST successfully declared class of a name;
            # whether this one succeeds is decided by the model; names are unique in our scripts
            cls_ids[d['name']] = cid
            refs[d['name']] = d.get('ref') or auto
            defs[d['name']] = d.get('def')
        elif k == 'unit':
            df = d['def']
            if df is None:
                ud = 'DNone'
            elif df[0] == 'qty':
                ud = f"(DQty {cq(num_value(df[1]))} {cn(ids.s(df[2]))})"
            else:
                ud = "(DTerm " + clist([f"({coq_telem(ids, e)}, {cz(x)})" for e, x in df[1]]) + ")"
            out.append(f"NewUnit {cn(cls_ids.get(d['cls'], 999999))} {cn(ids.s(d['sym']))} {ud}")
        elif k == 'derive':
            cdef = defs.get(d['cls']) or []
            try:
                auto = fmt_term(list(zip(d['units'], [e for _, e in cdef]))) \
                    if len(cdef) == len(d['units']) else ''
            except IndexError:
                auto = ''
            out.append(f"DeriveUnit {cn(cls_ids.get(d['cls'], 999999))} "
                       f"{clist([cn(ids.s(s)) for s in d['units']])} "
                       f"{copt(d.get('sym'), lambda s: cn(ids.s(s)))} {cn(ids.s(auto))}")
        elif k == 'currency':
            tag, val = currency_params(d.get('minor'), d.get('sf'))
            sf = f"(Ok {cq(val)})" if tag == 'ok' else f"(Err {val})"
            out.append(f"NewCurrency {cn(cls_ids.get('Money', 999999))} {cn(ids.s(d['sym']))} {sf}")
        else:
            raise ValueError(k)
    ids.cls = cls_ids
    return ['(' + x + ')' for x in out]


def coq_opd(ids, o):
    if o[0] == 'q':
        return f"(MQ {cq(num_value(o[1]))} {cn(ids.s(o[2]))})"
    if o[0] == 'u':
        return f"(MU {cn(ids.s(o[1]))})"
    return f"(MN {cq(num_value(o[1]))})"


def coq_mop(ids, m):
    if m[0] == 'pow':
        return f"(OPow {coq_opd(ids, m[1])} {cz(m[2])})"
    return f"({'OMul' if m[0] == 'mul' else 'ODiv'} {coq_opd(ids, m[1])} {coq_opd(ids, m[2])})"


def coq_robs(ids, o):
    k = o['k']
    if k == 'pair':
        if o.get('float'):
            return "(RO OFloat)"
        return f"(RPair {cq(F(o['f']))} {copt(o['u'], lambda s: cn(ids.s(s)))})"
    if k == 'scales':
        return "(RScales " + clist([copt(v, lambda x: cq(F(x))) for v in o['v']]) + ")"
    if k == 'dir':
        us = clist(['None' if u is None else
                    f"(Some ({cn(ids.s(u[0]))}, {cn(ids.c(u[1]))}))" for u in o['us']])
        cs = clist(['None' if c is None else
                    "(Some " + clist([cn(ids.s(s)) for s in c]) + ")" for c in o['cs']])
        return f"(RDir {us} {cs})"
    if k == 'qty':
        if o.get('float'):
            return "(RO OFloat)"
        return f"(RO (OQty {cn(ids.c(o['cls']))} {cn(ids.s(o['sym']))} {cq(F(o['amt']))}))"
    if k == 'num':
        return f"(RO (ONum {cq(F(o['v']))}))"
    if k == 'err':
        return f"(RO (OErr {o['e']}))"
    if k == 'float':
        return "(RO OFloat)"
    return "(RO OOther)"


def coq_case(case, r):
    ids = Ids(case)
    script = coq_script(ids)          # ids are assigned over prefix + own script
    npre = len(predefined_script()) if case.get('pre') else 0
    steps = ['None' if s is None else f"(Some {s['e']})" for s in r['steps']]
    lsteps = ['None' if s is None else f"(Some {s['e']})" for s in r.get('late', [])]
    nown = len(case['script'])
    q = case['q']
    if q['k'] == 'op':
        qt = f"(QOp {coq_mop(ids, q['o'])})"
    elif q['k'] == 'dir':
        qt = (f"(QDir {clist([cn(ids.s(s)) for s in q['syms']])} "
              f"{clist([cn(ids.c(c)) for c in q['clss']])})")
    elif q['k'] == 'scales':
        qt = f"(QScales {clist([cn(ids.s(s)) for s in q['syms']])})"
    elif q['k'] == 'rate':
        ru, mult, rt, amt = q['r']
        x = q['x']
        qt = (f"(QRate {cbool(q['o'] != 'div')} {cq(num_value(x[1]))} {cn(ids.s(x[2]))} "
              f"{cn(ids.s(ru))} {cq(num_value(mult))} {cn(ids.s(rt))} {cq(num_value(amt))})")
    else:
        qt = (f"(QMk {cq(num_value(q['n']))} {cn(ids.s(q['u']))} "
              f"{copt(q.get('via'), lambda c: cn(ids.c(c)))})")
    hist = clist([coq_mop(ids, m) for m in case.get('hist', [])])
    exp = coq_robs(ids, r['res'])
    return (f"(mkRCase {case['dm']} {cbool(bool(case.get('pre')))} "
            f"{clist(script[npre:npre + nown])} {clist(steps)} {hist} "
            f"{clist(script[npre + nown:])} {clist(lsteps)} {qt} {exp})")


def coq_model_term(case, r):
    return f"reg_model (fst pre) {coq_case(case, r)}"
