"""Independent oracle: the eight decimal rounding modes on exact rationals,
written from their definitions (floor/ceil/trunc), not from the library."""
import math
from fractions import Fraction


def py_round(mode, q):
    """Round Fraction q to an integer under Coq-named mode."""
    q = Fraction(q)
    fl, ce = math.floor(q), math.ceil(q)
    if fl == ce:
        return fl
    tr = fl if q > 0 else ce          # toward zero
    aw = ce if q > 0 else fl          # away from zero
    d = q - fl                        # in (0,1)
    if mode == 'MFLOOR':
        return fl
    if mode == 'MCEIL':
        return ce
    if mode == 'MDOWN':
        return tr
    if mode == 'MUP':
        return aw
    if mode in ('MHUP', 'MHDOWN', 'MHEVEN'):
        if d < Fraction(1, 2):
            return fl
        if d > Fraction(1, 2):
            return ce
        if mode == 'MHUP':
            return aw
        if mode == 'MHDOWN':
            return tr
        return fl if fl % 2 == 0 else ce
    if mode == 'M05UP':
        return aw if abs(tr) % 10 in (0, 5) else tr
    raise ValueError(mode)


def to_quantum(mode, a, qu):
    return py_round(mode, Fraction(a) / Fraction(qu)) * Fraction(qu)
