"""Generic check protocol shared by all properties (DESIGN.md 2.1, 7)."""
import collections
import importlib
import json
import os
import random
import sys
import time

from . import core


def _corpus(P):
    d = os.path.join(core.VERIF, 'corpus', P.PID)
    out = []
    if os.path.isdir(d):
        for fn in sorted(os.listdir(d)):
            if fn.endswith('.json'):
                j = json.load(open(os.path.join(d, fn), encoding='utf-8'))
                out.extend(j if isinstance(j, list) else [j])
    return out


GEN_OBLIGATION = {
    'QuantityImpl': 'Proofs/GenQuantityEq.vo', 'OpsImpl': 'Proofs/GenOpsEq.vo',
    'MoneyConvImpl': 'Proofs/GenMoneyConvEq.vo', 'ConvStackImpl': 'Proofs/GenConvStackEq.vo',
    'HashImpl': 'Proofs/GenHashEq.vo', 'EffectsImpl': 'Proofs/EffectsAtomic.vo',
    'RoundingImpl': 'Proofs/RoundingImplSpec.vo', 'AllocImpl': 'Proofs/GenAllocEq.vo',
    'RatesImpl': 'Proofs/GenRatesEq.vo', 'FractionImpl': 'Proofs/GenFractionEq.vo',
    'TermOpsImpl': 'Proofs/GenTermOpsEq.vo',
}


def run_check(P, tier, replay=None):
    t0 = time.time()
    pid = P.PID
    modname = P.__name__
    sd = core.seed()
    rng = random.Random(f"{pid}-{sd}-{tier}")
    lines = []           # VIOLATION / KNOWN-FINDING lines
    notes = []

    # 1. regenerate generated model parts
    gen_fail = core.regenerate()
    # a translator that fails closed breaks the obligation only for the properties
    # whose model / proofs depend on the generated module
    roots = [P.PROPERTY_FILE] + [t[:-1] for t in list(P.MODEL_TARGETS) + list(P.PROOF_TARGETS)]
    deps = getattr(P, 'GEN_DEPS', None)
    if deps is None:
        deps = core.gen_deps(roots)      # everything the Coq files import, transitively
    gen_fail = [g for g in gen_fail if g[0] in deps]
    # a generated model part a property depends on comes with its obligation: the proof that
    # the generated object equals (or, for effect programs, satisfies) what the theorems are about
    proof_targets = list(P.PROOF_TARGETS)
    for g in deps:
        t = GEN_OBLIGATION.get(g)
        if t and t not in proof_targets:
            proof_targets.append(t)
    # 2. build
    with core.BuildLock():
        # the executable model + correspondence harness first, then the proofs:
        # a broken proof must not stop the model from running
        build_ok, build_log = core.make(P.MODEL_TARGETS)
        proofs_ok, proofs_log = core.make(proof_targets)
        # 3. property theorems
        pf = None
        if proofs_ok:
            pf = core.check_property_file(P.PROPERTY_FILE)
        chk = None
        if proofs_ok and tier == 'thorough' and not replay and pf and not pf['rc']:
            chk = core.coqchk(P.PROPERTY_FILE)
    if not proofs_ok:
        build_log = (build_log or '') + proofs_log
    hyg = core.hygiene()
    obligations = ['model-regenerated', 'development-builds', 'no-axioms-or-admits']
    discharged = []
    if not gen_fail:
        discharged.append('model-regenerated')
    if build_ok and proofs_ok:
        discharged.append('development-builds')
    if not hyg:
        discharged.append('no-axioms-or-admits')
    if pf:
        obligations += pf['theorems']
        discharged += pf['discharged']
    else:
        obligations += ['property-file:' + P.PROPERTY_FILE]
    if chk is not None:
        obligations.append('coqchk-independent-recheck')
        if chk[0]:
            discharged.append('coqchk-independent-recheck')
    broken = [o for o in obligations if o not in discharged]

    # 4. cases on the implementation
    if replay:
        rp = json.load(open(replay, encoding='utf-8'))
        cases = rp['cases'] if rp.get('cases') else [rp['case']]
        n_corpus = 0
    else:
        corpus = _corpus(P)
        n_corpus = len(corpus)
        cases = corpus + P.gen_cases(rng, tier)
    results = core.run_impl(modname, 'impl_run', cases,
                            isolate=getattr(P, 'ISOLATE', True))

    # 5. comparison with the model inside Coq
    failing, errors = [], []
    corr_ran = False
    header = P.COQ_HEADER() if callable(P.COQ_HEADER) else P.COQ_HEADER
    if build_ok:
        terms = []
        for c, r in zip(cases, results):
            if core.HARNESS_EXC in r:
                terms.append(None)
                continue
            try:
                terms.append(P.coq_case(c, r))
            except Exception as e:      # noqa: a result the model's vocabulary cannot express
                r[core.HARNESS_EXC] = (f"result outside the model's vocabulary "
                                       f"({type(e).__name__}: {e}): {str(r)[:300]}")
                terms.append(None)
        idx = [i for i, t in enumerate(terms) if t is not None]
        if idx:
            f, errors = core.run_case_files(pid, header, [terms[i] for i in idx],
                                            P.COQ_CHECK,
                                            shard=getattr(P, 'SHARD', 400))
            failing = [idx[k] for k in f]
            corr_ran = True

    # 6. independent oracle on the implementation's results
    known = core.known_keys(pid)
    oracle_hits = []
    for i, (c, r) in enumerate(zip(cases, results)):
        if core.HARNESS_EXC in r:
            msg = ("the library raised outside every operation the check observes (while the "
                   "case was being set up) or returned something the model cannot express: "
                   + r[core.HARNESS_EXC].strip().splitlines()[-1][:300])
        else:
            try:
                msg = P.oracle(c, r)
            except Exception as e:      # noqa
                msg = (f"the result has a shape the reference evaluation does not expect "
                       f"({type(e).__name__}: {e}): {str(r)[:300]}")
        if msg:
            oracle_hits.append((i, msg))
    extra = getattr(P, 'extra_checks', None)
    if extra:
        for msg, payload in extra(tier):
            oracle_hits.append((None, msg, payload))

    # 7. verdict
    violations = 0
    seen_keys = set()

    def report(i, msg, payload=None, suffix=''):
        nonlocal violations
        case = cases[i] if i is not None else payload
        res = results[i] if i is not None else None
        key = None
        if hasattr(P, 'classify') and not (res is not None and core.HARNESS_EXC in res):
            key = P.classify(case, res, msg)
        if key in known:
            if key not in seen_keys:
                seen_keys.add(key)
                lines.append(f"KNOWN-FINDING: property={pid} {known[key]['what']}")
            return
        tag = key or msg[:60]
        if tag in seen_keys:
            return
        seen_keys.add(tag)
        if violations >= 8:
            violations += 1
            return
        model_txt = None
        if i is not None and build_ok and hasattr(P, 'coq_model_term'):
            try:
                model_txt = core.eval_in_coq(pid, header,
                                             P.coq_model_term(case, res))
            except Exception as e:      # noqa
                model_txt = f"(model evaluation failed: {e})"
        grp = None
        if isinstance(case, dict) and case.get('group') is not None:
            # the failing case needs its whole group (same process, in order)
            grp = [c for c in cases if isinstance(c, dict) and c.get('group') == case['group']]
        path = core.write_replay(pid, {
            'property': pid, 'what': msg, 'case': case, 'cases': grp, 'impl_result': res,
            'model_result': model_txt, 'seed': sd, 'tier': tier,
            'broken': broken + (['correspondence:' + P.COQ_CHECK] if failing or errors else [])})
        lines.append(f"VIOLATION property={pid} replay={path}{suffix}")
        violations += 1

    for hit in oracle_hits:
        if hit[0] is None:
            report(None, hit[1], hit[2])
        else:
            report(hit[0], hit[1])
    oracle_idx = {h[0] for h in oracle_hits}
    corr_only = [i for i in failing if i not in oracle_idx]
    unexplained_break = bool(broken) or bool(errors) or bool(corr_only)
    if unexplained_break and violations == 0:
        # proof or correspondence broke; the search (oracle over all cases,
        # corpus and directed batch) found no input on which the property
        # itself fails on the implementation
        what = []
        if broken:
            what.append("proof obligations not discharged: " + ", ".join(broken))
        if errors:
            what.append("correspondence files failed to evaluate: "
                        + "; ".join(e[0] for e in errors))
        if corr_only:
            what.append(f"model and implementation disagree on {len(corr_only)} case(s)")
        payload = {'property': pid, 'what': "; ".join(what), 'broken': broken,
                   'seed': sd, 'tier': tier,
                   'translator_failures': gen_fail, 'hygiene': hyg,
                   'build_log_tail': (build_log or '')[-3000:] if not (build_ok and proofs_ok) else '',
                   'property_log_tail': (pf['log'][-3000:] if pf and pf['rc'] else ''),
                   'corr_errors': errors[:3]}
        if corr_only:
            i = corr_only[0]
            payload['case'] = cases[i]
            payload['impl_result'] = results[i]
            payload['cases'] = [cases[k] for k in corr_only[:20]]
            if hasattr(P, 'coq_model_term'):
                try:
                    payload['model_result'] = core.eval_in_coq(
                        pid, header, P.coq_model_term(cases[i], results[i]))
                except Exception as e:      # noqa
                    payload['model_result'] = str(e)
        path = core.write_replay(pid, payload)
        lines.append(f"VIOLATION property={pid} replay={path} no-failing-input-found")
        violations += 1

    # 8. evidence
    hist = collections.Counter()
    nontrivial = set()
    for c, r in zip(cases, results):
        if core.HARNESS_EXC in r:
            hist['raised-outside-observation'] += 1
            continue
        # evidence only: a result shape the labelling does not expect (it occurs on
        # changed code) must not keep the verdict from being reported
        try:
            for lab in P.labels(c, r):
                hist[lab] += 1
            k = P.nontrivial_key(c, r)
        except Exception:       # noqa
            hist['unlabelled'] += 1
            k = None
        if k is not None:
            nontrivial.add(k)
    step = max(1, len(cases) // 4)
    samples = [{'case': cases[i], 'impl_result': results[i]}
               for i in range(n_corpus, len(cases), step)][:5]
    coverage = {
        'obligations': len(obligations), 'discharged': len(discharged),
        'obligation_names': obligations, 'undischarged': broken,
        'checker_cmd': f"cd /verif/coq && make && coqc -Q . QV {P.PROPERTY_FILE}"
                       "  (Print Assumptions after every theorem)",
        'trusted_base': core.TRUSTED_BASE + list(getattr(P, 'TRUSTED_EXTRA', [])),
        'axioms_per_theorem': pf['axioms'] if pf else {},
        'coqchk': (None if chk is None else
                   {'ok': chk[0], 'axioms': chk[1], 'seconds': round(chk[2], 1),
                    'cmd': 'coqchk -silent -o -Q . QV QV.' + P.PROPERTY_FILE[:-2].replace('/', '.')}),
        'evaluations': len(cases),
        'distinct_nontrivial': len(nontrivial),
        'rule': P.RULE,
        'samples': samples,
        'traces_validated_against_impl': len(cases) if corr_ran and not errors else 0,
        'model_vs_impl_mismatches': len(failing),
        'oracle_violations': len(oracle_hits),
        'corpus_cases': n_corpus,
        'input_distribution': dict(sorted(hist.items())),
        'exhaustive': bool(getattr(P, 'EXHAUSTIVE', {}).get(tier)),
        'exhaustive_domains': getattr(P, 'EXHAUSTIVE_NOTE', ''),
        'known_findings_seen': sorted(k for k in seen_keys if k in known),
    }
    core.write_evidence(pid, tier, coverage, time.time() - t0, violations,
                        list(getattr(P, 'ASSUMPTIONS', [])))
    for l in lines:
        print(l)
    ok = violations == 0
    print(f"{pid} [{tier}] obligations {len(discharged)}/{len(obligations)} "
          f"cases {len(cases)} mismatches {len(failing)} oracle-hits {len(oracle_hits)} "
          f"violations {violations} wall {time.time() - t0:.1f}s")
    if replay and cases:
        for c, r in zip(cases, results):
            print("case:", json.dumps(c, ensure_ascii=False))
            print("impl:", json.dumps(r, ensure_ascii=False))
            print("oracle:", P.oracle(c, r) or 'property holds on this input')
            if build_ok and hasattr(P, 'coq_model_term'):
                print("model:", core.eval_in_coq(pid, header, P.coq_model_term(c, r)))
    return 0 if ok else 1


def main(argv):
    import argparse
    ap = argparse.ArgumentParser()
    ap.add_argument('pid')
    ap.add_argument('--tier', default=os.environ.get('VERIF_TIER', 'quick'))
    ap.add_argument('--replay')
    a = ap.parse_args(argv)
    if core.SRC not in sys.path:
        sys.path.insert(0, core.SRC)
    P = importlib.import_module(f"props.{a.pid}")
    return run_check(P, a.tier, a.replay)
