"""Shared machinery of the /verif checks.

One check run (see DESIGN.md 2.1):
  regenerate Gen/*.v from /repo  ->  make (full .vo build)  ->  compile the
  property file and read Print Assumptions  ->  correspondence (implementation
  results written as Coq literals, compared with the model *inside Coq* by
  vm_compute)  ->  independent oracle  ->  verdict, evidence, replay.
"""
import concurrent.futures as cf
import fcntl
import hashlib
import json
import multiprocessing as mp
import os
import pickle
import random
import re
import subprocess
import sys
import time
import traceback
from fractions import Fraction

VERIF = os.path.dirname(os.path.dirname(os.path.abspath(__file__)))
COQ = os.path.join(VERIF, 'coq')
REPO = (os.environ.get('QUANTITY_REPO') or '/repo')
SRC = os.path.join(REPO, 'src')
# VERIF_EVIDENCE_DIR: trials of seeded changes write their evidence elsewhere, so that the
# committed evidence files only ever come from runs on the unchanged tree
EVID = os.environ.get('VERIF_EVIDENCE_DIR') or os.path.join(VERIF, 'evidence')
REPLAYS = os.path.join(EVID, 'replays')
NCPU = min(16, os.cpu_count() or 4)

ALLOWED_AXIOMS = ()      # every property theorem must be closed


def seed():
    try:
        return int(os.environ.get('VERIF_SEED', '0'))
    except ValueError:
        return 0


# --------------------------------------------------------------- Coq literals

def cz(n):
    n = int(n)
    return f"({n})%Z"


def cn(n):
    assert n >= 0
    return f"{int(n)}%N"


def cq(x):
    x = Fraction(x)
    return f"(({x.numerator})%Z # {x.denominator})"


def cbool(b):
    return 'true' if b else 'false'


def clist(items):
    return '[' + '; '.join(items) + ']'


def copt(x, f=lambda v: v):
    return 'None' if x is None else f"(Some {f(x)})"


def cstr(s):
    return clist([cn(ord(c)) for c in s])


def frac_json(x):
    x = Fraction(x)
    return f"{x.numerator}/{x.denominator}"


def frac_parse(s):
    return Fraction(s)


# --------------------------------------------------------------- build

def _write_if_changed(path, text):
    try:
        with open(path, encoding='utf-8') as f:
            if f.read() == text:
                return False
    except FileNotFoundError:
        pass
    os.makedirs(os.path.dirname(path), exist_ok=True)
    tmp = path + '.tmp%d' % os.getpid()
    with open(tmp, 'w', encoding='utf-8') as f:
        f.write(text)
    os.replace(tmp, path)
    return True


class BuildLock:
    def __enter__(self):
        self.f = open(os.path.join(COQ, '.buildlock'), 'w')
        fcntl.flock(self.f, fcntl.LOCK_EX)
        return self

    def __exit__(self, *a):
        fcntl.flock(self.f, fcntl.LOCK_UN)
        self.f.close()


def regenerate():
    """Re-translate the generated model parts from /repo's working tree.
    Returns list of (name, error) for translators that failed closed."""
    sys.path.insert(0, VERIF)
    failures = []
    from translate import GENERATORS
    for name, fn in GENERATORS:
        out = os.path.join(COQ, 'Gen', name + '.v')
        try:
            text = fn()
        except Exception as e:            # fail closed
            failures.append((name, f"{type(e).__name__}: {e}"))
            continue
        _write_if_changed(out, text)
    return failures


_REQ = re.compile(r'(?:From\s+QV\s+)?Require\s+(?:Import|Export)?\s*([^.]*(?:\.[A-Za-z_][^.\s]*)*)\.', re.S)


def gen_deps(roots):
    """Names of the generated modules (Gen/X.v) that the given Coq files depend
    on, directly or through other files of the development."""
    seen, todo, gens = set(), list(roots), set()
    while todo:
        rel = todo.pop()
        if rel in seen:
            continue
        seen.add(rel)
        try:
            text = _strip_comments(open(os.path.join(COQ, rel), encoding='utf-8').read())
        except FileNotFoundError:
            continue
        for m in re.finditer(r'\b((?:QV\.)?(?:Model|Gen|Proofs|Corr|Ref|Properties)\.[A-Za-z0-9_]+)', text):
            mod = m.group(1)
            if mod.startswith('QV.'):
                mod = mod[3:]
            d, name = mod.split('.', 1)
            if d == 'Gen':
                gens.add(name)
            todo.append(f"{d}/{name}.v")
    return gens


def make(targets=(), timeout=1500):
    """Full .vo build of the Coq project (never -vos). Returns (ok, log)."""
    mk, cp = os.path.join(COQ, 'Makefile'), os.path.join(COQ, '_CoqProject')
    if not os.path.exists(mk) or os.path.getmtime(mk) < os.path.getmtime(cp):
        subprocess.run(['coq_makefile', '-f', '_CoqProject', '-o', 'Makefile'],
                       cwd=COQ, check=True, stdout=subprocess.DEVNULL,
                       stderr=subprocess.DEVNULL)
    cmd = ['timeout', str(timeout), 'make', '-j%d' % NCPU] + list(targets)
    p = subprocess.run(cmd, cwd=COQ, stdout=subprocess.PIPE,
                       stderr=subprocess.STDOUT, text=True)
    return p.returncode == 0, p.stdout


def coqc(path, timeout=900):
    t0 = time.time()
    p = subprocess.run(['timeout', str(timeout), 'coqc', '-Q', '.', 'QV', path],
                       cwd=COQ, stdout=subprocess.PIPE, stderr=subprocess.STDOUT,
                       text=True)
    return p.returncode, p.stdout, time.time() - t0


_THM = re.compile(r'^\s*(Theorem|Example)\s+([A-Za-z0-9_\']+)', re.M)


def check_property_file(relpath):
    """Compile Properties/Cxx.v; return dict with obligations / discharged /
    axioms / log.  An obligation is a Theorem of the file; it is discharged
    when the file compiles and its Print Assumptions output is closed."""
    full = os.path.join(COQ, relpath)
    text = open(full, encoding='utf-8').read()
    names = [m.group(2) for m in _THM.finditer(text) if m.group(1) == 'Theorem']
    examples = [m.group(2) for m in _THM.finditer(text) if m.group(1) == 'Example']
    printed = re.findall(r'Print Assumptions\s+([A-Za-z0-9_\']+)\s*\.', text)
    rc, out, dt = coqc(relpath)
    res = {'theorems': names, 'examples': examples, 'rc': rc, 'log': out,
           'wall_s': dt, 'axioms': {}, 'discharged': [], 'undischarged': []}
    if rc != 0:
        res['undischarged'] = list(names)
        return res
    # outputs appear in file order, one block per Print Assumptions
    blocks = re.split(r'(?=Closed under the global context|Axioms:)', out)
    blocks = [b for b in blocks if b.startswith('Closed') or b.startswith('Axioms:')]
    for nm, b in zip(printed, blocks):
        if b.startswith('Closed'):
            res['axioms'][nm] = []
        else:
            res['axioms'][nm] = [l.split(':')[0].strip() for l in b.splitlines()[1:]
                                 if l and not l.startswith(' ') and ':' in l]
    for nm in names:
        ax = res['axioms'].get(nm)
        if ax is not None and all(a in ALLOWED_AXIOMS for a in ax):
            res['discharged'].append(nm)
        else:
            res['undischarged'].append(nm)
    return res


def coqchk(relpath, timeout=1500):
    """Re-check the compiled property file and everything it depends on with
    Coq's independent checker; returns (ok, axioms text, seconds)."""
    mod = 'QV.' + relpath[:-2].replace('/', '.')
    t0 = time.time()
    p = subprocess.run(['timeout', str(timeout), 'coqchk', '-silent', '-o', '-Q', '.', 'QV', mod],
                       cwd=COQ, stdout=subprocess.PIPE, stderr=subprocess.STDOUT, text=True)
    out = p.stdout
    m = re.search(r'\* Axioms:(.*?)\n\s*\n\* Constants', out, re.S)
    axioms = m.group(1).strip() if m else '(no summary)'
    clean = all(f"{k}: <none>" in out for k in
                ('Axioms', 'relying on type-in-type', 'relying on unsafe (co)fixpoints',
                 'positivity is assumed'))
    return p.returncode == 0 and clean, axioms, time.time() - t0


FORBIDDEN = re.compile(
    r'\b(Admitted|admit|Axiom|Axioms|Parameter|Parameters|Conjecture|'
    r'Hypothesis|Variable|Admit Obligations|bypass_check|Unset Guard|'
    r'Unset Positivity|Unset Universe|type-in-type|impredicative-set|'
    r'native_compute)\b')


def _strip_comments(text):
    out, depth, i = [], 0, 0
    while i < len(text):
        if text.startswith('(*', i):
            depth += 1
            i += 2
        elif text.startswith('*)', i) and depth:
            depth -= 1
            i += 2
        else:
            if depth == 0 or text[i] == '\n':
                out.append(text[i])
            i += 1
    return ''.join(out)


def hygiene():
    """No axioms/admits/unset checks anywhere in the development
    (Variable/Hypothesis are allowed inside Sections only)."""
    bad = []
    for root, _, files in os.walk(COQ):
        if os.path.basename(root) == 'Cases':
            continue
        for fn in sorted(files):
            if not fn.endswith('.v') and fn != '_CoqProject':
                continue
            text = _strip_comments(open(os.path.join(root, fn), encoding='utf-8').read())
            depth = 0
            for i, code in enumerate(text.split('\n'), 1):
                if re.match(r'\s*Section\b', code):
                    depth += 1
                if re.match(r'\s*End\b', code) and depth:
                    depth -= 1
                for m in FORBIDDEN.finditer(code):
                    w = m.group(1)
                    if w in ('Variable', 'Hypothesis') and depth > 0:
                        continue
                    bad.append(f"{os.path.relpath(os.path.join(root, fn), COQ)}:{i}: {w}")
    return bad


# --------------------------------------------------------------- implementation

def _child_run(fn, case, wfd):
    try:
        r = ('ok', fn(case))
    except BaseException as e:      # harness error, not an impl exception
        r = ('harness-error', ''.join(traceback.format_exception_only(type(e), e)))
    with os.fdopen(wfd, 'wb') as f:
        pickle.dump(r, f)
    os._exit(0)


def run_isolated(fn, case, timeout=120):
    """Run fn(case) in a forked child so that the library's global registries
    start from the parent's (pristine) state for every case."""
    rfd, wfd = os.pipe()
    pid = os.fork()
    if pid == 0:
        os.close(rfd)
        try:
            import signal
            signal.alarm(timeout)
        except Exception:
            pass
        _child_run(fn, case, wfd)
    os.close(wfd)
    with os.fdopen(rfd, 'rb') as f:
        data = f.read()
    os.waitpid(pid, 0)
    if not data:
        return ('harness-error', 'child died')
    return pickle.loads(data)


_POOL_FN = None
HARNESS_EXC = '__raised_outside_observation__'


def _pool_init(modname, fname, isolate):
    global _POOL_FN
    if SRC not in sys.path:
        sys.path.insert(0, SRC)
    mod = __import__(modname, fromlist=[fname])
    f = getattr(mod, fname)
    if hasattr(mod, 'impl_setup'):
        mod.impl_setup()
    _POOL_FN = (f, isolate)


def _run_group(group):
    f, _ = _POOL_FN
    return [f(c) for c in group]


def _pool_call(case):
    f, isolate = _POOL_FN
    if isinstance(case, list):
        # a group: the cases run one after the other in ONE fresh process, so that
        # process-global state (caches, default rounding mode) carries over
        return run_isolated(_run_group, case)
    if isolate:
        return run_isolated(f, case)
    try:
        return ('ok', f(case))
    except BaseException as e:
        return ('harness-error', ''.join(traceback.format_exception_only(type(e), e)))


def run_impl(modname, fname, cases, isolate=True, procs=NCPU):
    """Run the implementation side of every case.  Children are forked from
    fresh worker processes that imported quantity from /repo/src."""
    os.environ['PYTHONHASHSEED'] = '0'
    ctx = mp.get_context('spawn')
    # consecutive cases with the same 'group' key run in one process
    units, flat = [], cases
    for c in cases:
        g = c.get('group') if isinstance(c, dict) else None
        if g is not None and units and isinstance(units[-1], list) and units[-1][0].get('group') == g:
            units[-1].append(c)
        elif g is not None:
            units.append([c])
        else:
            units.append(c)
    cases = units
    chunk = max(1, min(64, len(cases) // (procs * 4) or 1))
    # ProcessPoolExecutor (not mp.Pool): a worker that dies breaks the pool with
    # an exception instead of hanging the check forever
    with cf.ProcessPoolExecutor(min(procs, max(1, len(cases))), mp_context=ctx,
                                initializer=_pool_init,
                                initargs=(modname, fname, isolate)) as pool:
        out = list(pool.map(_pool_call, cases, chunksize=chunk))
    res = []
    for unit, (tag, val) in zip(cases, out):
        if tag != 'ok':
            # the library raised where the harness observes nothing (e.g. while a
            # world is set up): behaviour the model does not predict.  The runner
            # reports the case as a violation (never happens on the unchanged tree)
            mark = {HARNESS_EXC: str(val)[-600:]}
            res.extend([mark] * len(unit) if isinstance(unit, list) else [mark])
            continue
        if isinstance(unit, list):
            res.extend(val)
        else:
            res.append(val)
    assert len(res) == len(flat)
    return res


# --------------------------------------------------------------- Coq cases

def run_case_files(pid, header, case_terms, check_fn, shard=500, timeout=900):
    """Write case files  Definition cases := [...]  and evaluate
    `failures check_fn cases` with vm_compute; return (failing indices, logs).
    `header` = Require lines; `case_terms` = list of Coq terms."""
    cdir = os.path.join(COQ, 'Cases')
    os.makedirs(cdir, exist_ok=True)
    for fn in os.listdir(cdir):
        if fn.startswith(pid + '_'):
            os.unlink(os.path.join(cdir, fn))
    files = []
    for k in range(0, len(case_terms), shard):
        name = f"{pid}_{k // shard}"
        body = [header, "Open Scope Z_scope.",
                "Definition cases := ["]
        body.append(";\n".join(case_terms[k:k + shard]))
        body.append("].")
        body.append(f"Definition bad := Eval vm_compute in (QV.Corr.Common.failures {check_fn} cases).")
        body.append("Print bad.")
        path = os.path.join(cdir, name + '.v')
        with open(path, 'w', encoding='utf-8') as f:
            f.write("\n".join(body) + "\n")
        files.append((k, os.path.join('Cases', name + '.v')))
    failing, logs, errors = [], [], []

    def one(item):
        k, rel = item
        rc, out, dt = coqc(rel, timeout=timeout)
        return k, rel, rc, out, dt
    with cf.ThreadPoolExecutor(NCPU) as ex:
        for k, rel, rc, out, dt in ex.map(one, files):
            if rc != 0:
                errors.append((rel, out[-2000:]))
                continue
            m = re.search(r'bad\s*=\s*(.*?)\s*:\s*list', out, re.S)
            if not m:
                errors.append((rel, out[-2000:]))
                continue
            for idx in re.findall(r'(\d+)%N', m.group(1)):
                failing.append(k + int(idx))
    return sorted(failing), errors


def eval_in_coq(pid, header, term, timeout=300):
    """Evaluate one Coq term with vm_compute and return the printed text."""
    cdir = os.path.join(COQ, 'Cases')
    os.makedirs(cdir, exist_ok=True)
    h = hashlib.sha1(term.encode()).hexdigest()[:10]
    rel = os.path.join('Cases', f"{pid}_eval_{h}.v")
    with open(os.path.join(COQ, rel), 'w', encoding='utf-8') as f:
        f.write(header + "\nOpen Scope Z_scope.\n"
                f"Definition it := Eval vm_compute in ({term}).\nPrint it.\n")
    rc, out, _ = coqc(rel, timeout=timeout)
    return out.strip()


# --------------------------------------------------------------- findings

def load_known():
    p = os.path.join(VERIF, 'known_findings.json')
    try:
        return json.load(open(p, encoding='utf-8'))
    except FileNotFoundError:
        return {'findings': []}


def known_keys(pid):
    return {f['key']: f for f in load_known()['findings']
            if f['property'] == pid and f.get('status') == 'known'}


# --------------------------------------------------------------- evidence

def write_replay(pid, payload):
    os.makedirs(REPLAYS, exist_ok=True)
    blob = json.dumps(payload, sort_keys=True, ensure_ascii=False, indent=1,
                      default=str)
    h = hashlib.sha1(blob.encode()).hexdigest()[:12]
    path = os.path.join(REPLAYS, f"{pid}-{h}.json")
    with open(path, 'w', encoding='utf-8') as f:
        f.write(blob + "\n")
    return path


def write_evidence(pid, tier, coverage, wall, violations, assumptions):
    os.makedirs(EVID, exist_ok=True)
    ev = {'property_id': pid, 'tier': tier, 'seed': seed(), 'level': 'proof',
          'coverage': coverage, 'assumptions': assumptions,
          'wall_s': round(wall, 2), 'violations': violations}
    path = os.path.join(EVID, pid + '.json')
    with open(path + '.tmp', 'w', encoding='utf-8') as f:
        json.dump(ev, f, indent=1, ensure_ascii=False, default=str)
        f.write("\n")
    os.replace(path + '.tmp', path)
    return path


TRUSTED_BASE = [
    "Coq 8.16.1 kernel incl. its vm_compute virtual machine (no native_compute)",
    "axioms: none (every property theorem: Print Assumptions = 'Closed under the global context')",
    "translators/extractors under /verif/translate (fail-closed) and CPython's ast",
    "correspondence harness /verif/vlib (case generators, implementation runner, Coq literal writer) and CPython 3.12 running /repo/src",
    "modelled, validated by correspondence only: decimalfp (Decimal arithmetic/rounding/parsing), fractions.Fraction, dict/hash, str methods, datetime",
    "no extraction: no Extract Constant / Extract Inductive directives are used",
]
