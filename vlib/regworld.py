"""Reference bookkeeping of declaration scripts, independent of the library
and of the Coq model: pure Python, Fractions and dicts.  Used to GENERATE
scripts (knowing what exists and what a step should do) and as the ORACLE of
C02 / C10 / C15 / C16 / C17 (what value / type / directory the property text
prescribes)."""
from fractions import Fraction as F

from . import regops as R
from .qtyops import num_value, frs


def vmul(a, b):
    out = dict(a)
    for k, e in b.items():
        out[k] = out.get(k, 0) + e
        if out[k] == 0:
            del out[k]
    return out


def vpow(a, k):
    return {} if k == 0 else {x: e * k for x, e in a.items()}


def vkey(a):
    return tuple(sorted(a.items()))


class RefWorld:
    """What the property text says a sequence of declarations means."""

    def __init__(self):
        self.classes = {'Quantity': dict(name='Quantity', base=True, cdef=None, dims={'Quantity': 1},
                                         ref=None, quantum=None, units=[], money=False)}
        self.units = {}            # sym -> dict(cls, base, factor, dims, scaled)
        self.by_dims = {vkey({'Quantity': 1}): 'Quantity'}
        self.order = []            # unit symbols in registration order

    # -- helpers
    def unit_value(self, sym):
        u = self.units[sym]
        return u['factor'], u['dims']

    def term_value(self, items):
        f, d = F(1), {}
        for e, x in items:
            if e[0] == 'n':
                v = num_value(e[1])
                if v == 0 and x < 0:
                    raise ZeroDivisionError
                f *= v ** x
            else:
                uf, ud = self.unit_value(e[1])
                f *= uf ** x
                d = vmul(d, vpow(ud, x))
        return f, d

    def cls_dims(self, cdef):
        d = {}
        for c, e in cdef:
            d = vmul(d, vpow(self.classes[c]['dims'], e))
        return d

    def ref_term(self, cdef):
        items = []
        for c, e in cdef:
            r = self.classes[c]['ref']
            if r is None:
                return None
            items.append((r, e))
        return items

    def find_by_value(self, f, d):
        """first registered unit whose definition denotes exactly (f, d)"""
        for s in self.order:
            u = self.units[s]
            if u['factor'] == f and u['dims'] == d:
                return s
        return None

    def resolve(self, f, d):
        s = self.find_by_value(f, d)
        if s is not None:
            return F(1), s
        if not d:
            return f, None
        s = self.find_by_value(F(1), d)
        if s is None:
            raise KeyError
        return f, s

    def _add_unit(self, cls, sym, base, factor, dims, sf=None):
        c = self.classes[cls]
        self.units[sym] = dict(cls=cls, base=base, factor=factor, dims=dims,
                               scaled=(c['ref'] is not None and not base) or sym == c['ref'],
                               sf=sf)
        self.order.append(sym)
        c['units'].append(sym)

    # -- what a declaration should do: returns None or the expected error class
    def apply(self, d, dm='MHEVEN'):
        k = d['d']
        if k == 'money':
            self.classes['Money'] = dict(name='Money', base=True, cdef=None, dims={'Money': 1},
                                         ref=None, quantum=None, units=[], money=True)
            self.by_dims[vkey({'Money': 1})] = 'Money'
            return None
        if k == 'cls':
            name, cdef = d['name'], d.get('def')
            ref = d.get('ref') or None
            rterm = None
            if cdef is not None:
                if not cdef:
                    return 'EAssertion'
                rterm = self.ref_term(cdef)
                if ref is None and rterm is not None:
                    ref = R.fmt_term(rterm) or None
            if d.get('quantum') is not None and ref is None:
                return 'EAssertion'
            dims = {name: 1} if cdef is None else self.cls_dims(cdef)
            if not dims:
                return 'EAssertion'
            if cdef is not None and vkey(dims) in self.by_dims:
                return 'EValueError'
            if ref is not None and ref in self.units:
                return 'EValueError'
            self.classes[name] = dict(name=name, base=cdef is None, cdef=cdef, dims=dims, ref=ref,
                                      quantum=None if d.get('quantum') is None else F(d['quantum']),
                                      units=[], money=False)
            self.by_dims[vkey(dims)] = name
            if ref is not None:
                if rterm is None:
                    self._add_unit(name, ref, True, F(1), {ref: 1})
                else:
                    f, dd = F(1), {}
                    for r, e in rterm:
                        uf, ud = self.unit_value(r)
                        f *= uf ** e
                        dd = vmul(dd, vpow(ud, e))
                    self._add_unit(name, ref, False, f, dd)
            return None
        if k == 'unit':
            c = self.classes[d['cls']]
            sym = d['sym']
            if sym == '':
                return 'EValueError'
            df = d['def']
            if df is None:
                if sym in self.units:
                    return 'EValueError'
                self._add_unit(c['name'], sym, True, F(1), {sym: 1})
                return None
            if df[0] == 'qty':
                u = self.units[df[2]]
                if u['cls'] != c['name']:
                    return 'ETypeError'
                a = num_value(df[1])
                qu = self.unit_quantum(df[2])
                if qu is not None:
                    from .pyround import to_quantum
                    a = to_quantum(dm, a, qu)
                f, dd = a * u['factor'], dict(u['dims'])
            else:
                f, dd = self.term_value(df[1])
                try:
                    _, w = self.resolve(f, dd)
                except KeyError:
                    return 'EValueError'
                if w is None or self.units[w]['cls'] != c['name']:
                    return 'EValueError'
            if sym in self.units:
                return 'EValueError'
            self._add_unit(c['name'], sym, False, f, dd)
            return None
        if k == 'derive':
            c = self.classes[d['cls']]
            if c['base']:
                return 'ETypeError'
            if len(d['units']) != len(c['cdef']):
                return 'EValueError'
            items = []
            for (cn_, e), s in zip(c['cdef'], d['units']):
                if self.units[s]['cls'] != cn_:
                    return 'EValueError'
                items.append((['u', s], e))
            f, dd = self.term_value(items)
            sym = d.get('sym')
            if sym is None:
                sym = R.fmt_term([(s, e) for (_, e), s in zip(c['cdef'], d['units'])])
            if sym == '':
                return 'EValueError'
            if sym in self.units:
                return 'EValueError'
            self._add_unit(c['name'], sym, False, f, dd)
            return None
        if k == 'currency':
            tag, val = R.currency_params(d.get('minor'), d.get('sf'))
            if tag == 'err':
                return val
            if d['sym'] == '':
                return 'EValueError'
            if d['sym'] in self.units:
                return 'EValueError'
            self._add_unit('Money', d['sym'], True, F(1), {d['sym']: 1}, sf=val)
            return None
        raise ValueError(k)

    # -- derived facts
    def scale(self, sym):
        """scale relative to the reference unit of the unit's type (None if the
        type has none or the unit has no definition)"""
        u = self.units[sym]
        c = self.classes[u['cls']]
        if c['ref'] is None:
            return None
        if sym == c['ref']:
            return F(1)
        if u['base']:
            return None
        return u['factor']       # reference units denote factor 1 of their base units

    def unit_quantum(self, sym):
        u = self.units[sym]
        if u.get('sf') is not None:
            return u['sf']
        c = self.classes[u['cls']]
        sc = self.scale(sym)
        if c['quantum'] is None or sc is None:
            return None
        return c['quantum'] / sc

    def cls_of_dims(self, dims_over_units):
        """class whose dimension equals that of a vector over base UNITS"""
        d = {}
        for s, e in dims_over_units.items():
            d = vmul(d, vpow(self.classes[self.units[s]['cls']]['dims'], e))
        return self.by_dims.get(vkey(d))


def replay(case):
    """RefWorld after the case's script (predefined prefix included); also the
    expected outcome of every step of the case's own script."""
    w = RefWorld()
    if case.get('pre'):
        for d in R.predefined_script():
            e = w.apply(d, case['dm'])
            assert e is None, (d, e)
    exp = []
    for d in case['script']:
        try:
            exp.append(w.apply(d, case['dm']))
        except KeyError:
            exp.append('EKeyError')
    return w, exp


# ------------------------------------------------------------------ generation

FACTORS = ['2/1', '3/1', '10/1', '12/1', '60/1', '1000/1', '1024/1', '1/2', '1/4', '5/2',
           '254/100', '3048/10000', '45359237/100000000', '1/3', '22/7', '5/18']


def gen_world(rng, tag, n_base=None, quantized_p=0.25, noref_p=0.15):
    """Valid declaration script: base types (mostly with reference unit), chains
    of scaled units, derived types over them (sometimes quantized, sometimes
    with explicit reference symbol), units of derived types by derive / term /
    scaling.  Returns (script, RefWorld)."""
    w = RefWorld()
    script = []

    def emit(d):
        e = w.apply(d)
        assert e is None, (d, e)
        script.append(d)
    nb = n_base or rng.choice([2, 2, 3])
    bases = []
    for i in range(nb):
        name = f"B{tag}{i}"
        ref = None if rng.random() < noref_p else f"{tag}{i}r"
        emit({'d': 'cls', 'name': name, 'def': None, 'ref': ref, 'quantum': None})
        bases.append(name)
        for j in range(rng.randint(1, 3)):
            sym = f"{tag}{i}u{j}"
            if ref is None:
                emit({'d': 'unit', 'cls': name, 'sym': sym, 'def': None})
            else:
                base = rng.choice(w.classes[name]['units'])
                f = rng.choice(FACTORS)
                kind = 'dec' if _is_dec(F(f)) and rng.random() < 0.6 else 'frac'
                emit({'d': 'unit', 'cls': name, 'sym': sym, 'def': ['qty', [kind, f], base]})
        if ref is not None and rng.random() < 0.5:
            # units given by a TERM number x unit, the number a plain int or a fraction
            # (two int scales: their ratio must not become a float, finding F21)
            for j in range(2):
                base = rng.choice(w.classes[name]['units'])
                num = rng.choice([['int', '1000/1'], ['int', '3/1'], ['int', '12/1'],
                                  ['frac', '1/3'], ['int', '7/1']])
                emit({'d': 'unit', 'cls': name, 'sym': f"{tag}{i}t{j}",
                      'def': ['term', [[['n', num], 1], [['u', base], 1]]]})
    nd = rng.randint(1, 4)
    for i in range(nd):
        for _ in range(6):
            ks = rng.sample(bases, rng.choice([1, 1, 2, 2, min(3, nb)]))
            cdef = [[c, rng.choice([1, 1, 2, -1, -1, -2, 3])] for c in ks]
            dims = w.cls_dims(cdef)
            if dims and vkey(dims) not in w.by_dims:
                break
        else:
            continue
        name = f"D{tag}{i}"
        has_ref = all(w.classes[c]['ref'] for c, _ in cdef)
        quantum = None
        ref = None
        if has_ref and rng.random() < 0.25:
            ref = f"{tag}d{i}r"
        if has_ref and rng.random() < quantized_p:
            quantum = rng.choice(['1/1', '1/8', '1/100', '7/1', '1/3'])
        try:
            emit({'d': 'cls', 'name': name, 'def': cdef, 'ref': ref, 'quantum': quantum})
        except (AssertionError, IndexError):
            continue
        for j in range(rng.randint(0, 2)):
            us = [rng.choice(w.classes[c]['units']) for c, _ in cdef]
            sym = None if rng.random() < 0.6 else f"{tag}d{i}u{j}"
            d = {'d': 'derive', 'cls': name, 'units': us, 'sym': sym}
            try:
                e = w.apply(d)
            except IndexError:
                continue
            if e is None:
                script.append(d)
        # a unit given by a term  number x unit x unit**(+-1)  over units of the
        # component types: the product / quotient of these two units is NOT that unit
        # (seeded C17-i: operation cache pre-seeded from the definition, factor ignored)
        if len(cdef) == 2 and cdef[0][1] == 1 and cdef[1][1] in (1, -1) and has_ref \
                and rng.random() < 0.6:
            ra = rng.choice([u for u in w.classes[cdef[0][0]]['units'] if w.scale(u) is not None])
            rb = rng.choice([u for u in w.classes[cdef[1][0]]['units'] if w.scale(u) is not None])
            num = rng.choice([['dec', '381/1250'], ['int', '60/1'], ['frac', '1/3']])
            d = {'d': 'unit', 'cls': name, 'sym': f"{tag}d{i}t",
                 'def': ['term', [[['n', num], 1], [['u', ra], 1], [['u', rb], cdef[1][1]]]]}
            try:
                if w.apply(d) is None:
                    script.append(d)
            except Exception:       # noqa
                pass
    return script, w


def _is_dec(f):
    d = f.denominator
    for p in (2, 5):
        while d % p == 0:
            d //= p
    return d == 1


# ------------------------------------------------------------------ histories with faults

def gen_history(rng, tag, n_steps=None, fault_p=0.3):
    """Declaration history with deliberately invalid steps mixed in.  Every
    class declaration uses a fresh name; invalid steps only refer to classes
    and units that exist, so that the implementation raises the library's own
    exception.  Returns (script, RefWorld after it, list of expected outcomes)."""
    w = RefWorld()
    script, exp = [], []
    n_steps = n_steps or rng.randint(4, 22)
    counter = [0]

    def fresh(prefix):
        counter[0] += 1
        return f"{prefix}{tag}{counter[0]}"

    def push(d):
        try:
            e = w.apply(d)
        except (IndexError, ZeroDivisionError, KeyError):
            return False
        script.append(d)
        exp.append(e)
        return True

    def classes(pred=lambda c: True):
        # Money's own new_unit has another signature: currencies are declared by 'currency'
        return [c for n, c in w.classes.items() if n != 'Quantity' and not c['money'] and pred(c)]

    # seed: one base type with reference unit
    push({'d': 'cls', 'name': fresh('B'), 'def': None, 'ref': fresh('r'), 'quantum': None})
    money = rng.random() < 0.4
    if money:
        push({'d': 'money'})
    while len(script) < n_steps:
        fault = rng.random() < fault_p
        kind = rng.choice(['base', 'derived', 'scaled', 'scaled', 'term', 'derive', 'derive', 'free']
                          + (['currency', 'currency'] if money else []))
        cs = classes()
        if kind == 'currency':
            d = {'d': 'currency', 'sym': fresh('C').upper(), 'minor': rng.choice([None, 0, 2, 3]),
                 'sf': None}
            if rng.random() < 0.4:
                d['sf'] = rng.choice(['1/100', '1/20', '1/1000', '1/2'])
                d['minor'] = None if rng.random() < 0.6 else \
                    {'1/100': 2, '1/20': 2, '1/1000': 3, '1/2': 1}[d['sf']]
            if fault:
                f = rng.choice(['dupsym', 'empty', 'negminor', 'badsf', 'sfmismatch', 'sfone'])
                if f == 'dupsym' and w.order:
                    d['sym'] = rng.choice(w.order)
                elif f == 'empty':
                    d['sym'] = ''
                elif f == 'negminor':
                    d['minor'], d['sf'] = -1, None
                elif f == 'badsf':
                    d['minor'], d['sf'] = None, rng.choice(['3/100', '0/1', '-1/100', '7/1'])
                elif f == 'sfmismatch':
                    d['minor'], d['sf'] = 3, '1/100'
                else:
                    d['minor'], d['sf'] = None, '1/1'
            push(d)
            continue
        if kind == 'base':
            ref = rng.choice([None, fresh('r'), fresh('r')])
            d = {'d': 'cls', 'name': fresh('B'), 'def': None, 'ref': ref, 'quantum': None}
            if fault:
                f = rng.choice(['dupsym', 'quantum-noref', 'emptyref'])
                if f == 'dupsym' and w.order:
                    d['ref'] = rng.choice(w.order)
                elif f == 'quantum-noref':
                    d['ref'], d['quantum'] = None, '1/8'
                else:
                    d['ref'] = ''
            push(d)
        elif kind == 'derived':
            bs = [c['name'] for c in cs if c['base']] + (['Money'] if money else [])
            if not bs:
                continue
            ks = rng.sample(bs, min(len(bs), rng.choice([1, 1, 2, 2, 3])))
            cdef = [[c, rng.choice([1, 1, 2, -1, -1, -2, 3])] for c in ks]
            d = {'d': 'cls', 'name': fresh('D'), 'def': cdef, 'ref': None, 'quantum': None}
            if all(w.classes[c]['ref'] for c, _ in cdef):
                if rng.random() < 0.25:
                    d['ref'] = fresh('r')
                if rng.random() < 0.25:
                    d['quantum'] = rng.choice(['1/1', '1/8', '1/100'])
            if fault:
                f = rng.choice(['dupdim', 'dupdim', 'dupdim-ref', 'dupsym', 'cancel', 'cancel2',
                                'quantum-noref'])
                taken = [c for c in cs if not c['base']]
                if f == 'cancel2' and not taken:
                    f = 'cancel'
                if f in ('dupdim', 'dupdim-ref') and taken:
                    d['def'] = [list(x) for x in rng.choice(taken)['cdef']]
                    d['quantum'] = None
                    d['ref'] = fresh('r') if f == 'dupdim-ref' else None
                elif f == 'dupsym' and w.order:
                    d['ref'] = rng.choice(w.order)
                elif f == 'cancel':
                    d['def'] = [[ks[0], 1], [ks[0], -1]]
                    d['ref'], d['quantum'] = None, None
                elif f == 'cancel2':
                    # cancels only after normalisation: a derived type over its own components
                    # (Area / Length**2), possibly with an own reference symbol (finding F23)
                    t = rng.choice(taken)
                    d['def'] = [[t['name'], 1]] + [[c, -e] for c, e in t['cdef']]
                    d['quantum'] = None
                    d['ref'] = fresh('r') if rng.random() < 0.5 else None
                elif f == 'quantum-noref':
                    nr = [c['name'] for c in cs if c['base'] and c['ref'] is None]
                    if nr:
                        d['def'] = [[nr[0], 2]]
                        d['ref'], d['quantum'] = None, '1/1'
            push(d)
        elif kind in ('scaled', 'free'):
            cands = [c for c in cs if c['units']] if kind == 'scaled' else \
                [c for c in cs if c['ref'] is None]
            if not cands:
                continue
            c = rng.choice(cands)
            sym = fresh('u')
            if kind == 'free':
                d = {'d': 'unit', 'cls': c['name'], 'sym': sym, 'def': None}
            else:
                base = rng.choice(c['units'])
                if w.scale(base) is None and c['ref'] is not None:
                    continue
                f = rng.choice(FACTORS)
                qu = w.unit_quantum(base)
                if qu is not None:            # keep definitions on the grid
                    f = frs(F(rng.choice([1, 2, 8, 10, 100])) * qu)
                kind2 = 'dec' if _is_dec(F(f)) and rng.random() < 0.6 else 'frac'
                d = {'d': 'unit', 'cls': c['name'], 'sym': sym, 'def': ['qty', [kind2, f], base]}
            if fault:
                f = rng.choice(['dupsym', 'empty', 'othercls'])
                if f == 'dupsym' and w.order:
                    d['sym'] = rng.choice(w.order)
                elif f == 'empty':
                    d['sym'] = ''
                elif f == 'othercls' and d['def'] is not None:
                    others = [s for s in w.order if w.units[s]['cls'] != c['name']]
                    if others:
                        d['def'] = ['qty', ['frac', '2/1'], rng.choice(others)]
            push(d)
        elif kind == 'term':
            ders = [c for c in cs if not c['base'] and c['units'] is not None]
            if not ders:
                continue
            c = rng.choice(ders)
            try:
                us = [rng.choice(w.classes[b]['units']) for b, _ in c['cdef']]
            except IndexError:
                continue
            if any(w.scale(u) is None and w.classes[w.units[u]['cls']]['ref'] is not None
                   for u in us):
                continue
            # sometimes exactly the units of a unit derived earlier for this type (the new
            # unit's scale then coincides with an existing non-reference unit)
            earlier = [d for d in script if d['d'] == 'derive' and d['cls'] == c['name']
                       and len(d['units']) == len(c['cdef']) and all(x in w.units for x in d['units'])]
            reuse = earlier and rng.random() < 0.4
            if reuse:
                us = list(rng.choice(earlier)['units'])
            items = [[['u', u], e] for u, (_, e) in zip(us, c['cdef'])]
            if rng.random() < 0.5:
                # the same type through two DIFFERENT units (mi/(h*s) for Length/Duration**2):
                # the general path of the term reduction (seeded C01-h)
                for k, (u, (b, e)) in enumerate(zip(us, c['cdef'])):
                    others = [x for x in w.classes[b]['units'] if x != u
                              and (w.scale(x) is not None or w.classes[b]['ref'] is None)]
                    if abs(e) >= 2 and others:
                        sgn = 1 if e > 0 else -1
                        items[k] = [['u', u], e - sgn]
                        items.insert(k + 1, [['u', rng.choice(others)], sgn])
                        break
            r = rng.random()
            if reuse and r < 0.7:
                pass
            elif r < 0.35:
                items.insert(0, [['n', ['frac', rng.choice(FACTORS)]], 1])
            elif r < 0.45:
                items.insert(0, [['n', ['int', rng.choice(['1000/1', '3/1', '12/1'])]], 1])
            elif r < 0.6:
                # plain int with a negative exponent (exact power needed)
                items.insert(0, [['n', ['int', rng.choice(['10/1', '2/1', '3/1', '60/1'])]],
                                 rng.choice([-1, -2, -3])])
            d = {'d': 'unit', 'cls': c['name'], 'sym': fresh('t'), 'def': ['term', items]}
            if fault:
                f = rng.choice(['wrongdim', 'wrongcls', 'dupsym'])
                if f == 'wrongdim':
                    items[-1][1] = items[-1][1] + 1
                elif f == 'wrongcls':
                    others = [k for k in cs if k['name'] != c['name']]
                    if others:
                        d['cls'] = rng.choice(others)['name']
                elif w.order:
                    d['sym'] = rng.choice(w.order)
            push(d)
        else:
            ders = [c for c in cs if not c['base']]
            if not ders:
                continue
            c = rng.choice(ders)
            try:
                us = [rng.choice(w.classes[b]['units']) for b, _ in c['cdef']]
            except IndexError:
                continue
            if c['ref'] is not None and any(w.scale(u) is None for u in us):
                continue
            d = {'d': 'derive', 'cls': c['name'], 'units': us,
                 'sym': None if rng.random() < 0.6 else fresh('v')}
            if fault:
                f = rng.choice(['count', 'mismatch', 'base', 'dupsym', 'empty'])
                if f == 'count':
                    d['units'] = us + [us[0]]
                elif f == 'mismatch':
                    others = [s for s in w.order if w.units[s]['cls'] != c['cdef'][0][0]]
                    if others:
                        d['units'] = [rng.choice(others)] + us[1:]
                elif f == 'base':
                    bs = [k for k in cs if k['base'] and k['units']]
                    if bs:
                        b = rng.choice(bs)
                        d = {'d': 'derive', 'cls': b['name'], 'units': [b['units'][0]], 'sym': None}
                elif f == 'dupsym' and w.order:
                    d['sym'] = rng.choice(w.order)
                else:
                    d['sym'] = ''
            push(d)
    return script, w, exp
