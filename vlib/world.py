"""Worlds: sets of quantity types and units against which cases run.

A world is JSON-able.  It can be (a) instantiated on the implementation inside
a child process and (b) described to the model as a table of unit *views*
whose scales / quanta are computed here **independently of the library**
(from vlib/siref.py for the predefined catalogue, from the declaration script
for user-declared types).

world = {'predefined': bool,
         'classes': [ {'name', 'ref': sym|None, 'quantum': 'n/d'|None,
                       'units': [ {'sym', 'factor': 'n/d', 'fkind': 'dec'|'frac'|'int',
                                   'base': sym } ... ]        # scaled units
                       'free': [sym...]                       # units w/o definition
                     } ... ]}
"""
from fractions import Fraction

from . import siref
from .core import cn, cq, copt, cbool, clist

ERR_ORDER = [
    ('IncompatibleUnitsError', 'EIncompatibleUnits'),
    ('UndefinedResultError', 'EUndefinedResult'),
    ('UnitConversionError', 'EUnitConversion'),
    ('QuantityError', 'EQuantityError'),
    ('TypeError', 'ETypeError'),
    ('ValueError', 'EValueError'),
    ('AssertionError', 'EAssertion'),
    ('ZeroDivisionError', 'EZeroDivision'),
    ('KeyError', 'EKeyError'),
    ('IndexError', 'EIndexError'),
]


def err_name(exc):
    names = [c.__name__ for c in type(exc).__mro__]
    for py, coq in ERR_ORDER:
        if py in names:
            return coq
    return 'EOther'


# ------------------------------------------------------------ model side

class Views:
    """Unit views of a world for the model: ids, classes, scales, quanta."""

    def __init__(self, world):
        self.units = {}     # sym -> dict(id, cls, has_ref, scale, quantum)
        self.cls_ids = {}
        if world.get('predefined'):
            for sym, (cls, sc) in siref.REF.items():
                q = siref.QUANTUM.get(cls)
                self._add(sym, cls, True, sc, None if q is None else q / sc)
            for sym in siref.TEMPERATURE:
                self._add(sym, 'Temperature', False, None, None)
        for c in world.get('classes', []):
            ref = c.get('ref')
            qn = Fraction(c['quantum']) if c.get('quantum') else None
            if ref:
                self._add(ref, c['name'], True, Fraction(1), qn)
            for u in c.get('units', []):
                sc = Fraction(u['factor']) * self.units[u['base']]['scale']
                self._add(u['sym'], c['name'], bool(ref), sc,
                          None if qn is None else qn / sc)
            for s in c.get('free', []):
                self._add(s, c['name'], bool(ref), None, None)

        if world.get('currencies'):
            from . import iso4217
            table, _ = iso4217.load()
            for code in world['currencies']:
                self._add(code, 'Money', False, None, Fraction(1, 10 ** table[code][1]))
        for c in world.get('user_currencies', []):
            self._add(c['sym'], 'Money', False, None, Fraction(c['fraction']))

    def _add(self, sym, cls, has_ref, scale, quantum):
        assert sym not in self.units, sym
        cid = self.cls_ids.setdefault(cls, len(self.cls_ids))
        self.units[sym] = dict(id=len(self.units), cls=cid, clsname=cls,
                               has_ref=has_ref, scale=scale, quantum=quantum)

    def coq(self, sym):
        u = self.units[sym]
        return (f"(mkUnit {cn(u['id'])} {cn(u['cls'])} {cbool(u['has_ref'])} "
                f"{copt(u['scale'], cq)} {copt(u['quantum'], cq)})")

    def uid(self, sym):
        return self.units[sym]['id']


# ------------------------------------------------------------ impl side

def number(spec):
    """('dec'|'frac'|'int'|'float'|'stddec', 'n/d' or repr) -> Python number."""
    from decimalfp import Decimal
    kind, val = spec
    if kind == 'dec':
        return Decimal(Fraction(val).numerator) / Decimal(Fraction(val).denominator) \
            if _is_decimal(Fraction(val)) else Fraction(val)
    if kind == 'frac':
        return Fraction(val)
    if kind == 'int':
        return int(Fraction(val))
    if kind == 'float':
        return float.fromhex(val)
    if kind == 'stddec':
        import decimal
        f = Fraction(val)
        # exact whatever the number of digits (stdlib division would round to the context's
        # 28 digits): write the decimal literal
        n, d, k = f.numerator, f.denominator, 0
        while k < 400 and (10 ** k) % d:
            k += 1
        if (10 ** k) % d == 0:
            n, d = n * (10 ** k // d), 1
            digits = str(abs(n)).rjust(k + 1, '0')
            lit = ('-' if n < 0 else '') + (digits[:-k] + '.' + digits[-k:] if k else digits)
            return decimal.Decimal(lit)
        return decimal.Decimal(f.numerator) / decimal.Decimal(f.denominator)
    raise ValueError(kind)


def _is_decimal(f):
    d = f.denominator
    for p in (2, 5):
        while d % p == 0:
            d //= p
    return d == 1


def is_decimal(f):
    return _is_decimal(Fraction(f))


def instantiate(world):
    """Declare the world on the implementation; returns sym -> Unit and
    name -> class.  Call inside an isolated child."""
    import quantity
    from quantity import Quantity
    units, classes = {}, {}
    if world.get('predefined'):
        import quantity.predefined as pd
        for name in pd.__all__:
            o = getattr(pd, name)
            if isinstance(o, quantity.Unit):
                units[o.symbol] = o
            else:
                classes[name] = o
    if world.get('currencies') or world.get('user_currencies'):
        from quantity.money import Money
        classes['Money'] = Money
        for code in world.get('currencies', []):
            units[code] = Money.register_currency(code)
        for c in world.get('user_currencies', []):
            kw = {}
            if c.get('minor') is not None:
                kw['minor_unit'] = c['minor']
            if c.get('given_fraction'):
                kw['smallest_fraction'] = number(('dec', c['fraction']))
            units[c['sym']] = Money.new_unit(c['sym'], c['sym'] + '-name', **kw)
    meta = type(Quantity)
    for c in world.get('classes', []):
        kw = {}
        if c.get('ref'):
            kw['ref_unit_symbol'] = c['ref']
            kw['ref_unit_name'] = c['ref'] + '-name'
        if c.get('quantum'):
            kw['quantum'] = number((c.get('qkind', 'frac'), c['quantum']))
        cls = meta(c['name'], (Quantity,), {}, **kw)
        classes[c['name']] = cls
        if c.get('ref'):
            units[c['ref']] = cls.ref_unit
        for u in c.get('units', []):
            f = number((u.get('fkind', 'frac'), u['factor']))
            if u.get('via') == 'term':
                # defined by a term  number x unit  (the number possibly a plain int)
                from quantity.term import Term
                if u.get('npow'):
                    # number ** k x unit, e.g. (60, -1) or (2, 10): `factor` is the power's value
                    nb, nk = u['npow']
                    items = [(number(('int', nb)), nk), (units[u['base']], 1)]
                else:
                    items = [(f, 1), (units[u['base']], 1)]
                units[u['sym']] = cls.new_unit(u['sym'], u['sym'] + '-name', Term(items))
            else:
                units[u['sym']] = cls.new_unit(u['sym'], u['sym'] + '-name',
                                               f * units[u['base']])
        for s in c.get('free', []):
            units[s] = cls.new_unit(s, s + '-name')
    return units, classes


def observe(r):
    """Observable form of a result: what a user sees through the public API."""
    import quantity
    from numbers import Rational
    if isinstance(r, quantity.Quantity):
        a = r.amount
        return {'k': 'qty', 'cls': type(r).__name__, 'sym': r.unit.symbol,
                'amt': _num(a), 'float': isinstance(a, float),
                'repr': type(a).__name__}
    if isinstance(r, bool):
        return {'k': 'bool', 'v': r}
    if isinstance(r, float):
        return {'k': 'float', 'v': r.hex()}
    if isinstance(r, Rational):
        return {'k': 'num', 'v': _num(r), 'repr': type(r).__name__}
    if r is None:
        return {'k': 'none'}
    if r is NotImplemented:
        return {'k': 'notimpl'}
    return {'k': 'other', 'v': repr(r)}


def _num(a):
    if isinstance(a, float):
        return a.hex()
    f = Fraction(a)
    return f"{f.numerator}/{f.denominator}"


def guarded(thunk):
    try:
        return observe(thunk())
    except BaseException as e:    # noqa: the exception class is the observation
        if isinstance(e, (KeyboardInterrupt, SystemExit, MemoryError)):
            raise
        return {'k': 'err', 'e': err_name(e), 'py': type(e).__name__,
                'msg': str(e)[:200]}


def set_mode(name):
    """name: Coq constructor of the mode (M05UP ...)."""
    import decimalfp
    m = {'M05UP': 'ROUND_05UP', 'MCEIL': 'ROUND_CEILING', 'MDOWN': 'ROUND_DOWN',
         'MFLOOR': 'ROUND_FLOOR', 'MHDOWN': 'ROUND_HALF_DOWN',
         'MHEVEN': 'ROUND_HALF_EVEN', 'MHUP': 'ROUND_HALF_UP', 'MUP': 'ROUND_UP'}
    decimalfp.set_dflt_rounding_mode(getattr(decimalfp.ROUNDING, m[name]))


def rounding_enum(name):
    import decimalfp
    m = {'M05UP': 'ROUND_05UP', 'MCEIL': 'ROUND_CEILING', 'MDOWN': 'ROUND_DOWN',
         'MFLOOR': 'ROUND_FLOOR', 'MHDOWN': 'ROUND_HALF_DOWN',
         'MHEVEN': 'ROUND_HALF_EVEN', 'MHUP': 'ROUND_HALF_UP', 'MUP': 'ROUND_UP'}
    return None if name is None else getattr(decimalfp.ROUNDING, m[name])


MODES = ['M05UP', 'MCEIL', 'MDOWN', 'MFLOOR', 'MHDOWN', 'MHEVEN', 'MHUP', 'MUP']


# ------------------------------------------------------------ observations -> Coq

def coq_obs(o, views):
    """Observation -> Coq term of type Corr.Obs.obs."""
    k = o['k']
    if k == 'qty':
        if o.get('float'):
            return "OFloat"
        u = views.units.get(o['sym'])
        if u is None:
            return "OUnknownUnit"
        cid = views.cls_ids.get(o['cls'], 999999)
        return f"(OQty {cn(cid)} {cn(u['id'])} {cq(Fraction(o['amt']))})"
    if k == 'num':
        return f"(ONum {cq(Fraction(o['v']))})"
    if k == 'bool':
        return f"(OBool {cbool(o['v'])})"
    if k == 'err':
        return f"(OErr {o['e']})"
    if k == 'none':
        return "ONone"
    if k == 'float':
        return "OFloat"
    if k == 'notimpl':
        return "ONotImpl"
    return "OOther"


# ------------------------------------------------------------ random worlds

def random_world(rng, n_classes=2, quantized_p=0.4, with_free=False, with_npow=None):
    """User-declared types with chains of scaled units."""
    classes = []
    tag = ''.join(rng.choice('abcdefghij') for _ in range(3))
    for ci in range(n_classes):
        name = f"Ux{tag}{ci}"
        ref = f"{tag}{ci}r"
        quantum = None
        if rng.random() < quantized_p:
            quantum = rng.choice(['1/8', '1/3', '1/20', '7', '1/100', '5/2'])
        units = []
        syms = [ref]
        scales = {ref: Fraction(1)}
        for ui in range(rng.randint(1, 5)):
            sym = f"{tag}{ci}u{ui}"
            kind = rng.choice(['dec', 'frac', 'int'])
            if kind == 'int':
                f = Fraction(rng.choice([2, 3, 10, 12, 60, 1000, 1024]))
            elif kind == 'dec':
                f = Fraction(rng.choice([1, 5, 25, 254, 3048, 45359237]),
                             10 ** rng.randint(0, 8))
            else:
                f = Fraction(rng.randint(1, 40), rng.choice([3, 7, 9, 11, 18]))
            base = rng.choice(syms)
            if quantum is not None:
                # `f * base` is itself a quantity of the quantized type and is
                # rounded to the quantum by the constructor: only on-grid
                # definitions denote what they say (DESIGN.md appendix A)
                k = rng.choice([1, 2, 3, 8, 10, 12, 100, 1000, 1024])
                f = k * Fraction(quantum) / scales[base]
                kind = 'frac'
            scales[sym] = f * scales[base]
            units.append({'sym': sym, 'factor': f"{f.numerator}/{f.denominator}",
                          'fkind': kind, 'base': base})
            if quantum is None and rng.random() < (0.7 if kind == 'int' else 0.2):
                units[-1]['via'] = 'term'
                if kind == 'int' and rng.random() < 0.7:
                    # int x reference unit: the term is kept as given, the scale is the int
                    units[-1]['base'] = ref
                    scales[sym] = f
            syms.append(sym)
        c = {'name': name, 'ref': ref, 'quantum': quantum, 'units': units}
        if quantum is None and with_npow:
            # a unit given by a two-item term  number ** k x unit  with k != 1 (seeded C01-j:
            # the exponent of the numeric item ignored).  Drawn after the other units.
            nb, nk = with_npow[0], with_npow[1]
            base = syms[0] if len(syms) == 1 else syms[with_npow[2] % len(syms)]
            f = Fraction(nb) ** nk
            scales[f"{tag}{ci}np"] = f * scales[base]
            units.append({'sym': f"{tag}{ci}np", 'factor': f"{f.numerator}/{f.denominator}",
                          'fkind': 'frac', 'base': base, 'via': 'term', 'npow': [f"{nb}/1", nk]})
        classes.append(c)
    return {'predefined': False, 'classes': classes}
